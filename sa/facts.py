"""Fact extraction (engine E1 driver) and the fact base (loader + AST helpers).

Facts are produced by the clang plugin tools/facts/facts.cc, one JSON file per
translation unit, cached under work/facts keyed by the content hash of the TU,
of every repository file it includes and of the compile flags.  Every check
calls ensure() first, so what is analysed is always /repo's current tree.
"""
import hashlib, json, os, shlex, subprocess, sys, time
from concurrent.futures import ThreadPoolExecutor

VERIF = os.path.dirname(os.path.dirname(os.path.abspath(__file__)))
WORK = os.path.join(VERIF, 'work')
REPO = os.environ.get('VERIF_REPO', '/repo').rstrip('/')
PLUGIN = os.path.join(WORK, 'bin', 'facts.so')
COMPDB = os.path.join(WORK, 'compdb.json')

SCOPES = ['src/uscxml', 'src/apps', 'contrib/src/uscxml', 'contrib/src/jsmn', 'test/src']


class AnalysisBroken(Exception):
    """Anchor vanished / TU unparsable / idiom unknown: exit 2, never pass or violation."""


def _sha(path):
    h = hashlib.sha256()
    with open(path, 'rb') as f:
        h.update(f.read())
    return h.hexdigest()


def ensure_setup():
    if not (os.path.exists(PLUGIN) and os.path.exists(COMPDB)):
        r = subprocess.run([os.path.join(VERIF, 'setup.sh')], capture_output=True, text=True)
        if r.returncode != 0:
            raise AnalysisBroken('setup failed: ' + r.stdout[-500:] + r.stderr[-500:])


_compdb = None


def compdb():
    """file (repo-relative) -> (compiler args without -o/-c/-M*, directory)"""
    global _compdb
    if _compdb is not None:
        return _compdb
    ensure_setup()
    db = json.load(open(COMPDB))
    out = {}
    for e in db:
        f = e['file']
        if not f.startswith('/repo/'):
            continue
        rel = f[len('/repo/'):]
        if rel in out:
            continue
        args = shlex.split(e['command'])
        keep = []
        skip = False
        for a in args[1:]:
            if skip:
                skip = False
                continue
            if a in ('-o', '-MF', '-MT'):
                skip = True
                continue
            if a in ('-c', '-MD') or a == f:
                continue
            if REPO != '/repo':
                if a.startswith('-I/repo/'):
                    a = '-I' + REPO + a[len('-I/repo'):]
            keep.append(a)
        out[rel] = (keep, e['directory'])
    _compdb = out
    return out


def library_tus():
    """All TUs the design puts in scope (DESIGN 2.1)."""
    res = []
    for rel in sorted(compdb()):
        if not rel.endswith(('.cpp', '.c')):
            continue
        if '/bindings/' in rel:
            continue
        if rel.startswith(('src/uscxml/', 'src/apps/', 'contrib/src/uscxml/')) or rel in (
                'contrib/src/jsmn/jsmn.c', 'test/src/test-gen-c.cpp'):
            if os.path.exists(os.path.join(REPO, rel)):
                res.append(rel)
    return res


def _cache_dir():
    """fact cache: under work/ for the repository the checks are registered for; for any other tree (scratch copies made by
    tools/trypatch.py, tryall.py, seedcheck.py, revertcheck.py) inside that tree, so that it disappears with the copy"""
    d = os.path.join(WORK, 'facts', hashlib.md5(REPO.encode()).hexdigest()[:8])
    if os.path.realpath(REPO) != '/repo':
        inside = os.path.join(REPO, '.verif_facts')
        try:
            if not os.path.isdir(inside):
                os.makedirs(inside, exist_ok=True)
                _seed_cache(inside)
            return inside
        except OSError:
            pass
    os.makedirs(d, exist_ok=True)
    return d


def _seed_cache(inside):
    """a scratch copy differs from /repo in a few files: start from /repo's cache (hard links, no copy); every entry is validated against
    the copy's own files by the content hashes in its key, so only the translation units the change touches are extracted again"""
    src = os.path.join(WORK, 'facts', hashlib.md5(b'/repo').hexdigest()[:8])
    if not os.path.isdir(src):
        return
    for name in os.listdir(src):
        if not name.endswith(('.json', '.key')):
            continue
        try:
            os.link(os.path.join(src, name), os.path.join(inside, name))
        except OSError:
            return      # another file system: no seeding, everything is extracted


def _norm_flags(flags):
    """compile flags with the location of the tree taken out (the key of a cache entry must not depend on where the tree lies)"""
    out = []
    for a in flags:
        for pre in (REPO + '/', '/repo/'):
            if a.startswith('-I' + pre):
                a = '-I$R/' + a[len('-I' + pre):]
                break
        out.append(a)
    return out


def _cache_paths(rel):
    base = os.path.join(_cache_dir(), rel.replace('/', '__'))
    return base + '.json', base + '.key'


def _flags_for(rel):
    db = compdb()
    if rel in db:
        return db[rel]
    raise AnalysisBroken('no compile command for %s' % rel)


def _fresh(rel):
    out, keyf = _cache_paths(rel)
    if not (os.path.exists(out) and os.path.exists(keyf)):
        return False
    try:
        key = json.load(open(keyf))
    except Exception:
        return False
    flags, _ = _flags_for(rel)
    if _norm_flags(key.get('flags') or []) != _norm_flags(flags) or key.get('plugin') != _sha(PLUGIN):
        return False
    for f, h in key['files'].items():
        p = os.path.join(REPO, f)
        if not os.path.exists(p) or _sha(p) != h:
            return False
    return True


def _extract(rel, extra_scope=()):
    # one extractor per TU at a time across concurrently running checks; late-comers find the result fresh
    import fcntl
    out, keyf = _cache_paths(rel)
    with open(out + '.lock', 'w') as lk:
        fcntl.flock(lk, fcntl.LOCK_EX)
        if _fresh(rel):
            return rel, True, ''
        return _extract_locked(rel)


def _extract_locked(rel):
    flags, d = _flags_for(rel)
    out, keyf = _cache_paths(rel)
    src = os.path.join(REPO, rel)
    comp = 'clang' if rel.endswith('.c') else 'clang++'
    tmp = '.tmp.%d' % os.getpid()           # checks may run concurrently: never share a partially written file
    cmd = [comp, '-fsyntax-only', '-w', '-fplugin=' + PLUGIN, '-Xclang', '-add-plugin', '-Xclang', 'uscxml-facts',
           '-Xclang', '-plugin-arg-uscxml-facts', '-Xclang', 'out=' + out + tmp]
    for sc in SCOPES:
        cmd += ['-Xclang', '-plugin-arg-uscxml-facts', '-Xclang', 'scope=' + os.path.join(REPO, sc)]
    cmd += ['-Xclang', '-plugin-arg-uscxml-facts', '-Xclang', 'root=' + REPO + '/']
    cmd += flags + [src]
    if not os.path.isdir(d):
        d = VERIF
    r = subprocess.run(cmd, cwd=d, capture_output=True, text=True)
    if r.returncode != 0 or not os.path.exists(out + tmp):
        if os.path.exists(out + tmp):
            os.remove(out + tmp)
        return rel, False, (r.stderr or r.stdout)[-1500:]
    data = json.load(open(out + tmp))
    files = {}
    for f in data.get('files', []):
        if f.startswith(REPO + '/'):
            relf = f[len(REPO) + 1:]
            if os.path.exists(f):
                files[relf] = _sha(f)
    files[rel] = _sha(src)
    os.replace(out + tmp, out)
    json.dump({'flags': flags, 'plugin': _sha(PLUGIN), 'files': files}, open(keyf + tmp, 'w'))
    os.replace(keyf + tmp, keyf)
    return rel, True, ''


def ensure(tus, jobs=16):
    """Make sure facts of the given TUs reflect the current tree. Returns (extracted, cached)."""
    ensure_setup()
    stale = [t for t in tus if not _fresh(t)]
    if stale:
        with ThreadPoolExecutor(jobs) as ex:
            for rel, ok, err in ex.map(_extract, stale):
                if not ok:
                    raise AnalysisBroken('clang could not parse %s:\n%s' % (rel, err))
    return len(stale), len(tus) - len(stale)


# --------------------------------------------------------------------------
# AST helpers

TRANSPARENT = ('ImplicitCastExpr', 'ParenExpr', 'CXXFunctionalCastExpr', 'CStyleCastExpr', 'ExprWithCleanups',
               'MaterializeTemporaryExpr', 'CXXBindTemporaryExpr', 'CXXStaticCastExpr', 'ConstantExpr')


def strip(n):
    while n and n['k'] in TRANSPARENT and n.get('c'):
        n = n['c'][0]
    return n


def sub(n):
    """pre-order over a node and all descendants (including decl initialisers)."""
    if not isinstance(n, dict):
        return
    stack = [n]
    while stack:
        x = stack.pop()
        yield x
        kids = []
        for c in x.get('c', ()):
            if isinstance(c, dict):
                kids.append(c)
        for dd in x.get('decls', ()):
            if isinstance(dd.get('init'), dict):
                kids.append(dd['init'])
        stack.extend(reversed(kids))


def children(n):
    kids = [c for c in n.get('c', ()) if isinstance(c, dict)]
    for dd in n.get('decls', ()):
        if isinstance(dd.get('init'), dict):
            kids.append(dd['init'])
    return kids


def callee_q(n):
    c = n.get('callee')
    return c['q'] if c else None


def is_call(n, *names):
    q = callee_q(n)
    return q is not None and q in names


def relpath(p):
    if p.startswith(REPO + '/'):
        return p[len(REPO) + 1:]
    if p.startswith('/repo/'):
        return p[6:]
    return p


def locstr(n):
    l = n.get('loc') or ['?', 0, 0]
    return '%s:%d' % (relpath(l[0]), l[1])


def _substitute_aliases(d):
    """`T& alias = obj->member;` ... `alias.erase(k)`: every later use of the local reference is replaced by the member access it
    stands for (a copy of the initialiser under the use's node id), so rules that ask 'which member is touched here' see through the
    alias.  Only pure access paths (this / variables / member accesses, no calls) are substituted."""
    body = d.get('body')
    if not isinstance(body, dict):
        return
    import copy
    aliases = {}
    stack = [body]
    order = []
    while stack:
        n = stack.pop()
        if not isinstance(n, dict):
            continue
        order.append(n)
        for c in reversed(children(n)):
            stack.append(c)
    for n in order:
        if n.get('k') == 'DeclStmt':
            for dd in n.get('decls', []):
                t = (dd.get('t') or '')
                ini = dd.get('init')
                if not t.rstrip().endswith('&') or t.rstrip().endswith('&&') or not isinstance(ini, dict):
                    continue
                core = strip(ini)
                if core is None or core.get('k') != 'MemberExpr':
                    continue
                pure = True
                for x in sub(core):
                    if x.get('k') not in ('MemberExpr', 'DeclRefExpr', 'CXXThisExpr', 'ImplicitCastExpr', 'ParenExpr'):
                        pure = False
                if pure:
                    aliases[dd['lid']] = core
    if not aliases:
        return
    fresh = [9000000]
    for n in order:
        if n.get('k') == 'DeclRefExpr' and n.get('ref', {}).get('lid') in aliases:
            src = copy.deepcopy(aliases[n['ref']['lid']])
            for x in sub(src):
                fresh[0] += 1
                x['id'] = fresh[0]
            keep = {'id': n['id'], 'loc': n.get('loc'), 'end': n.get('end')}
            alias_name = n['ref'].get('name')
            n.clear()
            n.update(src)
            n.update({k: v for k, v in keep.items() if v is not None})
            n['alias_of'] = alias_name


class Func:
    """One function definition with indexed nodes, parents and CFG."""

    def __init__(self, d):
        if not d.get('_aliases_done'):
            _substitute_aliases(d)
            d['_aliases_done'] = True
        self.d = d
        self.q = d['q']
        self.m = d['m']
        self.file = relpath(d.get('file') or d['loc'][0])
        self.line = d['loc'][1]
        self.rec = d.get('rec')
        self._nodes = None
        self._parent = None

    def _index(self):
        nodes, parent = {}, {}
        roots = [self.d.get('body')] + [i.get('init') for i in self.d.get('inits', [])]
        for r in roots:
            if not isinstance(r, dict):
                continue
            stack = [(r, None)]
            while stack:
                n, p = stack.pop()
                if 'id' in n:
                    nodes[n['id']] = n
                    parent[n['id']] = p
                for c in children(n):
                    stack.append((c, n))
        self._nodes, self._parent = nodes, parent

    @property
    def nodes(self):
        if self._nodes is None:
            self._index()
        return self._nodes

    def parent(self, n):
        if self._parent is None:
            self._index()
        return self._parent.get(n['id'])

    def ancestors(self, n):
        p = self.parent(n)
        while p is not None:
            yield p
            p = self.parent(p)

    def walk(self):
        if isinstance(self.d.get('body'), dict):
            yield from sub(self.d['body'])
        for i in self.d.get('inits', []):
            if isinstance(i.get('init'), dict):
                yield from sub(i['init'])

    @property
    def blocks(self):
        return {b['id']: b for b in (self.d.get('cfg') or {}).get('blocks', [])}

    def where(self, n=None):
        if n is None:
            return '%s:%d' % (self.file, self.line)
        return locstr(n)

    def __repr__(self):
        return '<Func %s>' % self.q


class FactBase:
    def __init__(self, tus):
        self.tus = list(tus)
        t0 = time.time()
        self.extracted, self.cached = ensure(self.tus)
        self.funcs = {}     # mangled -> Func
        self.byq = {}       # qualified name -> [Func]
        self.records = {}
        self.vars = {}
        self.tu_of = {}
        for rel in self.tus:
            out, _ = _cache_paths(rel)
            d = json.load(open(out))
            for f in d['functions']:
                if f['m'] not in self.funcs:
                    fn = Func(f)
                    fn.tu = rel
                    self.funcs[f['m']] = fn
                    self.byq.setdefault(f['q'], []).append(fn)
            for r in d['records']:
                self.records.setdefault(r['q'], r)
            for v in d.get('vars', []):
                self.vars.setdefault(v['q'], v)
        # extracted helpers of the engine step functions are inlined (sa/inline.py) so that path rules see one body
        from . import inline
        self.inlined = {}
        for q in inline.ROOTS:
            for fn in list(self.byq.get(q, [])):
                d2 = inline.inline_root(self, fn)
                if d2 is not None:
                    nf = Func(d2)
                    nf.tu = fn.tu
                    self.funcs[fn.m] = nf
                    self.byq[q] = [nf if x is fn else x for x in self.byq[q]]
                    self.inlined[q] = d2['inlined']
        for cls, pred in inline.CLASS_ROOTS.items():
            for fn in [f_ for f_ in list(self.funcs.values()) if f_.rec == cls]:
                d2 = inline.inline_root(self, fn, want=pred, members=False)
                if d2 is not None:
                    nf = Func(d2)
                    nf.tu = fn.tu
                    self.funcs[fn.m] = nf
                    self.byq[fn.q] = [nf if x is fn else x for x in self.byq[fn.q]]
                    self.inlined[fn.q] = d2['inlined']
        self.load_s = time.time() - t0
        self._src = {}
        # class hierarchy
        self.bases = {}
        for q, r in self.records.items():
            self.bases[q] = [b.replace('class ', '').replace('struct ', '').strip() for b in r['bases']]
        self.overriders = {}
        for q, r in self.records.items():
            for m in r['methods']:
                for o in m['overrides']:
                    self.overriders.setdefault(o, set()).add(m['m'])

    # ---- lookup
    def fn(self, q, required=True, params=None):
        """the unique definition with this qualified name (overloads: first by line, or select by the
        list of parameter type substrings `params`)"""
        l = self.byq.get(q)
        if l and params is not None:
            l = [f for f in l if len(f.d.get('params', [])) == len(params) and all(p in fp['t'] for p, fp in zip(params, f.d['params']))]
        if not l:
            if required:
                raise AnalysisBroken('anchor function %s not found in %d TUs' % (q, len(self.tus)))
            return None
        return sorted(l, key=lambda f: (f.file, f.line))[0]

    def fns(self, q):
        return sorted(self.byq.get(q, []), key=lambda f: (f.file, f.line))

    def is_sub(self, t, base):
        if t == base:
            return True
        return any(self.is_sub(b, base) for b in self.bases.get(t, ()))

    def all_overriders(self, m):
        seen = set()
        work = [m]
        while work:
            x = work.pop()
            for o in self.overriders.get(x, ()):
                if o not in seen:
                    seen.add(o)
                    work.append(o)
        return seen

    def targets(self, call):
        """resolved definitions a call node may invoke (CHA for virtual calls)."""
        c = call.get('callee')
        if not c:
            return []
        res = []
        if c['m'] in self.funcs:
            res.append(self.funcs[c['m']])
        if c.get('virt'):
            for o in self.all_overriders(c['m']):
                if o in self.funcs:
                    res.append(self.funcs[o])
        return res

    # ---- source text
    def src_lines(self, file):
        rel = relpath(file)
        if rel not in self._src:
            try:
                self._src[rel] = open(os.path.join(REPO, rel), errors='replace').read().split('\n')
            except OSError:
                self._src[rel] = []
        return self._src[rel]

    def text(self, n):
        """source text of a node (from begin to end location)"""
        l = n.get('loc')
        e = n.get('end')
        if not l or not e:
            return ''
        lines = self.src_lines(l[0])
        if l[1] - 1 >= len(lines):
            return ''
        if e[0] == l[1]:
            return lines[l[1] - 1][l[2] - 1:e[1] - 1]
        parts = [lines[l[1] - 1][l[2] - 1:]]
        for i in range(l[1], min(e[0] - 1, len(lines))):
            parts.append(lines[i])
        if e[0] - 1 < len(lines):
            parts.append(lines[e[0] - 1][:e[1] - 1])
        return '\n'.join(parts)


def load_extra(path, like='src/uscxml/util/String.cpp', lang=None):
    """Extract facts for a file outside the repository (positive controls, reconstructed C) with the
    flags of TU `like`; returns a FactBase-like object restricted to that file."""
    ensure_setup()
    flags, d = _flags_for(like)
    path = os.path.abspath(path)
    h = hashlib.sha256(open(path, 'rb').read() + repr(flags).encode() + _sha(PLUGIN).encode()).hexdigest()[:16]
    out = os.path.join(_cache_dir(), 'extra_' + os.path.basename(path) + '_' + h + '.json')
    tmp = '.tmp.%d' % os.getpid()
    if not os.path.exists(out):
        is_c = (lang == 'c') or path.endswith('.c')
        comp = 'clang' if is_c else 'clang++'
        if is_c:
            flags = [a for a in flags if not a.startswith('-std=')]
        cmd = [comp, '-fsyntax-only', '-w', '-fplugin=' + PLUGIN, '-Xclang', '-add-plugin', '-Xclang', 'uscxml-facts',
               '-Xclang', '-plugin-arg-uscxml-facts', '-Xclang', 'out=' + out + tmp,
               '-Xclang', '-plugin-arg-uscxml-facts', '-Xclang', 'scope=' + os.path.dirname(path),
               '-Xclang', '-plugin-arg-uscxml-facts', '-Xclang', 'root=' + REPO + '/']
        if is_c:
            cmd += ['-x', 'c']
        cmd += flags + [path]
        r = subprocess.run(cmd, cwd=d if os.path.isdir(d) else VERIF, capture_output=True, text=True)
        if r.returncode != 0 or not os.path.exists(out + tmp):
            raise AnalysisBroken('clang could not parse %s:\n%s' % (path, (r.stderr or r.stdout)[-1500:]))
        os.replace(out + tmp, out)
    fb = FactBase.__new__(FactBase)
    fb.tus = [path]
    fb.extracted, fb.cached = 0, 1
    fb.funcs, fb.byq, fb.records, fb.vars, fb._src = {}, {}, {}, {}, {}
    d = json.load(open(out))
    for f in d['functions']:
        if f['m'] not in fb.funcs:
            fn = Func(f)
            fn.tu = path
            fb.funcs[f['m']] = fn
            fb.byq.setdefault(f['q'], []).append(fn)
    for r in d['records']:
        fb.records.setdefault(r['q'], r)
    for v in d.get('vars', []):
        fb.vars.setdefault(v['q'], v)
    fb.bases = {q: [b.replace('class ', '').replace('struct ', '').strip() for b in r['bases']] for q, r in fb.records.items()}
    fb.overriders = {}
    fb.load_s = 0
    return fb
