"""C07 - errors become error events, never crashes (DESIGN 4/C07)."""
import re
from .. import facts, cg, exc, cfg as cfgm, tab
from ..facts import AnalysisBroken, strip, sub, locstr
from . import C17

# throw sites declared infeasible, with reason (never a wildcard)
INFEASIBLE = {
    ('uscxml::X::X', 'std::basic_string<char, std::char_traits<char>, std::allocator<char>>'):
        'X(const char*) throws a std::string only when XMLPlatformUtils::Initialize fails; Xerces is initialised once in the InterpreterImpl constructor (process-level precondition)',
    ('uscxml::DOMUtils::xPathForNode', 'uscxml::ErrorEvent'):
        'default: arm for non-element ancestors; callers pass a DOMElement whose ancestors are elements up to the document node',
}

CALLBACKS = ('process', 'isTrue', 'isMatched', 'initData', 'raiseDoneEvent', 'invoke', 'uninvoke', 'dequeueInternal', 'dequeueExternal')
ENGINES = ('uscxml::LargeMicroStep::step', 'uscxml::FastMicroStep::step')

# functions whose catch(ErrorEvent) handlers are on the executable-content path (R07.3)
ERR_HANDLER_FUNCS = ('uscxml::BasicContentExecutor::process', 'uscxml::InterpreterImpl::isTrue', 'uscxml::InterpreterImpl::initData',
                     'uscxml::InterpreterImpl::dequeueExternal', 'uscxml::InterpreterImpl::dequeueInternal',
                     'uscxml::BasicContentExecutor::raiseDoneEvent', 'uscxml::InterpreterImpl::eventReady')

# C callbacks / thread roots that belong to optional servers and tools, not to the interpreter core of this property
ROOT_SCOPE = ('src/uscxml/interpreter/', 'src/uscxml/plugins/invoker/scxml/', 'src/uscxml/plugins/ioprocessor/scxml/')


def thread_roots(fb):
    """functions handed by address to std::thread or to an external C API (libevent callbacks)"""
    roots = {}
    for f in fb.funcs.values():
        for n in f.walk():
            c = n.get('callee')
            if not c:
                continue
            is_thread = c['q'].startswith('std::thread::thread')
            if not (is_thread or (c.get('ext') and c['m'] not in fb.funcs)):
                continue
            for a in n.get('c', [])[0 if n['k'] == 'CXXConstructExpr' else 1:]:
                for s in sub(a):
                    if s['k'] == 'DeclRefExpr' and s.get('ref', {}).get('dk') in ('Function', 'CXXMethod') and s['ref'].get('m') in fb.funcs:
                        tgt = fb.funcs[s['ref']['m']]
                        # operator overloads and the like appear as callee refs of nested calls: keep only arguments
                        par = a
                        roots.setdefault(tgt.m, (tgt, 'std::thread' if is_thread else c['q'], n, f))
    # drop callee references of nested call expressions (not address-taken)
    res = {}
    for m, (tgt, how, n, f) in roots.items():
        res[m] = (tgt, how, n, f)
    return res


def call_granularity(rep, fb, rule, callee, what, funcs=None, min_sites=1):
    """each call of `callee` in the engines sits alone in a try/catch(...) without loops: a failure of one element does not
    skip its siblings (shared by C01 R01.4, C07 R07.5 for process() and C11 R11.7 for invoke())"""
    short = callee.split('::')[-1]
    for eq in (funcs or ENGINES):
        f = fb.fn(eq)
        sites = 0
        for n in f.walk():
            if n.get('callee', {}).get('q') != callee:
                continue
            sites += 1
            tr = None
            for a in f.ancestors(n):
                if a['k'] == 'CXXTryStmt':
                    tr = a
                    break
                if a['k'] in ('ForStmt', 'CXXForRangeStmt', 'WhileStmt', 'DoStmt'):
                    break
            ordinal = sum(1 for x in f.walk() if x.get('callee', {}).get('q') == callee and x['loc'][1] < n['loc'][1])
            sig = '%s|%s#%d' % (eq.split('::')[1], short, ordinal)
            if tr is None:
                rep.fail(rule, sig, locstr(n), '%s() is not directly enclosed by a try inside its loop: an error would skip the following %s too' % (short, what))
                continue
            body = tr['c'][0]
            calls = [s for s in sub(body) if s.get('callee', {}).get('q') == callee]
            loops = [s for s in sub(body) if s['k'] in ('ForStmt', 'CXXForRangeStmt', 'WhileStmt', 'DoStmt')]
            catch_all = any(h.get('caught') == '...' for h in tr['c'][1:])
            rep.check(len(calls) == 1 and not loops and catch_all, rule, sig, locstr(n),
                      'try body holds %d %s() call(s), %d loop(s); catch(...): %s' % (len(calls), short, len(loops), catch_all))
        rep.minimum(rule, sites, min_sites, '%s() sites in %s' % (short, eq))


def block_granularity(rep, fb, rule):
    """each process() call of the engines sits alone in a try/catch(...) without loops (shared by C01 R01.4 and C07 R07.5)"""
    call_granularity(rep, fb, rule, 'uscxml::MicroStepCallbacks::process', 'blocks')
    # inside a block an error ends the block: every handler of BasicContentExecutor::process leaves by a throw, so the failure of a nested
    # element reaches the engine's per-block handler instead of letting the remaining elements of the block run
    pr = fb.fn('uscxml::BasicContentExecutor::process')
    g = cfgm.CFG(pr)
    throws = [x['id'] for x in pr.walk() if x['k'] == 'CXXThrowExpr']
    handlers = [x for x in pr.walk() if x['k'] == 'CXXCatchStmt']
    rep.minimum(rule, len(handlers), 2, 'handlers in BasicContentExecutor::process')
    for h in handlers:
        hb = g.handler_block.get(h['id'])
        if hb is None:
            raise AnalysisBroken('BasicContentExecutor::process: handler at %s has no CFG block' % locstr(h))
        leak = g.can_reach((hb, -1), ['EXIT'], avoid=throws)
        rep.check(leak is None, rule, 'BasicContentExecutor::process|catch(%s) leaves by throw' % (h.get('caught') or '...').split('::')[-1], locstr(h),
                  'the handler for %s %s' % (h.get('caught') or '...', 'always re-throws: the enclosing block ends with the failed element' if leak is None else
                                            'can FALL THROUGH to the normal end of process(): the elements after the failed container in the same block are still executed'))



def lua_marshalling_faults(rep, fb):
    """R07.8 - R07.10: the Lua <-> Data marshalling does not kill the process"""
    rep.rule('R07.8', 'DOM nodes stay with their document: SWIG_Lua_NewPointerObj is called with own = 0 for nodes that the document owns (SWIG_POINTER_DISOWN is the flag 1: Lua\'s garbage collector would delete a pool-allocated node), and the pushed userdata is read from the top of the stack')
    rep.rule('R07.9', 'marshalling a table terminates: the recursion of getLuaAsData over table values is bounded (depth parameter or visited set tested before the recursive call); node.parent = node or _G as a value raise error.execution, not a stack overflow')
    rep.rule('R07.10', 'no Lua error outside a protected call: LuaRef::cast<T> on a table key or value is reached only under a test of the matching Lua type (cast goes through luaL_check*, which calls lua_error -> panic -> abort when the type does not fit)')
    lf = [f for f in fb.funcs.values() if f.file.endswith('lua/LuaDataModel.cpp') and f.d.get('body')]
    if not lf:
        raise AnalysisBroken('LuaDataModel.cpp not in the fact base')
    n8 = 0
    for f in lf:
        for n in f.walk():
            if n['k'] == 'CallExpr' and n.get('callee', {}).get('q', '') == 'SWIG_Lua_NewPointerObj':
                n8 += 1
                own = n['c'][4] if len(n.get('c', [])) > 4 else None
                ownv = tab.const_of(own) if own is not None else None
                from_macro = own is not None and any(m[0] == 'SWIG_POINTER_DISOWN' for x in sub(own) for m in (x.get('mac') or []))
                rep.check(ownv == 0 and not from_macro, 'R07.8', '%s|own#%d' % (f.q.split('::')[-1], n['loc'][1]), locstr(n), 'SWIG_Lua_NewPointerObj(..., own = %s%s)%s' % (
                    ownv, ' via SWIG_POINTER_DISOWN' if from_macro else '', '' if ownv == 0 and not from_macro else ': Lua owns the document\'s node and deletes it on the next garbage collection or at lua_close (free(): invalid pointer)'))
                # the value just pushed is the top of the stack
                par = None
                for x in f.walk():
                    if x['k'] == 'CallExpr' and x.get('callee', {}).get('q', '').endswith('LuaRef::fromStack') and x['loc'][1] in (n['loc'][1] + 1, n['loc'][1] + 2):
                        par = x
                if par is not None:
                    idx = tab.const_of(par['c'][2]) if len(par.get('c', [])) > 2 else None
                    rep.check(idx == -1, 'R07.8', '%s|fromStack#%d' % (f.q.split('::')[-1], par['loc'][1]), locstr(par), 'the pushed node is read with fromStack(L, %s)%s' % (idx, '' if idx == -1 else ': index 1 is the BOTTOM of the stack - a second XML value sees the first one\'s node'))
    rep.minimum('R07.8', n8, 2, 'SWIG_Lua_NewPointerObj calls in the Lua data model')
    l2d = next((f for f in lf if f.q == 'uscxml::getLuaAsData'), None)
    if l2d is None:
        raise AnalysisBroken('getLuaAsData not found')
    g = cfgm.CFG(l2d)
    from .C08 import edge_dominates
    rec = [n for n in l2d.walk() if n['k'] == 'CallExpr' and n.get('callee', {}).get('q', '') == 'uscxml::getLuaAsData' and n['id'] in g.pos]
    rep.minimum('R07.9', len(rec), 1, 'recursive calls in getLuaAsData')
    params = {p_['lid']: p_ for p_ in l2d.d.get('params', [])}
    bound_lids = {lid for lid, p_ in params.items() if re.search(r'\b(int|size_t|unsigned|long|std::set|std::vector)\b', p_.get('t') or '')}
    for r_ in rec:
        tb = g.pos[r_['id']][0]
        ok = False
        for bid, blk in g.blocks.items():
            c = blk.get('cond')
            if c is None or c not in l2d.nodes or bid == tb:
                continue
            if any(x['k'] == 'DeclRefExpr' and x.get('ref', {}).get('lid') in bound_lids for x in sub(l2d.nodes[c])) and (edge_dominates(g, bid, True, tb) or edge_dominates(g, bid, False, tb)):
                ok = True
        rep.check(ok, 'R07.9', 'getLuaAsData|recursion#%d' % r_['loc'][1], locstr(r_), 'the recursive call for a table value is %s' % ('under a test of a depth / visited parameter' if ok else 'UNBOUNDED: a table that contains itself (node.parent = node, <param expr="_G"/>) recurses until the stack overflows (SIGSEGV)'))
    casts = [n for n in l2d.walk() if n['k'] == 'CXXMemberCallExpr' and n.get('callee', {}).get('q', '').startswith('luabridge::LuaRef::cast') and n['id'] in g.pos]
    rep.minimum('R07.10', len(casts), 3, 'LuaRef::cast uses in getLuaAsData')
    TYPE_TESTS = {'long': ('isInteger', 'lua_isinteger'), 'double': ('isNumber',), 'int': ('isInteger', 'lua_isinteger'), 'std::string': ('isString', 'isNumber'), 'std::basic_string<char>': ('isString', 'isNumber')}
    for c_ in casts:
        base = ' '.join(fb.text(c_['c'][0]['c'][0]).split()) if c_['c'][0].get('c') else '?'
        want = TYPE_TESTS.get((c_.get('t') or '').replace('const ', ''), ('isNumber', 'isString'))
        tb = g.pos[c_['id']][0]
        ok = False
        for bid, blk in g.blocks.items():
            cnd = blk.get('cond')
            if cnd is None or cnd not in l2d.nodes:
                continue
            for x in sub(l2d.nodes[cnd]):
                if x['k'] == 'CXXMemberCallExpr' and x.get('callee', {}).get('q', '').split('::')[-1] in want + ('type',) and x['c'][0].get('c') and ' '.join(fb.text(x['c'][0]['c'][0]).split()) == base:
                    if bid == tb or edge_dominates(g, bid, True, tb) or edge_dominates(g, bid, False, tb):
                        ok = True
        rep.check(ok, 'R07.10', 'getLuaAsData|%s.cast<%s>#%d' % (base, (c_.get('t') or '?').split('::')[-1][:12], c_['loc'][1]), locstr(c_), '%s.cast<%s>() is reached %s' % (base, c_.get('t'), 'under a test of the Lua type of %s' % base if ok else
                  'WITHOUT a test of the type of %s: for a key such as true, 0.5 or {} luaL_check* raises a Lua error outside any pcall - "PANIC: unprotected error", abort()' % base))


def double_delete(rep, fb):
    """R07.11: a member pointer deleted outside the destructor is nulled there"""
    rep.rule('R07.11', 'no double delete of a member: a member function other than the destructor that deletes a member pointer which the destructor deletes (or joins) too resets the member to NULL on the same path')
    n = 0
    for cls, r in fb.records.items():
        if not cls.startswith('uscxml::'):
            continue
        dtor = next((f for f in fb.funcs.values() if f.rec == cls and f.q.split('::')[-1].startswith('~')), None)
        if dtor is None:
            continue
        ddel = {strip(x['c'][0]).get('ref', {}).get('name') for x in dtor.walk() if x['k'] == 'CXXDeleteExpr' and x.get('c') and strip(x['c'][0]) is not None and strip(x['c'][0])['k'] == 'MemberExpr'}
        if not ddel:
            continue
        for f in [f_ for f_ in fb.funcs.values() if f_.rec == cls and f_ is not dtor and f_.d.get('cfg')]:
            g = cfgm.CFG(f)
            for x in f.walk():
                if x['k'] == 'CXXDeleteExpr' and x.get('c') and strip(x['c'][0]) is not None and strip(x['c'][0])['k'] == 'MemberExpr' and strip(x['c'][0])['ref'].get('name') in ddel and x['id'] in g.pos:
                    name = strip(x['c'][0])['ref']['name']
                    n += 1
                    nulls = [y['id'] for y in f.walk() if y['k'] == 'BinaryOperator' and y.get('op') == '=' and strip(y['c'][0]) is not None and strip(y['c'][0])['k'] == 'MemberExpr' and
                             strip(y['c'][0])['ref'].get('name') == name and y['id'] in g.pos]
                    w = g.can_reach(g.pos[x['id']], ['EXIT'], avoid=nulls)
                    rep.check(w is None, 'R07.11', '%s::%s|delete %s' % (cls.split('::')[-1], f.q.split('::')[-1], name), locstr(x), '%s deletes %s, which the destructor deletes as well; the member is %s' % (
                        f.q.split('::')[-1], name, 'reassigned on every path after the delete' if w is None else 'NOT reset: the destructor joins / deletes the freed object again (SIGSEGV when the invoking state is left)'))
    rep.minimum('R07.11', n, 1, 'member deletes outside destructors whose member the destructor deletes too')


NULLABLE = ('lua_tolstring', 'getenv', 'lua_tostring')
TYPE_GUARDS = ('lua_isstring', 'lua_type', 'lua_isnumber')


def null_strings(rep, fb, rule):
    sites = 0
    for f in fb.funcs.values():
        if not f.file.startswith('src/uscxml/') or not f.d.get('cfg'):
            continue
        srcs = [n for n in f.walk() if n['k'] == 'CallExpr' and n.get('callee', {}).get('q', '') in NULLABLE]
        if not srcs:
            continue
        g = cfgm.CFG(f)
        dom = None
        # locals holding such a result
        holders = {}
        for n in f.walk():
            if n['k'] == 'DeclStmt':
                for d in n.get('decls', []):
                    if d.get('init') is not None and any(x in srcs for x in sub(d['init'])) and (d.get('t') or '').replace('const ', '').strip() == 'char *':
                        holders[d['lid']] = d
        for n in f.walk():
            if n['k'] != 'CXXConstructExpr' or 'basic_string' not in n.get('callee', {}).get('q', '') or not n.get('c'):
                continue
            a = strip(n['c'][0])
            if a is None:
                continue
            src = None
            if a in srcs:
                src = ('call', a)
            elif a['k'] == 'DeclRefExpr' and a.get('ref', {}).get('lid') in holders:
                src = ('local', a)
            if src is None:
                continue
            sites += 1
            if n['id'] not in g.pos:
                continue
            dom = dom or g.dominators()
            guarded = False
            for bid, b in g.blocks.items():
                c = b.get('cond')
                if c is None or c not in f.nodes:
                    continue
                cn = f.nodes[c]
                tests = any(x.get('callee', {}).get('q', '') in TYPE_GUARDS for x in sub(cn)) if src[0] == 'call' else any(
                    x['k'] == 'DeclRefExpr' and x.get('ref', {}).get('lid') == src[1]['ref']['lid'] for x in sub(cn))
                if tests and bid in dom.get(g.pos[n['id']][0], ()) and bid != g.pos[n['id']][0]:
                    guarded = True
            # `v ? v : ""` : the construct sits in an arm of a conditional that tests the local
            for anc in f.ancestors(n):
                if anc['k'] == 'ConditionalOperator' and src[0] == 'local' and any(x['k'] == 'DeclRefExpr' and x.get('ref', {}).get('lid') == src[1]['ref']['lid'] for x in sub(anc['c'][0])):
                    guarded = True
            what = fb.text(src[1])[:40]
            rep.check(guarded, rule, '%s|%s' % (f.q.split('uscxml::')[-1], what.split('(')[0]), locstr(n), 'std::string built from `%s`: %s' % (
                what, 'after a NULL / type test' if guarded else 'WITHOUT a NULL test -- a NULL result (e.g. a Lua error object that is not a string) throws std::logic_error instead of raising error.execution'))
    rep.minimum(rule, sites, 2, 'std::string constructions from lua_tolstring / getenv results')


def run(rep, tier):
    rep.rule('R07.1', 'containment at the micro-step boundary: every callback call in LargeMicroStep::step / FastMicroStep::step either has an empty may-throw set or is enclosed by handlers catching all of it')
    rep.rule('R07.2', 'thread roots and C callbacks of the interpreter core are exception-closed: mayThrow(root) is empty')
    rep.rule('R07.3', 'error => event: every catch(ErrorEvent) handler on the executable-content path enqueues the error internally on every path, or leaves by a throw of the same (unsliced) type')
    rep.rule('R07.4', 'one failure, one error event: a handler that enqueues the error and re-throws must re-throw a type that the same handler of an enclosing (recursive) activation cannot catch')
    rep.rule('R07.5', 'block granularity: each process() call in the engines sits alone in a try{}catch(...) that contains no loop, so an error skips one block only')
    rep.rule('R07.6', 'crash sources in the anchored evaluators: integer / and % in PromelaDataModel::evaluateExpr are unreachable with a zero divisor; array indices are rejected below 0 and from the declared size on')
    rep.rule('R07.7', 'no std::string from a possibly-NULL C string: the result of lua_tolstring (lua_tostring) or getenv is turned into a std::string only after a NULL / type test (std::string(NULL) throws std::logic_error, which no error handler of the content path catches)')
    rep.assume('exceptions originating in third-party code (Lua, Xerces, libevent, libcurl) other than the library-thrower table are not modelled')
    rep.assume('user-supplied monitors and loggers do not throw (calls through InterpreterMonitor / Logger are opaque)')
    for k, v in INFEASIBLE.items():
        rep.assume('infeasible throw site %s [%s]: %s' % (k[0], k[1].split('<')[0], v))

    fb = facts.FactBase(facts.library_tus())
    ex = exc.ExcFlow(fb, infeasible=set(INFEASIBLE))
    callgraph = cg.CallGraph(fb)
    nthrow = sum(1 for its in ex.items.values() for it in its if it['kind'] in ('throw', 'rethrow'))
    ntry = sum(1 for f in fb.funcs.values() for n in f.walk() if n['k'] == 'CXXTryStmt')
    rep.covered(tus=len(fb.tus), extracted=fb.extracted, functions=len(fb.funcs), throw_sites=nthrow, try_blocks=ntry,
                functions_that_may_throw=sum(1 for m in ex.may if ex.may[m]))
    rep.minimum('R07.1', nthrow, 120, 'throw sites in the library')

    null_strings(rep, fb, 'R07.7')
    lua_marshalling_faults(rep, fb)
    double_delete(rep, fb)
    from . import C15
    C15.nesting_bound(rep, fb, 'R07.12')
    # ---- R07.1
    for eq in ENGINES:
        f = fb.fn(eq)
        n_sites = 0
        for it in ex.items[f.m]:
            if it['kind'] != 'call':
                continue
            n = it['node']
            cq = n['callee']['q']
            if not cq.startswith('uscxml::MicroStepCallbacks::') or cq.split('::')[-1] not in CALLBACKS:
                continue
            n_sites += 1
            esc = ex.escaping(f, n)
            name = cq.split('::')[-1]
            ordinal = sum(1 for it2 in ex.items[f.m] if it2['kind'] == 'call' and it2['node']['callee']['q'] == cq and it2['node']['loc'][1] < n['loc'][1])
            sig = '%s|%s#%d' % (eq.split('::')[1], name, ordinal)
            if esc:
                chains = []
                for t in sorted(esc):
                    tg = [x for x in fb.targets(n) if t in ex.may.get(x.m, {})]
                    ch = ex.chain(tg[0].m, t) if tg else []
                    chains.append('%s: %s' % (t, ' | '.join(ch[-3:])))
                rep.fail('R07.1', sig + '|' + ','.join(sorted(t.split('<')[0] for t in esc)), locstr(n),
                         'callback %s may raise %s and no enclosing handler catches it: the exception leaves step()' % (name, sorted(t.split('<')[0] for t in esc)), path=chains)
            else:
                rep.ok('R07.1', sig, 'contained (may-throw of targets: %s)' % sorted({t.split('<')[0] for x in fb.targets(n) for t in ex.may.get(x.m, {})}))
        rep.minimum('R07.1', n_sites, 15, 'callback call sites in ' + eq)

    # ---- R07.2
    roots = thread_roots(fb)
    core = {m: r for m, r in roots.items() if r[0].file.startswith(ROOT_SCOPE)}
    rep.minimum('R07.2', len(core), 4, 'thread roots / C callbacks in the interpreter core')
    # USCXMLInvoker::invoke initialises the child (InterpreterImpl::init) before it starts the thread, so the
    # lazy init() inside the child's step() is a no-op on the invoker thread.  The edge is cut only if that
    # ordering is a structural fact: the init() call dominates start() in USCXMLInvoker::invoke.
    inv = fb.fn('uscxml::USCXMLInvoker::invoke')
    gi = cfgm.CFG(inv)
    init_calls = [n for n in inv.walk() if n.get('callee', {}).get('q') == 'uscxml::InterpreterImpl::init']
    start_calls = [n for n in inv.walk() if n.get('callee', {}).get('q') == 'uscxml::USCXMLInvoker::start']
    if not start_calls:
        raise AnalysisBroken('USCXMLInvoker::invoke no longer calls start()')
    dom = gi.dominators()
    init_first = bool(init_calls) and all(any(gi.dominates(i['id'], s_['id'], dom) for i in init_calls) for s_ in start_calls)
    ex_inv = exc.ExcFlow(fb, infeasible=set(INFEASIBLE), cut={('uscxml::InterpreterImpl::step', 'uscxml::InterpreterImpl::init')}) if init_first else ex
    rep.check(init_first, 'R07.2', 'USCXMLInvoker::invoke|init-before-start', inv.where(), 'child is initialised on the invoking thread before the invoker thread starts: %s' % init_first)
    for m, (tgt, how, n, f) in sorted(core.items(), key=lambda kv: kv[1][0].q):
        may = (ex_inv if tgt.q == 'uscxml::USCXMLInvoker::run' else ex).may.get(m, {})
        if may:
            chains = ['%s: %s' % (t, ' | '.join((ex_inv if tgt.q == 'uscxml::USCXMLInvoker::run' else ex).chain(m, t)[-4:])) for t in sorted(may)]
            rep.fail('R07.2', '%s|%s' % (tgt.q, ','.join(sorted(t.split('<')[0] for t in may))), tgt.where(),
                     'root %s (registered with %s at %s) may let %s escape: std::terminate' % (tgt.q, how, locstr(n), sorted(t.split('<')[0] for t in may)), path=chains)
        else:
            rep.ok('R07.2', tgt.q, 'registered with %s at %s; may-throw set empty' % (how, locstr(n)))
    others = sorted(r[0].q for m, r in roots.items() if m not in core)
    rep.note('R07.2: %d further roots outside the interpreter core (servers, fetcher, dirmon, tools) are not part of this property: %s' % (len(others), ', '.join(others)[:400]))

    # ---- R07.3
    n_h = 0
    for q in ERR_HANDLER_FUNCS:
        for f in fb.fns(q):
            g = None
            for n in f.walk():
                if n['k'] != 'CXXCatchStmt' or exc.norm(n.get('caught')) != 'uscxml::ErrorEvent':
                    continue
                n_h += 1
                if g is None:
                    g = cfgm.CFG(f)
                hb = g.handler_block.get(n['id'])
                if hb is None:
                    raise AnalysisBroken('handler block of catch at %s not found in CFG' % locstr(n))
                enq = {s['id'] for s in sub(n) if s.get('callee', {}).get('q', '').endswith('::enqueueInternal')}
                typed_throw = {s['id'] for s in sub(n) if s['k'] == 'CXXThrowExpr' and exc.norm(s.get('thrown')) in ('uscxml::ErrorEvent', '<rethrow>')}
                # any path from the handler entry to the function exit that passes neither?
                w = g.can_reach((hb, -1), ['EXIT'], avoid=enq | typed_throw)
                ordinal = sum(1 for x in f.walk() if x['k'] == 'CXXCatchStmt' and exc.norm(x.get('caught')) == 'uscxml::ErrorEvent' and x['loc'][1] < n['loc'][1])
                rep.check(w is None, 'R07.3', '%s|catch#%d' % (q, ordinal), locstr(n),
                          'catch(ErrorEvent): %s' % ('every path enqueues the error internally or re-throws it typed' if w is None else 'a path leaves the handler without raising the error event'))
    rep.minimum('R07.3', n_h, 5, 'catch(ErrorEvent) handlers on the executable-content path')

    # ---- R07.4  one failure, one error event
    n4 = 0
    for q in ERR_HANDLER_FUNCS:
        for f in fb.fns(q):
            for tr in f.walk():
                if tr['k'] != 'CXXTryStmt':
                    continue
                body = tr['c'][0]
                # is the function re-entered from inside this try body (recursion through nested content)?
                reent = False
                seen = set()
                work = [t.m for s_ in sub(body) if s_.get('callee') for t in fb.targets(s_)]
                while work and not reent:
                    m_ = work.pop()
                    if m_ in seen:
                        continue
                    seen.add(m_)
                    if m_ == f.m:
                        reent = True
                        break
                    for n_, tg in callgraph.sites.get(m_, ()):
                        for t in tg:
                            if t.m not in seen:
                                work.append(t.m)
                if not reent:
                    continue
                handlers = [(exc.norm(h.get('caught')), h) for h in tr['c'][1:]]
                for ct, h in handlers:
                    if not any(s_.get('callee', {}).get('q', '').endswith('::enqueueInternal') for s_ in sub(h)):
                        continue
                    for th in sub(h):
                        if th['k'] != 'CXXThrowExpr':
                            continue
                        n4 += 1
                        tt = exc.norm(th.get('thrown'))
                        types = sorted(ex.live_types.get((f.m, h['id']), {ct})) if tt == '<rethrow>' else [tt]
                        again = [t for t in types if ex.caught_by(t, [handlers]) is not None and any(
                            s_.get('callee', {}).get('q', '').endswith('::enqueueInternal') for s_ in sub(ex.caught_by(t, [handlers])))]
                        rep.check(not again, 'R07.4', '%s|enqueue-and-rethrow' % q, locstr(th),
                                  'handler enqueues the error and re-throws %s; the enclosing activation of %s %s' % (
                                      types, q.split('::')[-1], 'would catch it again and enqueue a second error event' if again else 'cannot catch that type again (one error event per failure)'))
    rep.minimum('R07.4', n4, 1, 'enqueue-and-rethrow handlers in recursive content execution')

    # ---- R07.5
    block_granularity(rep, fb, 'R07.5')

    # ---- R07.6
    C17.check_divisions(rep, fb, 'R07.6')
    C17.check_index_bounds(rep, fb, 'R07.6')
