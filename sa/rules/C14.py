"""C14 - serialized state resumes to identical behaviour: writer/reader agreement, provenance, coverage, rejection
of foreign state (DESIGN 4/C14)."""
import re
from .. import facts, path, cfg as cfgm, tab
from ..facts import AnalysisBroken, strip, sub, locstr
from .C10 import written_members

PAIRS = [
    ('uscxml::InterpreterImpl::serialize', 'uscxml::InterpreterImpl::deserialize'),
    ('uscxml::LargeMicroStep::serialize', 'uscxml::LargeMicroStep::deserialize'),
    ('uscxml::FastMicroStep::serialize', 'uscxml::FastMicroStep::deserialize'),
    ('uscxml::BasicEventQueue::serialize', 'uscxml::BasicEventQueue::deserialize'),
    ('uscxml::BasicDelayedEventQueue::serialize', 'uscxml::BasicDelayedEventQueue::deserialize'),
    ('uscxml::USCXMLInvoker::serialize', 'uscxml::USCXMLInvoker::deserialize'),
    ('uscxml::Event::operator Data', 'uscxml::Event::fromData'),
]
TUS = ['src/uscxml/interpreter/InterpreterImpl.cpp', 'src/uscxml/interpreter/LargeMicroStep.cpp', 'src/uscxml/interpreter/FastMicroStep.cpp',
       'src/uscxml/interpreter/BasicEventQueue.cpp', 'src/uscxml/interpreter/BasicDelayedEventQueue.cpp', 'src/uscxml/messages/Event.cpp',
       'src/uscxml/messages/Data.cpp', 'src/uscxml/plugins/invoker/scxml/USCXMLInvoker.cpp', 'src/uscxml/Interpreter.cpp']

# keys the reader may ignore / the writer may omit, with reason
OPTIONAL_READ = {('uscxml::InterpreterImpl', 'url'): 'written for humans, only its presence is checked'}
# members that need not be serialized, with reason (R14.3)
COVERAGE_EXEMPT = {
    '_flags': 're-established by deserialize() (INITIALIZED); STABLE is re-derived by the first step',
    '_microstepConfigurations': 'cleared whenever a stable configuration is reached; serialize() is refused elsewhere',
    '_isCancelled': 'a cancelled interpreter finishes, it is not resumed',
    '_exitSets': 'document-only cache', '_exitSetCache': 'document-only cache',
    '_configurationPostFix': 'second ordered view of the configuration; deserialize() rebuilds it from the same serialized list (paired update is C02 R02.2)',
}


def key_of_index(n):
    """string literal K of  X["K"]  (Data::operator[](const char*/std::string))"""
    if n['k'] == 'CXXOperatorCallExpr' and n.get('op') == '[]' and len(n.get('c', [])) >= 3:
        for s in sub(n['c'][2]):
            if s['k'] == 'StringLiteral' and 'str' in s:
                return s['str']
    return None


def is_data_index(n):
    return n['k'] == 'CXXOperatorCallExpr' and n.get('op') == '[]' and 'Data::operator[]' in n.get('callee', {}).get('q', '')


def root_var(f, kind):
    """lid of the Data object that is the serialized state: writer = the returned local, reader = the Data parameter
    (or the local parsed from the JSON string)"""
    if kind == 'w':
        for n in f.walk():
            if n['k'] == 'ReturnStmt':
                for s in sub(n):
                    if s['k'] == 'DeclRefExpr' and 'lid' in s.get('ref', {}) and 'Data' in s.get('t', ''):
                        return s['ref']['lid']
        return None
    for p_ in f.d.get('params', []):
        if 'Data' in p_['t']:
            return p_['lid']
    for n in f.walk():
        if n['k'] == 'DeclStmt':
            for d in n.get('decls', []):
                if 'Data' in d['t'] and 'init' in d and any(s.get('callee', {}).get('q') == 'uscxml::Data::fromJSON' for s in sub(d['init'])):
                    return d['lid']
    return None


def base_var(n):
    """innermost variable an index / member chain starts from"""
    x = n
    while True:
        x = strip(x)
        if x['k'] == 'DeclRefExpr':
            return x['ref'].get('lid')
        if x['k'] == 'CXXOperatorCallExpr' and x.get('op') == '[]':
            x = x['c'][1]
        elif x['k'] in ('MemberExpr', 'CXXMemberCallExpr') and x.get('c'):
            x = x['c'][0]
        elif x['k'] == 'CXXConstructExpr' and x.get('c'):
            x = x['c'][0]
        else:
            return None


def top_keys(f, kind):
    """keys applied to the serialized-state object itself: {(key, depth): [nodes]}; kind = 'w' or 'r'"""
    root = root_var(f, kind)
    if root is None:
        raise AnalysisBroken('%s: serialized-state object not identified' % f.q)
    out = {}
    for n in f.walk():
        if is_data_index(n):
            k = key_of_index(n)
            if k is None or base_var(n) != root:
                continue
            base = strip(n['c'][1])
            nested = any(is_data_index(s) for s in sub(base))
            out.setdefault((k, 1 if nested else 0), []).append(n)
        q = n.get('callee', {}).get('q', '')
        if kind == 'r' and q.endswith('Data::hasKey') and n.get('c') and n['c'][0].get('c'):
            if base_var(n['c'][0]['c'][0]) != root:
                continue
            for s in sub(n):
                if s['k'] == 'StringLiteral' and 'str' in s:
                    base = strip(n['c'][0]['c'][0])
                    nested = any(is_data_index(x) for x in sub(base))
                    out.setdefault((s['str'], 1 if nested else 0), []).append(n)
    return out


def run(rep, tier):
    rep.rule('R14.1', 'writer/reader schema agreement: for each serialize/deserialize pair the set of top-level keys written equals the set read (presence checks included); array elements written under a key have the keys the reader takes from them')
    rep.rule('R14.2', 'field provenance: a key the reader stores into member m is written from member m (not from a local or another member)')
    rep.rule('R14.3', 'run-state coverage: every persistent run-state member of the engines is serialized and restored, or exempt with a reason; InterpreterImpl restores what it saves')
    rep.rule('R14.4', 'foreign state is rejected first: in InterpreterImpl::deserialize the MD5 comparison dominates every restoring call; serialize() refuses unless the state is IDLE, MACROSTEPPED or FINISHED')
    rep.rule('R14.5', 'restore order: data-model values are restored before the micro-stepper state (which re-runs active invocations that read them)')
    rep.rule('R14.7', 'finished stays finished: each engine writes whether it has finished (a finished machine has an empty configuration) and its deserialize() restores the FINISHED / TOP_LEVEL_FINAL bits')
    rep.rule('R14.8', 'what the first microstep does besides entering states is done on resume too: the engines\' deserialize() (which skips the pristine microstep) runs the document\'s global scripts, or the interpreter persists what they defined')
    rep.rule('R14.9', 'serialize() of an invoked session can take its lock: USCXMLInvoker::run does not hold the mutex that serialize() needs across an unbounded blocking step() of the child')
    rep.rule('R14.6', 'scalar encodings agree: a key whose reader converts the atom with strTo<T> is written by handing a value of the same type T to the generic Data(value, type) constructor (toStr of the same type), not a hand-written literal spelling ("true"/"false" is not what strTo<bool> reads)')
    rep.assume('behavioural identity of the resumed interpreter is not decided')
    tus = TUS if tier == 'quick' else facts.library_tus()
    fb = facts.FactBase(tus)
    rep.covered(tus=len(tus), extracted=fb.extracted, functions=len(fb.funcs))
    # rules that live with C03 / C13 and decide a clause of this property too (the resumed engine starts from a reset one and is stable)
    from ..report import Renamed
    from . import C03, C13
    C03.audit_rules_c03(Renamed(rep, {'R03.13': 'R14.10'}), fb)
    C13.stable_restored(rep, fb, 'R14.11')
    from . import C16
    fbl14 = facts.FactBase(['src/uscxml/plugins/datamodel/lua/LuaDataModel.cpp'])
    C16.nil_is_null(rep, fbl14, 'R14.12')
    C16.bare_words(rep, fbl14, 'R14.12')
    from . import C08
    C08.restore_replaces(rep, fb, 'R14.14')
    # ---- R14.13 the session identity is part of the state
    rep.rule('R14.13', 'a resumed session is the session that was saved: serialize() writes the session id, deserialize() adopts it before init() hands it to the data model and the i/o processors (the origin of queued events, a stored _sessionid or location would name a session that no longer exists)')
    from .. import cfg as cfgm13
    ser13 = fb.fn('uscxml::InterpreterImpl::serialize')
    des13 = fb.fn('uscxml::InterpreterImpl::deserialize')
    writes13 = any(y['k'] == 'MemberExpr' and y.get('ref', {}).get('name') == '_sessionId' for y in ser13.walk())
    g13 = cfgm13.CFG(des13)
    asg13 = [n for n in des13.walk() if n['k'] in ('CXXOperatorCallExpr', 'BinaryOperator') and n.get('op') == '=' and any(
        y['k'] == 'MemberExpr' and y.get('ref', {}).get('name') == '_sessionId' for y in sub(n['c'][-2])) and n['id'] in g13.pos]
    # ... or through an own helper called from deserialize (an extracted adoptSessionId())
    for n in des13.walk():
        cq = n.get('callee', {}).get('q', '')
        if cq.startswith('uscxml::InterpreterImpl::') and cq not in ('uscxml::InterpreterImpl::init', des13.q) and n['id'] in g13.pos:
            hf = fb.fn(cq, required=False)
            if hf is not None and any(x['k'] in ('CXXOperatorCallExpr', 'BinaryOperator') and x.get('op') == '=' and any(
                    y['k'] == 'MemberExpr' and y.get('ref', {}).get('name') == '_sessionId' for y in sub(x['c'][-2])) for x in hf.walk()):
                asg13.append(n)
    init13 = [n for n in des13.walk() if n.get('callee', {}).get('q') == 'uscxml::InterpreterImpl::init' and n['id'] in g13.pos]
    before13 = bool(asg13) and bool(init13) and g13.can_reach(g13.pos[asg13[0]['id']], [init13[0]['id']]) is not None and g13.can_reach(g13.pos[init13[0]['id']], [asg13[0]['id']]) is None
    rep.check(writes13 and before13, 'R14.13', 'InterpreterImpl|session id', (locstr(asg13[0]) if asg13 else des13.where()), 'serialize() writes the session id: %s; deserialize() adopts it before init(): %s%s' % (
        writes13, before13, '' if writes13 and before13 else ' -- a reply to the origin of a restored queued event raises error.communication, a stored _sessionid no longer matches'))

    for wq, rq in PAIRS:
        w, r = fb.fn(wq), fb.fn(rq)
        cls = w.rec
        wk = top_keys(w, 'w')
        rk = top_keys(r, 'r')
        # keys read by a helper of the same class that gets the state object handed over (an extracted adoptSessionId(state))
        rroot = root_var(r, 'r')
        for n in r.walk():
            cq = n.get('callee', {}).get('q', '')
            if n['k'] in ('CXXMemberCallExpr', 'CallExpr') and cq.startswith(cls + '::') and cq != r.q and any(
                    y['k'] == 'DeclRefExpr' and y.get('ref', {}).get('lid') == rroot for a_ in n.get('c', [])[1:] for y in sub(a_)):
                hf = fb.fn(cq, required=False)
                if hf is not None and root_var(hf, 'r') is not None:
                    for kk, vv in top_keys(hf, 'r').items():
                        rk.setdefault(kk, []).extend(vv)
        w0 = {k for (k, d) in wk if d == 0}
        r0 = {k for (k, d) in rk if d == 0}
        # a serialize() that returns the result of a nested call (facade) has no keys of its own
        if not w0 and not r0:
            raise AnalysisBroken('%s / %s: no Data keys found' % (wq, rq))
        name = cls.split('::')[-1]
        only_w = sorted(w0 - r0)
        only_r = sorted(k for k in r0 - w0 if (cls, k) not in OPTIONAL_READ)
        rep.check(not only_w and not only_r, 'R14.1', '%s|top-level keys' % name, w.where(), '%s writes %s, %s reads %s%s' % (
            wq.split('::')[-1], sorted(w0), rq.split('::')[-1], sorted(r0), '' if not (only_w or only_r) else '; written but never read: %s; read but never written: %s' % (only_w, only_r)))
        rep.sample({'pair': name, 'written': sorted(w0), 'read': sorted(r0)})
        # element keys: what is pushed into  X["K"].array  vs what the reader takes from the loop variable over  data["K"].array
        for n in w.walk():
            if n['k'] == 'CXXMemberCallExpr' and n['callee']['q'].split('::')[-1] == 'push_back' and n.get('c') and any(is_data_index(s) for s in sub(n['c'][0])):
                key = [key_of_index(s) for s in sub(n['c'][0]) if is_data_index(s)]
                key = [k for k in key if k][:1]
                if not key:
                    continue
                arg = strip(n['c'][1])
                while arg['k'] in ('CXXConstructExpr', 'CXXMemberCallExpr') and arg.get('c') and arg['k'] == 'CXXConstructExpr':
                    if len(arg['c']) != 1:
                        break
                    arg = strip(arg['c'][0])
                wkeys = None
                if arg['k'] == 'DeclRefExpr' and 'lid' in arg.get('ref', {}):
                    lid = arg['ref']['lid']
                    t = arg.get('t', '')
                    if 'Event' in t:
                        wkeys = 'EVENT'
                    else:
                        ks = set()
                        for s in w.walk():
                            if is_data_index(s) and strip(s['c'][1])['k'] == 'DeclRefExpr' and strip(s['c'][1])['ref'].get('lid') == lid:
                                k = key_of_index(s)
                                if k:
                                    ks.add(k)
                            if s['k'] == 'MemberExpr' and s['ref'].get('name') == 'compound' and s.get('c') and strip(s['c'][0])['k'] == 'DeclRefExpr' and strip(s['c'][0])['ref'].get('lid') == lid:
                                ks.add('<dynamic>')
                        wkeys = ks
                elif 'Event' in arg.get('t', '') or any(x.get('callee', {}).get('q', '').startswith('uscxml::Event::operator') for x in sub(n['c'][1])):
                    wkeys = 'EVENT'
                # reader side
                rkeys = None
                for lp in r.walk():
                    if lp['k'] != 'CXXForRangeStmt':
                        continue
                    rng_keys = [key_of_index(s) for c_ in lp.get('c', []) if c_ and c_['k'] == 'DeclStmt' for d in c_.get('decls', []) if d['name'].startswith('__range') and 'init' in d for s in sub(d['init']) if is_data_index(s)]
                    if key[0] not in rng_keys:
                        continue
                    lv = lp.get('range', {}).get('lid')
                    ks = set()
                    body = lp['c'][-1]
                    direct_event = False
                    for s in sub(body):
                        if is_data_index(s) and strip(s['c'][1])['k'] == 'DeclRefExpr' and strip(s['c'][1])['ref'].get('lid') == lv:
                            k = key_of_index(s)
                            if k:
                                ks.add(k)
                        if s.get('callee', {}).get('q') == 'uscxml::Event::fromData' and strip(s['c'][1])['k'] == 'DeclRefExpr' and strip(s['c'][1])['ref'].get('lid') == lv:
                            direct_event = True
                        if s['k'] == 'MemberExpr' and s['ref'].get('name') in ('compound',) and s.get('c') and strip(s['c'][0])['k'] == 'DeclRefExpr' and strip(s['c'][0])['ref'].get('lid') == lv:
                            ks.add('<dynamic>')
                    rkeys = 'EVENT' if direct_event and not ks else ks
                if wkeys is None or rkeys is None:
                    continue
                if isinstance(wkeys, set) and not wkeys and isinstance(rkeys, set) and not rkeys:
                    continue     # atoms
                rep.check(wkeys == rkeys, 'R14.1', '%s|elements of "%s"' % (name, key[0]), locstr(n), 'elements written under "%s" are %s; the reader takes %s from each element' % (
                    key[0], 'Events (keys of Event::operator Data)' if wkeys == 'EVENT' else 'records with keys %s' % sorted(wkeys), 'an Event (Event::fromData)' if rkeys == 'EVENT' else 'keys %s' % sorted(rkeys)))

        # ---- R14.2 provenance (member-level)
        members = {fd['name'] for fd in fb.records.get(cls, {}).get('fields', [])}
        wsrc, rdst = {}, {}
        defs_w = path.local_defs(w)
        for (k, d), nodes in wk.items():
            if d != 0:
                continue
            src = set()
            for n in nodes:
                # assignment  X["k"] = expr   or  X["k"].array.push_back(expr)  /  X["k"].compound = expr
                p = w.parent(n)
                hops = 0
                while p is not None and hops < 6:
                    if p['k'] in ('CXXOperatorCallExpr', 'BinaryOperator') and p.get('op') == '=' and any(x is n for x in sub(p['c'][1] if p['k'] == 'CXXOperatorCallExpr' else p['c'][0])):
                        rhs = p['c'][2] if p['k'] == 'CXXOperatorCallExpr' else p['c'][1]
                        src |= (path.origin_members(w, rhs, defs_w) & members) or ({'<this>'} if any(s['k'] == 'CXXThisExpr' for s in sub(rhs)) else set())
                        if not (path.origin_members(w, rhs, defs_w) & members) and any(s['k'] == 'DeclRefExpr' and 'lid' in s.get('ref', {}) and s['ref']['name'] in members for s in sub(rhs)):
                            src.add('<local shadowing member %s>' % [s['ref']['name'] for s in sub(rhs) if s['k'] == 'DeclRefExpr' and s.get('ref', {}).get('name') in members][0])
                        break
                    if p['k'] == 'CXXMemberCallExpr' and p['callee']['q'].split('::')[-1] == 'push_back':
                        src |= path.origin_members(w, p['c'][1], defs_w) & members
                        if not src:
                            # record built inside a loop over a member: the loop's range is the source
                            for a in w.ancestors(p):
                                if a['k'] == 'CXXForRangeStmt':
                                    for c_ in a.get('c', []):
                                        if c_ and c_['k'] == 'DeclStmt':
                                            for d_ in c_.get('decls', []):
                                                if d_['name'].startswith('__range') and 'init' in d_:
                                                    src |= {x['ref']['name'] for x in sub(d_['init']) if x['k'] == 'MemberExpr' and x['ref'].get('name') in members}
                                    break
                        break
                    p = w.parent(p)
                    hops += 1
            wsrc[k] = src
        defs_r = path.local_defs(r)
        for (k, d), nodes in rk.items():
            if d != 0:
                continue
            dst = set()
            for n in nodes:
                p = r.parent(n)
                hops = 0
                while p is not None and hops < 10:
                    if p['k'] in ('CXXOperatorCallExpr', 'BinaryOperator') and p.get('op') == '=':
                        lhs = p['c'][1] if p['k'] == 'CXXOperatorCallExpr' else p['c'][0]
                        dst |= {s['ref']['name'] for s in sub(lhs) if s['k'] == 'MemberExpr' and s['ref'].get('name') in members}
                        break
                    if p['k'] == 'CXXForRangeStmt':
                        for s in sub(p['c'][-1]):
                            if s['k'] == 'CXXMemberCallExpr' and s['callee']['q'].split('::')[-1] in ('insert', 'push_back') and s.get('c') and s['c'][0].get('c'):
                                b = strip(s['c'][0]['c'][0])
                                if b['k'] == 'MemberExpr' and b['ref'].get('name') in members:
                                    dst.add(b['ref']['name'])
                            if s['k'] in ('CXXOperatorCallExpr',) and s.get('op') == '=' and len(s['c']) > 1:
                                for x in sub(s['c'][1]):
                                    if x['k'] == 'MemberExpr' and x['ref'].get('name') in members:
                                        dst.add(x['ref']['name'])
                        break
                    p = r.parent(p)
                    hops += 1
            rdst[k] = dst
        for k in sorted(set(wsrc) & set(rdst)):
            if not rdst[k]:
                continue
            ws = {x for x in wsrc[k]}
            # the large engine restores both ordered views from the one list
            ok = bool(ws & rdst[k]) or (not ws and False)
            rep.check(ok, 'R14.2', '%s|%s' % (name, k), locstr(wk[(k, 0)][0]), 'key "%s" is written from %s and restored into %s' % (k, sorted(ws) or 'no member', sorted(rdst[k])))

    # ---- R14.3
    for eng in ('uscxml::LargeMicroStep', 'uscxml::FastMicroStep'):
        step = fb.fn(eng + '::step')
        ser, de = fb.fn(eng + '::serialize'), fb.fn(eng + '::deserialize')
        persistent = set(written_members(step, eng)) & set(written_members(fb.fn(eng + '::reset'), eng))
        saved = {s['ref']['name'] for s in ser.walk() if s['k'] == 'MemberExpr' and s['ref'].get('rec') == eng and s['ref'].get('dk') == 'Field'}
        restored = set(written_members(de, eng))
        rep.minimum('R14.3', len(persistent), 4, 'persistent members of ' + eng)
        for m in sorted(persistent):
            if m in COVERAGE_EXEMPT:
                rep.ok('R14.3', '%s|%s' % (eng.split('::')[-1], m), 'exempt: ' + COVERAGE_EXEMPT[m])
                continue
            rep.check(m in saved and m in restored, 'R14.3', '%s|%s' % (eng.split('::')[-1], m), ser.where(), 'run-state member %s is %s by serialize() and %s by deserialize()' % (m, 'read' if m in saved else 'NOT read', 'restored' if m in restored else 'NOT restored'))
    impl = 'uscxml::InterpreterImpl'
    iser, ide = fb.fn(impl + '::serialize'), fb.fn(impl + '::deserialize')
    handles_saved = {strip(n['c'][0]['c'][0])['ref']['name'] for n in iser.walk() if n['k'] == 'CXXMemberCallExpr' and n['callee']['q'].split('::')[-1] == 'serialize' and n.get('c') and n['c'][0].get('c') and strip(n['c'][0]['c'][0])['k'] == 'MemberExpr'}
    handles_restored = {strip(n['c'][0]['c'][0])['ref']['name'] for n in ide.walk() if n['k'] == 'CXXMemberCallExpr' and n['callee']['q'].split('::')[-1] == 'deserialize' and n.get('c') and n['c'][0].get('c') and strip(n['c'][0]['c'][0])['k'] == 'MemberExpr'}
    rep.check(handles_saved == handles_restored and len(handles_saved) >= 3, 'R14.3', 'InterpreterImpl|handles', iser.where(), 'handles serialized %s / deserialized %s' % (sorted(handles_saved), sorted(handles_restored)))
    # pending delayed sends: bookkeeping of their targets
    det_saved = any(s['k'] == 'MemberExpr' and s['ref'].get('name') == '_delayedEventTargets' for s in iser.walk())
    det_rest = '_delayedEventTargets' in written_members(ide, impl)
    rep.check(det_saved and det_rest, 'R14.3', 'InterpreterImpl|_delayedEventTargets', iser.where(), 'targets of pending delayed sends (_delayedEventTargets) are %s and %s; a resumed delayed event is delivered through this map' % (
        'serialized' if det_saved else 'NOT serialized', 'restored' if det_rest else 'NOT restored'))

    # ---- R14.4
    g = cfgm.CFG(ide)
    md5cmp = None
    for bid, b in g.blocks.items():
        c = b.get('cond')
        if c is not None and c in ide.nodes:
            cn = ide.nodes[c]
            names = {s.get('ref', {}).get('name') for s in sub(cn)}
            lits = {s.get('str') for s in sub(cn) if s['k'] == 'StringLiteral'}
            if '_md5' in names and 'md5' in lits and any(s.get('op') == '!=' for s in sub(cn)):
                md5cmp = (bid, cn)
    if md5cmp is None:
        rep.fail('R14.4', 'deserialize|md5 check', ide.where(), 'InterpreterImpl::deserialize does not compare the state\'s md5 with the document\'s')
    else:
        bid, cn = md5cmp
        throws = any(s['k'] == 'CXXThrowExpr' for s2, lab in g.succ_labeled(bid) if lab is True for bb in [s2] for el in g.blocks[bb]['el'] for s in [ide.nodes.get(el, {})] if s)
        restoring = [n for n in ide.walk() if n['k'] == 'CXXMemberCallExpr' and n.get('c') and n['c'][0].get('c') and strip(n['c'][0]['c'][0])['k'] == 'MemberExpr' and strip(n['c'][0]['c'][0])['ref'].get('name') in (
            '_externalQueue', '_internalQueue', '_delayQueue', '_microStepper', '_dataModel', '_invokers') and n['callee']['q'].split('::')[-1] in ('deserialize', 'init', 'assign')]
        rep.minimum('R14.4', len(restoring), 3, 'restoring calls in InterpreterImpl::deserialize')
        dom = g.dominators()
        cmp_ids = [s['id'] for s in sub(cn) if 'id' in s and s['id'] in g.pos]
        early = [n for n in restoring if not any(g.dominates(cid, n['id'], dom) for cid in cmp_ids)]
        rep.check(not early, 'R14.4', 'deserialize|md5 dominates restore', locstr(cn), 'the MD5 comparison dominates all %d restoring calls%s' % (len(restoring), '' if not early else '; applied before the check: %s' % ', '.join('%s (%s)' % (fb.text(n)[:40], locstr(n)) for n in early)))
        rep.check(throws, 'R14.4', 'deserialize|mismatch throws', locstr(cn), 'a mismatch raises error.platform: %s' % throws)
    # serialize refuses unstable states
    gs = cfgm.CFG(iser)
    okstates = None
    for n in iser.walk():
        if n['k'] == 'IfStmt':
            names = [s['ref']['name'] for s in sub(n['c'][0]) if s['k'] == 'DeclRefExpr' and s['ref'].get('dk') == 'EnumConstant']
            if names and any(s['k'] == 'CXXThrowExpr' for s in sub(n['c'][1])):
                okstates = (sorted(names), n)
    rep.check(okstates is not None and okstates[0] == ['USCXML_FINISHED', 'USCXML_IDLE', 'USCXML_MACROSTEPPED'], 'R14.4', 'serialize|stable only', iser.where(), 'serialize() refuses unless the state is one of %s' % (okstates[0] if okstates else None))

    # ---- R14.5
    dm = [n for n in ide.walk() if n.get('callee', {}).get('q', '').endswith('DataModel::init')]
    ms = [n for n in ide.walk() if n.get('callee', {}).get('q', '').endswith('MicroStep::deserialize')]
    if not dm or not ms:
        raise AnalysisBroken('InterpreterImpl::deserialize: data model restore / micro-stepper restore not found')
    late = g.can_reach(g.pos[ms[0]['id']], [d['id'] for d in dm])
    rep.check(late is None, 'R14.5', 'deserialize|datamodel before microstepper', locstr(ms[0]), 'no data-model restore is reachable after the micro-stepper was restored (it re-invokes with current data): %s' % (late is None))

    # ---- R14.6
    n_scal = 0
    for wq, rq in PAIRS:
        w, r = fb.fn(wq), fb.fn(rq)
        readers = {}
        for n in r.walk():
            q = n.get('callee', {}).get('q', '')
            if n['k'] == 'CallExpr' and q == 'uscxml::strTo':
                ks = [key_of_index(s_) for s_ in sub(n) if is_data_index(s_)]
                ks = [k for k in ks if k]
                if ks:
                    readers[ks[-1]] = (n.get('t', '?'), n)
        if not readers:
            continue
        for n in w.walk():
            if n['k'] == 'CXXOperatorCallExpr' and n.get('op') == '=' and len(n.get('c', [])) > 2:
                ks = [key_of_index(s_) for s_ in sub(n['c'][1]) if is_data_index(s_)]
                ks = [k for k in ks if k]
                if not ks or ks[-1] not in readers:
                    continue
                want_t, rn = readers[ks[-1]]
                ctor = None
                for s_ in sub(n['c'][2]):
                    if s_['k'] in ('CXXConstructExpr', 'CXXTemporaryObjectExpr', 'CXXFunctionalCastExpr') and s_.get('callee', {}).get('q', '').startswith('uscxml::Data::Data') and s_.get('c'):
                        ctor = s_
                        break
                if ctor is None:
                    continue
                n_scal += 1
                a0 = strip(ctor['c'][0])
                got_t = ((a0 or {}).get('t') or '').replace('const ', '').strip()
                integral = lambda t: bool(re.match(r'^(unsigned |signed )?(long|int|short|char|long long)( long| int)*$|^u?int\d+_t$|^size_t$', t))
                is_enum = lambda t: t.startswith('enum ') or t.endswith('::Type') or t == 'Type'
                if want_t in ('bool', '_Bool'):
                    ok = got_t in ('bool', '_Bool')
                elif integral(want_t):
                    ok = integral(got_t) or is_enum(got_t)
                else:
                    ok = got_t == want_t
                rep.check(ok, 'R14.6', '%s|%s' % (w.rec.split('::')[-1], ks[-1]), locstr(n), 'key "%s" is read with strTo<%s> and written from a value of type %s%s' % (
                    ks[-1], want_t, got_t or '?', '' if ok else ': the spelling the writer chooses is not the one toStr/strTo<%s> use' % want_t))
    rep.minimum('R14.6', n_scal, 1, 'scalar keys read with strTo<T>')

    # ---- R14.7 .. R14.9 (audit round)
    for eng in ('uscxml::LargeMicroStep', 'uscxml::FastMicroStep'):
        w7, r7 = fb.fn(eng + '::serialize'), fb.fn(eng + '::deserialize')
        writes = any(x['k'] == 'MemberExpr' and x['ref'].get('name') == '_flags' for x in w7.walk()) and any(m[0] == 'USCXML_CTX_FINISHED' for x in w7.walk() for m in (x.get('mac') or []))
        restores = any(m[0] == 'USCXML_CTX_FINISHED' for x in r7.walk() for m in (x.get('mac') or []))
        rep.check(writes and restores, 'R14.7', eng.split('::')[-1], w7.where(), '%s::serialize writes the FINISHED bit: %s; deserialize restores it: %s%s' % (eng.split('::')[-1], writes, restores,
                  '' if writes and restores else ' -- a finished interpreter resumes with an empty configuration and never reports FINISHED again'))
        runs_script = any(x['k'] == 'MemberExpr' and x['ref'].get('name') in ('onEntry', 'script') for x in r7.walk()) or any(x.get('callee', {}).get('q', '').endswith('MicroStepCallbacks::process') for x in r7.walk())
        rep.check(runs_script, 'R14.8', eng.split('::')[-1], r7.where(), '%s::deserialize %s' % (eng.split('::')[-1], 're-runs the entry code of <scxml>' if runs_script else
                  'restores sets only: the top-level <script> (entry code of <scxml>, run in the pristine microstep) is never executed in the resumed session - functions it defines are nil'))
    inv_run = fb.fn('uscxml::USCXMLInvoker::run')
    inv_ser = fb.fn('uscxml::USCXMLInvoker::serialize')
    ser_locks = any(x['k'] == 'MemberExpr' and x['ref'].get('name') == '_mutex' for x in inv_ser.walk())
    unbounded = []
    for n in inv_run.walk():
        if n['k'] == 'CXXMemberCallExpr' and n.get('callee', {}).get('q', '').endswith('Interpreter::step'):
            args = [a_ for a_ in n.get('c', [])[1:] if a_ is not None and a_['k'] != 'CXXDefaultArgExpr']
            scope = next((a_ for a_ in inv_run.ancestors(n) if a_['k'] == 'CompoundStmt'), None)
            held = scope is not None and any(x['k'] == 'DeclStmt' and any('lock_guard' in (d_.get('t') or '') or 'unique_lock' in (d_.get('t') or '') for d_ in x.get('decls', [])) and any(
                y['k'] == 'MemberExpr' and y['ref'].get('name') == '_mutex' for y in sub(x)) for x in scope.get('c', []) if x is not None)
            if not args and held:
                unbounded.append(n)
    rep.check(not (ser_locks and unbounded), 'R14.9', 'USCXMLInvoker', locstr(unbounded[0]) if unbounded else inv_run.where(), 'the invoker thread %s' % (
        'does not block under the mutex serialize() takes' if not (ser_locks and unbounded) else 'holds _mutex across step() without a time bound: while the child is idle, serialize() of the parent (which serializes its invokers under the same mutex) never returns'))
