"""C03 - the two micro-step engines are interchangeable: sibling agreement of all skeleton facts (DESIGN 4/C03)."""
from .. import facts, exc, path, cfg as cfgm, tab, cg
from ..facts import AnalysisBroken, strip, sub, locstr
from . import _skel
from .C07 import INFEASIBLE, CALLBACKS
from .C10 import written_members
from .C13 import protocol_dfa, fl as flstr

L, F = 'uscxml::LargeMicroStep::step', 'uscxml::FastMicroStep::step'


def norm_container(c):
    if c is None:
        return None
    c = c.replace('index:', '')
    # the large engine iterates sorted sets, the fast engine scans bitsets by index; the member names agree
    return c.split(',')[0]


def run(rep, tier):
    rep.rule('R03.1', 'sibling agreement: for every skeleton fact computed for one engine the other engine has the same fact -- phase-protocol verdict and event alphabet, iteration directions per site, exact _flags relation (set of (flags, return, events, flags\') tuples), monitor-protocol verdict, containment status of every callback call, run-state members covered by reset(), serialization key set')
    rep.rule('R03.2', 'registration: the factory registers one instance of each engine class, their names are distinct ("large", "fast"), the default engine of InterpreterImpl::init is a registered class')
    rep.assume('equality of traces per input is not decided; agreement is established on structure')
    fb = facts.FactBase(facts.library_tus())
    ex = exc.ExcFlow(fb, infeasible=set(INFEASIBLE))
    rep.covered(tus=len(fb.tus), extracted=fb.extracted, functions=len(fb.funcs))
    sk = {e: _skel.Skeleton(fb, ex, e) for e in (L, F)}

    def both(name, fa, fb_, detail=lambda x: str(x)[:160]):
        rep.check(fa == fb_, 'R03.1', name, '%s / %s' % (sk[L].f.where(), sk[F].f.where()),
                  '%s: %s' % (name, 'identical in both engines (%s)' % detail(fa) if fa == fb_ else 'DIFFERS: large=%s fast=%s' % (detail(fa), detail(fb_))))

    # event alphabet and phase protocol verdict
    alpha = {e: sorted(set(sk[e].ev.values())) for e in sk}
    both('event alphabet', alpha[L], alpha[F])
    counts = {e: sorted((lab, sum(1 for v in sk[e].ev.values() if v == lab)) for lab in set(sk[e].ev.values())) for e in sk}
    both('event site counts', counts[L], counts[F])
    verdict = {}
    for e in sk:
        v, _, _ = sk[e].phase_protocol()
        verdict[e] = sorted((x['kind'], x.get('event'), x['state']) for x in v)
    both('phase protocol verdict', verdict[L], verdict[F])
    mon = {}
    for e in sk:
        dfa, acc = protocol_dfa()
        v, _ = path.check_dfa(sk[e].g, sk[e].ev, dfa, 'S0', acc)
        mon[e] = sorted((x['kind'], x.get('event'), x['state']) for x in v)
    both('monitor protocol verdict', mon[L], mon[F])
    # iteration directions
    od = {}
    for e in sk:
        o = sk[e].orders()
        od[e] = {k: [(d, norm_container(c)) for d, c in infos][:1] + sorted({d for d, c in infos[1:]}) for k, (infos, n) in o.items()}
    keys = sorted(set(od[L]) | set(od[F]))
    for k in keys:
        a, b = od[L].get(k), od[F].get(k)
        if k.endswith('@completion') and a and b:
            a, b = [x if isinstance(x, str) else x[0] for x in a], [x if isinstance(x, str) else x[0] for x in b]
        both('iteration order of ' + k, a, b)
    # flag relation
    rel = {}
    for e in sk:
        f = sk[e].f
        fi = path.FlagInterp(f, lambda n: strip(n) is not None and strip(n)['k'] == 'MemberExpr' and strip(n)['ref'].get('name') == '_flags')
        keep = {nid: lab for nid, lab in sk[e].ev.items() if lab.startswith(('M:', 'I:', 'C:'))}
        for n in f.walk():
            q = n.get('callee', {}).get('q', '')
            if q in ('uscxml::MicroStepCallbacks::dequeueInternal', 'uscxml::MicroStepCallbacks::dequeueExternal'):
                keep[n['id']] = 'X:' + q.split('::')[-1]

        def retlab(n):
            r = strip(n['c'][0]) if n.get('c') else None
            return r['ref']['name'] if r and 'ref' in r else '?'
        r, explored = fi.relation(sk[e].g, keep, range(64), ret_label=retlab)
        reach = {0}
        work = [0]
        while work:
            x = work.pop()
            for ret, out, evs in r[x]:
                if out not in reach:
                    reach.add(out)
                    work.append(out)
        rel[e] = {(i, ret, out, tuple(sorted(evs))) for i in reach for ret, out, evs in r[i]}
        rep.covered(**{sk[e].eng + '_relation_tuples': len(rel[e])})
    diff = rel[L] ^ rel[F]
    rep.check(not diff, 'R03.1', 'flag relation', '%s / %s' % (sk[L].f.where(), sk[F].f.where()),
              'exact (flags, return, events, flags\') relation: %d tuples in large, %d in fast, %d differing%s' % (len(rel[L]), len(rel[F]), len(diff),
              '' if not diff else '; e.g. %s only in %s' % ((flstr(sorted(diff)[0][0]),) + sorted(diff)[0][1:3], 'large' if sorted(diff)[0] in rel[L] else 'fast')))
    # containment
    cont = {}
    for e in sk:
        f = sk[e].f
        st = []
        for it in ex.items[f.m]:
            if it['kind'] != 'call':
                continue
            q = it['node']['callee']['q']
            if q.startswith('uscxml::MicroStepCallbacks::') and q.split('::')[-1] in CALLBACKS:
                handlers = [h.get('caught') or '...' for hl in it['stack'] for ct, h in hl]
                st.append((q.split('::')[-1], sorted(t.split('<')[0] for t in ex.escaping(f, it['node'])), tuple(ct for hl in it['stack'] for ct, h in hl)))
        cont[e] = sorted(st)
    both('callback containment', cont[L], cont[F], detail=lambda x: '%d call sites' % len(x))
    # reset coverage and serialization keys
    cov, keys_ = {}, {}
    for e in sk:
        cls = sk[e].cls
        rs = fb.fn(cls + '::reset')
        cov[e] = sorted(set(written_members(rs, cls)) - {'_configurationPostFix'})
        ser = fb.fn(cls + '::serialize')
        de = fb.fn(cls + '::deserialize')
        import re as _re
        NOISE = {'cause', 'file', 'line', 'xpath', 'caption'}
        def keyset(fn):
            return sorted({s['str'] for s in fn.walk() if s['k'] == 'StringLiteral' and 'str' in s and _re.match(r'^[A-Za-z]+$', s['str']) and s['str'] not in NOISE and not any(m[0].startswith('ERROR_') for m in (s.get('mac') or []))})
        keys_[e] = (keyset(ser), keyset(de))
    both('members re-initialised by reset()', cov[L], cov[F])
    both('serialization keys (written, read)', tuple(k for k in keys_[L]), tuple(k for k in keys_[F]), detail=lambda x: str(x)[:200])

    # ---- R03.2
    reg = []
    for f in fb.funcs.values():
        if f.file.endswith('plugins/Factory.cpp'):
            for n in f.walk():
                if n['k'] == 'CXXNewExpr' and n.get('newt', '').endswith(('LargeMicroStep', 'FastMicroStep')):
                    reg.append(n['newt'].split('::')[-1])
    rep.check(sorted(reg) == ['FastMicroStep', 'LargeMicroStep'], 'R03.2', 'Factory registers both engines', 'src/uscxml/plugins/Factory.cpp', 'engine instances created in Factory.cpp: %s' % sorted(reg))
    names = {}
    for cls in ('uscxml::LargeMicroStep', 'uscxml::FastMicroStep'):
        gn = fb.fn(cls + '::getName')
        lits = [s['str'] for s in gn.walk() if s['k'] == 'StringLiteral' and 'str' in s]
        names[cls] = lits[0] if lits else None
    rep.check(names == {'uscxml::LargeMicroStep': 'large', 'uscxml::FastMicroStep': 'fast'}, 'R03.2', 'engine names', 'getName()', 'names: %s' % names)
    init = fb.fn('uscxml::InterpreterImpl::init')
    dflt = [n['newt'].split('::')[-1] for n in init.walk() if n['k'] == 'CXXNewExpr' and 'MicroStep' in n.get('newt', '')]
    rep.check(dflt == ['LargeMicroStep'], 'R03.2', 'default engine', init.where(), 'InterpreterImpl::init instantiates %s when no engine was configured' % dflt)
    pure = [m['name'] for m in fb.records['uscxml::MicroStepImpl']['methods'] if m.get('pure')]
    for cls in ('uscxml::LargeMicroStep', 'uscxml::FastMicroStep'):
        have = {m['name'] for m in fb.records[cls]['methods']}
        rep.check(set(pure) <= have, 'R03.2', cls.split('::')[-1] + ' implements MicroStepImpl', cls, 'pure virtuals %s all overridden' % sorted(pure))
