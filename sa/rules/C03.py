"""C03 - the two micro-step engines are interchangeable: sibling agreement of all skeleton facts (DESIGN 4/C03)."""
from .. import facts, exc, path, cfg as cfgm, tab, cg
from ..facts import AnalysisBroken, strip, sub, locstr
from . import _skel, _domain
from .C07 import INFEASIBLE, CALLBACKS
from .C10 import written_members
from .C13 import protocol_dfa, fl as flstr

L, F = 'uscxml::LargeMicroStep::step', 'uscxml::FastMicroStep::step'


def norm_container(c):
    if c is None:
        return None
    c = c.replace('index:', '')
    # the large engine iterates sorted sets, the fast engine scans bitsets by index; the member names agree
    return c.split(',')[0]


def large_conflict_terms(fb):
    """terms under which LargeMicroStep::step records a pair of transitions as conflicting (the lazily filled cache)"""
    st = fb.fn('uscxml::LargeMicroStep::step')
    site = None
    for n in st.walk():
        if n['k'] == 'IfStmt':
            kids = [c for c in n['c'] if c is not None]
            if len(kids) > 1 and any(x['k'] == 'CXXMemberCallExpr' and x.get('callee', {}).get('q', '').endswith('::insert') and any(
                    y['k'] == 'MemberExpr' and y.get('ref', {}).get('name') == 'conflicting' for y in sub(x['c'][0])) for x in sub(kids[1])):
                if site is None or sum(1 for _ in sub(n)) < sum(1 for _ in sub(site)):
                    site = n
    if site is None:
        raise AnalysisBroken('LargeMicroStep::step: the test that records conflicting transitions was not found')
    cond = [c for c in site['c'] if c is not None][0]
    terms = set()
    disj = []
    stack = [strip(cond)]
    while stack:
        x = strip(stack.pop())
        if x['k'] == 'BinaryOperator' and x.get('op') == '||':
            stack += [x['c'][0], x['c'][1]]
        else:
            disj.append(x)
    # an extracted helper (e.g. the overlap test moved into a static function) is looked through: its returned expression counts
    expanded = []
    for d in disj:
        c = d.get('callee') if d['k'] == 'CallExpr' else None
        if c and not c.get('ext') and c['m'] in fb.funcs:
            rets = [strip(r['c'][0]) for r in fb.funcs[c['m']].walk() if r['k'] == 'ReturnStmt' and r.get('c')]
            rets = [r for r in rets if r is not None and r['k'] != 'CXXBoolLiteralExpr']        # early `return false` guards
            if len(rets) == 1:
                st2 = [rets[0]]
                while st2:
                    x = strip(st2.pop())
                    if x['k'] == 'BinaryOperator' and x.get('op') == '||':
                        st2 += [x['c'][0], x['c'][1]]
                    else:
                        expanded.append(x)
                continue
        expanded.append(d)
    # several overlap alternatives behind one helper still form one term of the definition
    if sum(1 for x in expanded if {'first', 'second'} <= {y['ref']['name'] for y in sub(x) if y['k'] == 'MemberExpr'}) > 1 and len(expanded) > len(disj):
        seen_overlap = False
        tmp = []
        for x in expanded:
            is_ov = {'first', 'second'} <= {y['ref']['name'] for y in sub(x) if y['k'] == 'MemberExpr'}
            if is_ov and seen_overlap:
                continue
            seen_overlap = seen_overlap or is_ov
            tmp.append(x)
        expanded = tmp
    disj = expanded
    for d in disj:
        names = [y['ref']['name'] for y in sub(d) if y['k'] == 'MemberExpr']
        if 'ancestors' in names and 'source' in names and any(y.get('callee', {}).get('q', '').endswith('::find') for y in sub(d)):
            terms.add('source-ancestry#%d' % (1 + sum(1 for t in terms if t.startswith('source-ancestry'))))
        elif 'first' in names and 'second' in names:
            terms.add('exit-overlap#%d' % (1 + sum(1 for t in terms if t.startswith('exit-overlap'))))
        else:
            terms.add('other<%s>' % fb.text(d)[:40])
    return terms, site


def in_final_rules(rep, fb, rule):
    """LargeMicroStep::isInFinal agrees with Appendix D isInFinalState (shared by C03 R03.3 and C01 R01.20)"""
    # ---- R03.3 isInFinal: pseudo-states are neutral in the conjunction over a parallel's children
    iif = fb.fn('uscxml::LargeMicroStep::isInFinal')
    sw = [n for n in iif.walk() if n['k'] == 'SwitchStmt']
    if not sw:
        raise AnalysisBroken('LargeMicroStep::isInFinal: switch over the state kind not found')
    arms = tab.switch_arms(sw[0])
    tail_returns = [tab.const_of(n['c'][0]) for n in (iif.d['body'].get('c') or []) if n['k'] == 'ReturnStmt' and n.get('c')]

    def arm_returns(a):
        vals = []
        for st in a['eff']:
            for x in sub(st):
                if x['k'] == 'ReturnStmt' and x.get('c'):
                    vals.append(tab.const_of(x['c'][0]))
        if not tab.ends_control(a['eff']) or (a['eff'] and a['eff'][-1]['k'] == 'BreakStmt' and not vals):
            vals += tail_returns      # falls out of the switch to the function's trailing return
        return vals
    def kinds(a):
        out = set()
        x = a['node']
        while x is not None and x['k'] in ('CaseStmt', 'DefaultStmt'):
            if x['k'] == 'CaseStmt':
                out |= {m[0] for s_ in sub(x['c'][0]) for m in (s_.get('mac') or []) if m[0].startswith('USCXML_STATE_')}
            x = x['c'][-1] if x.get('c') else None
        return out
    explicit = {}
    dflt = None
    for a in arms:
        for k_ in kinds(a):
            explicit[k_] = a
        if a['default']:
            dflt = a
    for k_ in ('USCXML_STATE_HISTORY_DEEP', 'USCXML_STATE_HISTORY_SHALLOW'):
        a = explicit.get(k_, dflt)
        vals = arm_returns(a) if a is not None else tail_returns
        rep.check(bool(vals) and all(v == 1 for v in vals), rule, 'isInFinal|' + k_[13:], locstr(a['node']) if a is not None else iif.where(),
                  'a history pseudo-state among a parallel\'s children counts as %s in LargeMicroStep::isInFinal (it must be neutral, i.e. true: the fast engine never sees pseudo-states in the configuration)' % vals)
    want = {'USCXML_STATE_FINAL': [1], 'USCXML_STATE_ATOMIC': [0]}
    for k_, w in want.items():
        a = explicit.get(k_)
        if a is None:
            raise AnalysisBroken('isInFinal: no arm for %s' % k_)
        rep.check(arm_returns(a) == w, rule, 'isInFinal|' + k_[13:], locstr(a['node']), 'kind %s returns %s' % (k_[13:], arm_returns(a)))

    # a compound state is in a final state only through an ACTIVE child that IS a <final> (Appendix D isInFinalState)
    ca = explicit.get('USCXML_STATE_COMPOUND')
    if ca is None:
        raise AnalysisBroken('isInFinal: no arm for USCXML_STATE_COMPOUND')
    arm_nodes = [x for st in ca['stmts'] for x in sub(st)]
    problems = []
    if any(x.get('callee', {}).get('q', '').endswith('LargeMicroStep::isInFinal') for x in arm_nodes):
        problems.append('recurses into the active child (a completed <parallel> child then makes the compound state "final")')

    # locals of the arm: `auto it = std::find_if(.., [](child) { .. FINAL .. }); if (it != end) return true;` tests through `it`
    local_init = {}
    for x in arm_nodes:
        if x['k'] == 'DeclStmt':
            for d_ in x.get('decls', []):
                if isinstance(d_.get('init'), dict):
                    local_init[d_['name']] = d_['init']

    def mentions_final(n, depth=0):
        if any(m[0] == 'USCXML_STATE_FINAL' for x in sub(n) for m in (x.get('mac') or [])):
            return True
        return depth < 3 and any(x['k'] == 'DeclRefExpr' and x.get('ref', {}).get('name') in local_init and mentions_final(local_init[x['ref']['name']], depth + 1) for x in sub(n))
    for x in arm_nodes:
        if x['k'] == 'ReturnStmt' and x.get('c'):
            v = tab.const_of(x['c'][0])
            if v == 0:
                continue
            guarded = any(a_['k'] == 'IfStmt' and mentions_final(a_['c'][0]) for a_ in iif.ancestors(x) if any(y is a_ for y in arm_nodes))
            if v == 1 and not guarded:
                problems.append('returns true at line %d without a test that a child is a <final> (a region that has no active child yet, during document-order entry, counts as final)' % x['loc'][1])
            if v is None and not mentions_final(x['c'][0]) and not guarded:
                problems.append('returns `%s` without a test that a child is a <final>' % ' '.join(fb.text(x['c'][0]).split())[:40])
    rep.check(not problems, rule, 'isInFinal|COMPOUND', locstr(ca['node']), 'a compound state is in a final state %s' % (
        'only through an active child that is a <final>' if not problems else 'by a wider test: ' + '; '.join(problems) + ' -- done.state.<parallel> is then raised although a region is not final (the fast engine tests the bits of final children)'))



def parallel_completion_on_partial_configuration(rep, fb, rule):
    """the fast engine judges "all regions of the parallel are final" from the configuration while it is still being extended"""
    f = fb.fn('uscxml::FastMicroStep::step')
    sites = 0
    for call in f.walk():
        if call.get('callee', {}).get('q', '') != 'uscxml::MicroStepCallbacks::raiseDoneEvent':
            continue
        # the done event of a parallel: guarded by the emptiness of the scratch set
        guards = [a_ for a_ in f.ancestors(call) if a_['k'] == 'IfStmt' and any(x['k'] == 'MemberExpr' and x['ref'].get('name') == '_tmpStates' for x in sub(a_['c'][0]))]
        if not guards:
            continue
        sites += 1
        loops = [a_ for a_ in f.ancestors(call) if a_['k'] in ('WhileStmt', 'ForStmt', 'DoStmt')]
        outer = loops[-1] if loops else None
        writes_cfg = outer is not None and any(x['k'] in ('CXXOperatorCallExpr', 'BinaryOperator') and x.get('op') == '=' and any(
            y['k'] == 'MemberExpr' and y['ref'].get('name') == '_configuration' for y in sub(x['c'][1] if x['k'] == 'CXXOperatorCallExpr' else x['c'][0])) and any(
            m[0] == 'BIT_SET_AT' for m in (x.get('mac') or [])) for x in sub(outer))
        reads_cfg = any(x['k'] == 'MemberExpr' and x['ref'].get('name') == '_configuration' for l_ in loops[:-1] for x in sub(l_))
        rep.check(not (writes_cfg and reads_cfg), rule, 'FastMicroStep|done.state of a parallel', locstr(call), 'the test "every region of the parallel is in a final state" %s' % (
            'reads a complete configuration' if not (writes_cfg and reads_cfg) else 'walks _configuration inside the loop that is still entering states (loop at %s): regions later in document order are not active yet and do not count, so done.state.<parallel> is raised when the second of three regions reaches its final state although the third never will (the large engine answers per region)' % locstr(outer)))
    rep.minimum(rule, sites, 1, 'done-event sites for parallel states in FastMicroStep::step')


def audit_rules_c03(rep, fb):
    """R03.12 - R03.14 (audit round)"""
    rep.rule('R03.12', 'set-valued relations are filled by index: FastMicroStep::init sets a state\'s completion bits per element (by the element\'s document order), not by one merge pass that assumes the list comes in document order (an initial attribute lists its ids in token order)')
    rep.rule('R03.13', 'deserialize starts from a reset engine in both engines: the call of reset() dominates every restore (flags, loop-detection set and cancel request of an interpreter that has already run must not survive)')
    rep.rule('R03.14', 'a state string names the engine that wrote it: both engines write their name and refuse another engine\'s string (the two use different encodings under the same keys)')
    fi = fb.fn('uscxml::FastMicroStep::init')
    merges = []
    for n in fi.walk():
        if n['k'] == 'CXXMemberCallExpr' and n.get('callee', {}).get('q', '').split('::')[-1] in ('pop_front', 'front') and n['c'][0].get('c'):
            b = strip(n['c'][0]['c'][0])
            if b is not None and b['k'] == 'DeclRefExpr' and 'ompletion' in (b['ref'].get('name') or ''):
                lp = next((a_ for a_ in fi.ancestors(n) if a_['k'] in ('ForStmt', 'WhileStmt')), None)
                if lp is not None and any(x['k'] == 'MemberExpr' and x['ref'].get('name') == '_states' for x in sub(lp['c'][2] if lp['k'] == 'ForStmt' and len(lp['c']) > 2 and lp['c'][2] is not None else lp['c'][0])):
                    merges.append(n)
    rep.check(not merges, 'R03.12', 'FastMicroStep::init|completion', locstr(merges[0]) if merges else fi.where(), 'the completion bits are set %s' % (
        'per element' if not merges else 'by ONE PASS over the states that consumes the front of the completion list: for <state initial="b2 a2"> (token order, not document order) a2 is never reached, the fast engine enters the default a1 where the large engine enters a2'))
    from .. import cfg as cfgm2
    for eng in ('uscxml::LargeMicroStep', 'uscxml::FastMicroStep'):
        d = fb.fn(eng + '::deserialize')
        g = cfgm2.CFG(d)
        resets = [n for n in d.walk() if n['k'] == 'CXXMemberCallExpr' and n.get('callee', {}).get('q', '') == eng + '::reset' and n['id'] in g.pos]
        restores = [n for n in d.walk() if n['k'] in ('CXXOperatorCallExpr', 'BinaryOperator') and n.get('op') == '=' and n['id'] in g.pos and any(
            x['k'] == 'MemberExpr' and x['ref'].get('name') in ('_configuration', '_history', '_invocations', '_initializedData') for x in sub(n['c'][1] if n['k'] == 'CXXOperatorCallExpr' else n['c'][0]))] + [
            n for n in d.walk() if n['k'] == 'CXXMemberCallExpr' and n.get('callee', {}).get('q', '').split('::')[-1] == 'insert' and n['id'] in g.pos and n['c'][0].get('c') and any(
                x['k'] == 'MemberExpr' and x['ref'].get('name') in ('_configuration', '_history', '_invocations', '_initializedData') for x in sub(n['c'][0]['c'][0]))]
        ok = bool(resets) and all(any(g.dominates(r_['id'], x['id']) for r_ in resets) for x in restores) and bool(restores)
        rep.check(ok, 'R03.13', eng.split('::')[-1] + '::deserialize', d.where(), '%s::deserialize %s' % (eng.split('::')[-1], 'resets the engine before it restores' if ok else
                  'restores WITHOUT resetting first: restored into an interpreter that has already run, the finished / stable / cancelled flags survive (the fast engine keeps answering FINISHED while reporting the restored configuration; the large engine resets)'))
        w = fb.fn(eng + '::serialize')
        tag_w = any(x['k'] == 'StringLiteral' and x.get('str') == 'engine' for x in w.walk())
        tag_r = any(x['k'] == 'StringLiteral' and x.get('str') == 'engine' for x in d.walk()) and any(x['k'] == 'CXXThrowExpr' for x in d.walk())
        rep.check(tag_w and tag_r, 'R03.14', eng.split('::')[-1], w.where(), '%s writes its name into the state string: %s; refuses a foreign string: %s%s' % (eng.split('::')[-1], tag_w, tag_r,
                  '' if tag_w and tag_r else ' -- a fast string restored by the large engine gives an empty configuration without error, a large string restored by the fast engine throws std::length_error'))


def fast_conflict_terms(fb, fi_):
    """terms under which FastMicroStep::init stores `true` into the conflict matrix.  Form-independent: a leaf condition of
    the per-pair loop is a term iff on every CFG path on which it evaluates to true the value stored into conflicts[j] is true
    (exact product of the CFG with the bool locals: goto-label, flag and early-continue forms alike)."""
    from .. import quant
    stores = {}
    for n in fi_.walk():
        if n['k'] in ('CXXOperatorCallExpr', 'BinaryOperator') and n.get('op') == '=':
            lhs = n['c'][1] if n['k'] == 'CXXOperatorCallExpr' else n['c'][0]
            rhs = n['c'][2] if n['k'] == 'CXXOperatorCallExpr' else n['c'][1]
            if any(x['k'] == 'MemberExpr' and x['ref'].get('name') == 'conflicts' for x in sub(lhs)) and any(
                    a_['k'] in ('ForStmt', 'WhileStmt') for a_ in fi_.ancestors(n)):
                stores[n['id']] = rhs
    if not stores:
        raise AnalysisBroken('FastMicroStep::init: no store into Transition::conflicts inside a loop found')
    g = cfgm.CFG(fi_)
    stores = {k: v for k, v in stores.items() if k in g.pos}
    if not stores:
        raise AnalysisBroken('FastMicroStep::init: the stores into Transition::conflicts are not CFG elements')
    first = fi_.nodes[min(stores)]
    loop = [a_ for a_ in fi_.ancestors(first) if a_['k'] in ('ForStmt', 'WhileStmt')][0]
    inside = {x['id'] for x in sub(loop['c'][-1])}
    loopcond = strip(loop['c'][2] if loop['k'] == 'ForStmt' and len(loop['c']) > 2 and loop['c'][2] is not None else loop['c'][0] if loop['k'] == 'WhileStmt' else None)
    # locals derived from the ancestors relation (anc1 = _states[source1]->ancestors)
    anc_lids = set()
    for n in fi_.walk():
        if n['k'] == 'DeclStmt':
            for d in n.get('decls', []):
                if 'init' in d and any(x['k'] == 'MemberExpr' and x['ref'].get('name') == 'ancestors' for x in sub(d['init'])):
                    anc_lids.add(d['lid'])
    leaves = []
    for bid, blk in g.blocks.items():
        c = blk.get('cond')
        if c is None or c not in fi_.nodes or c not in inside:
            continue
        cn = strip(fi_.nodes[c])
        names = [x['ref'].get('name') for x in sub(cn) if x['k'] == 'MemberExpr']
        cls = None
        if cn['k'] == 'BinaryOperator' and cn.get('op') == '==' and 'source' in names and 'first' not in names:
            cls = 'same-source'
        elif 'ancestors' in names or any(x['k'] == 'DeclRefExpr' and x.get('ref', {}).get('lid') in anc_lids for x in sub(cn)):
            cls = 'source-ancestry'
        elif 'second' in names and 'first' in names and cn['k'] == 'BinaryOperator' and cn.get('op') in ('>=', '<=', '>', '<', '&&'):
            cls = 'exit-overlap'
        if cls:
            leaves.append((cn, cls))
    terms = set()
    for cn, cls in sorted(leaves, key=lambda x: (x[0]['loc'][1], x[0]['loc'][2])):
        spec = quant.Spec(member=lambda n, cid=cn['id']: -1 if n['id'] == cid else 0,
                          reset=lambda n, lc=(loopcond or {}).get('id'): lc is not None and n.get('id') == lc)
        vals = quant.Quant(fi_, spec).values_at(stores)
        allv = set().union(*vals.values())
        if (True, True) in allv and (False, True) not in allv:
            if cls == 'same-source':
                terms.add(cls)
            else:
                terms.add('%s#%d' % (cls, 1 + sum(1 for t in terms if t.startswith(cls))))
    return terms, len(stores)


def fast_children(rep, fb, rule):
    fi2 = fb.fn('uscxml::FastMicroStep::init')
    sets = []
    for n in fi2.walk():
        if n['k'] in ('CXXOperatorCallExpr', 'BinaryOperator') and n.get('op') == '=' and any(m[0] == 'BIT_SET_AT' for m in (n.get('mac') or [])):
            names = [x['ref'].get('name') for x in sub(n) if x['k'] == 'MemberExpr']
            if 'children' in names:
                sets.append(n)
    if not sets:
        raise AnalysisBroken('FastMicroStep::init: the statement that sets the children bits was not found')
    for n in sets:
        in_walk = [a for a in fi2.ancestors(n) if a['k'] in ('WhileStmt', 'ForStmt', 'DoStmt') and any(
            x.get('callee', {}).get('q', '').endswith('getParentNode') for x in sub(a['c'][-1]))]
        # the outer loop over all states also contains getParentNode calls; the ancestor walk is the innermost loop whose *condition* tests the parent cursor
        walk = [a for a in in_walk if a['k'] == 'WhileStmt' and any(x['k'] == 'DeclRefExpr' and x['ref'].get('name') == 'parent' for x in sub(a['c'][0]))]
        rep.check(not walk, rule, 'FastMicroStep::init|children are direct children', locstr(n), 'the children bit is set %s' % (
            'for the direct parent only' if not walk else 'inside the walk up the ancestors (loop at %s): `children` then holds all descendants and the deep-completion test `completion & children` never fires' % locstr(walk[0])))


def run(rep, tier):
    rep.rule('R03.1', 'sibling agreement: for every skeleton fact computed for one engine the other engine has the same fact -- phase-protocol verdict and event alphabet, iteration directions per site, exact _flags relation (set of (flags, return, events, flags\') tuples), monitor-protocol verdict, containment status of every callback call, run-state members covered by reset(), serialization key set')
    rep.rule('R03.3', 'isInFinal treats pseudo-states as neutral: a history child of a parallel does not keep the parallel from being final')
    rep.rule('R03.4', 'both engines use all terms of the conflict definition: the fast engine\'s precomputed matrix (same source, source ancestry both ways, exit-set overlap both ways) and the large engine\'s lazily filled cache (source ancestry both ways, exit-set overlap both ways)')
    rep.rule('R03.8', 'the large engine\'s lazily filled conflict cache is used like the fast engine\'s matrix: per step the compatible set only narrows (intersection) and the conflicting set only grows (same rule as C01 R01.14)')
    rep.rule('R03.7', 'both engines compare the closed exit intervals with non-strict comparisons (overlap and membership tests)')
    rep.rule('R03.15', 'eventless is decided like the generated code decides it: by the type bit from the presence of the event attribute (same rule as C12 R12.9)')
    rep.rule('R03.11', 'done.state of a parallel is judged on a complete picture: the engines do not decide "all regions are final" from a configuration that the same loop is still extending')
    rep.rule('R03.10', 'every active state is asked for transitions in the large engine too: the selection loop skips entries of the post-fix view only relative to the state just handled (same rule as C01 R01.19)')
    rep.rule('R03.9', 'closures are complete in both engines: set-valued relations are used whole, ancestor passes do not re-seat their iterator at an insertion, deep completion adds the ancestors of every member (same rules as C02 R02.11 / R02.12); a closure that one engine cuts short is an engine difference')
    rep.rule('R03.6', 'the fast engine\'s children relation holds direct children only (as in the large engine and in the transpiler tables): the bit is not set while walking up the ancestors')
    rep.rule('R03.5', 'both engines compute the transition domain with the same (specified) quantifier shape: source only if internal, compound and all targets inside; else nearest compound ancestor containing all targets')
    rep.rule('R03.2', 'registration: the factory registers one instance of each engine class, their names are distinct ("large", "fast"), the default engine of InterpreterImpl::init is a registered class')
    rep.assume('equality of traces per input is not decided; agreement is established on structure')
    fb = facts.FactBase(facts.library_tus())
    ex = exc.ExcFlow(fb, infeasible=set(INFEASIBLE))
    rep.covered(tus=len(fb.tus), extracted=fb.extracted, functions=len(fb.funcs))
    sk = {e: _skel.Skeleton(fb, ex, e) for e in (L, F)}
    for cls, tag in (('uscxml::LargeMicroStep', 'LargeMicroStep'), ('uscxml::FastMicroStep', 'FastMicroStep')):
        ns, na = _domain.check(rep, 'R03.5', fb, [fb.fn(cls + '::getTransitionDomain')], tag)
        rep.minimum('R03.5', ns + na, 2, 'shortcut / acceptance sites of %s::getTransitionDomain' % tag)

    def both(name, fa, fb_, detail=lambda x: str(x)[:160]):
        rep.check(fa == fb_, 'R03.1', name, '%s / %s' % (sk[L].f.where(), sk[F].f.where()),
                  '%s: %s' % (name, 'identical in both engines (%s)' % detail(fa) if fa == fb_ else 'DIFFERS: large=%s fast=%s' % (detail(fa), detail(fb_))))

    # event alphabet and phase protocol verdict
    alpha = {e: sorted(set(sk[e].ev.values())) for e in sk}
    both('event alphabet', alpha[L], alpha[F])
    counts = {e: sorted((lab, sum(1 for v in sk[e].ev.values() if v == lab)) for lab in set(sk[e].ev.values())) for e in sk}
    both('event site counts', counts[L], counts[F])
    verdict = {}
    for e in sk:
        v, _, _ = sk[e].phase_protocol()
        verdict[e] = sorted((x['kind'], x.get('event'), x['state']) for x in v)
    both('phase protocol verdict', verdict[L], verdict[F])
    mon = {}
    for e in sk:
        dfa, acc = protocol_dfa()
        v, _ = path.check_dfa(sk[e].g, sk[e].ev, dfa, 'S0', acc)
        mon[e] = sorted((x['kind'], x.get('event'), x['state']) for x in v)
    both('monitor protocol verdict', mon[L], mon[F])
    # iteration directions
    od = {}
    for e in sk:
        o = sk[e].orders()
        od[e] = {k: [(d, norm_container(c)) for d, c in infos][:1] + sorted({d for d, c in infos[1:]}) for k, (infos, n) in o.items()}
    keys = sorted(set(od[L]) | set(od[F]))
    for k in keys:
        a, b = od[L].get(k), od[F].get(k)
        if k.endswith('@completion') and a and b:
            a, b = [x if isinstance(x, str) else x[0] for x in a], [x if isinstance(x, str) else x[0] for x in b]
        both('iteration order of ' + k, a, b)
    # flag relation
    rel = {}
    for e in sk:
        f = sk[e].f
        fi = path.FlagInterp(f, lambda n: strip(n) is not None and strip(n)['k'] == 'MemberExpr' and strip(n)['ref'].get('name') == '_flags')
        keep = {nid: lab for nid, lab in sk[e].ev.items() if lab.startswith(('M:', 'I:', 'C:'))}
        for n in f.walk():
            q = n.get('callee', {}).get('q', '')
            if q in ('uscxml::MicroStepCallbacks::dequeueInternal', 'uscxml::MicroStepCallbacks::dequeueExternal'):
                keep[n['id']] = 'X:' + q.split('::')[-1]

        def retlab(n):
            r = strip(n['c'][0]) if n.get('c') else None
            return r['ref']['name'] if r and 'ref' in r else '?'
        r, explored = fi.relation(sk[e].g, keep, range(64), ret_label=retlab)
        reach = {0}
        work = [0]
        while work:
            x = work.pop()
            for ret, out, evs in r[x]:
                if out not in reach:
                    reach.add(out)
                    work.append(out)
        rel[e] = {(i, ret, out, tuple(sorted(evs))) for i in reach for ret, out, evs in r[i]}
        rep.covered(**{sk[e].eng + '_relation_tuples': len(rel[e])})
    diff = rel[L] ^ rel[F]
    rep.check(not diff, 'R03.1', 'flag relation', '%s / %s' % (sk[L].f.where(), sk[F].f.where()),
              'exact (flags, return, events, flags\') relation: %d tuples in large, %d in fast, %d differing%s' % (len(rel[L]), len(rel[F]), len(diff),
              '' if not diff else '; e.g. %s only in %s' % ((flstr(sorted(diff)[0][0]),) + sorted(diff)[0][1:3], 'large' if sorted(diff)[0] in rel[L] else 'fast')))
    # containment
    cont = {}
    for e in sk:
        f = sk[e].f
        st = []
        for it in ex.items[f.m]:
            if it['kind'] != 'call':
                continue
            q = it['node']['callee']['q']
            if q.startswith('uscxml::MicroStepCallbacks::') and q.split('::')[-1] in CALLBACKS:
                handlers = [h.get('caught') or '...' for hl in it['stack'] for ct, h in hl]
                st.append((q.split('::')[-1], sorted(t.split('<')[0] for t in ex.escaping(f, it['node'])), tuple(ct for hl in it['stack'] for ct, h in hl)))
        cont[e] = sorted(st)
    both('callback containment', cont[L], cont[F], detail=lambda x: '%d call sites' % len(x))
    # reset coverage and serialization keys
    cov, keys_ = {}, {}
    for e in sk:
        cls = sk[e].cls
        rs = fb.fn(cls + '::reset')
        cov[e] = sorted(set(written_members(rs, cls)) - {'_configurationPostFix'})
        ser = fb.fn(cls + '::serialize')
        de = fb.fn(cls + '::deserialize')
        import re as _re
        NOISE = {'cause', 'file', 'line', 'xpath', 'caption'}
        def keyset(fn):
            # keys: literals that subscript a Data (operator[]) or are asked for with hasKey; values such as the engine's own name are not keys
            ks = set()
            for n_ in fn.walk():
                is_key_ctx = (n_['k'] == 'CXXOperatorCallExpr' and n_.get('op') == '[]') or (n_['k'] == 'CXXMemberCallExpr' and n_.get('callee', {}).get('q', '').endswith('Data::hasKey'))
                if not is_key_ctx:
                    continue
                args_ = n_['c'][2:] if n_['k'] == 'CXXOperatorCallExpr' else n_['c'][1:]
                for a_ in args_:
                    for s_ in sub(a_):
                        if s_['k'] == 'StringLiteral' and 'str' in s_ and _re.match(r'^[A-Za-z]+$', s_['str']) and s_['str'] not in NOISE:
                            ks.add(s_['str'])
            return sorted(ks)
        keys_[e] = (keyset(ser), keyset(de))
    both('members re-initialised by reset()', cov[L], cov[F])
    both('serialization keys (written, read)', tuple(k for k in keys_[L]), tuple(k for k in keys_[F]), detail=lambda x: str(x)[:200])

    # ---- R03.3
    in_final_rules(rep, fb, 'R03.3')
    # ---- R03.4 conflict definition: the fast engine's matrix uses the terms of Predicates.cpp::conflicts
    fi_ = fb.fn('uscxml::FastMicroStep::init')
    terms, n_stores = fast_conflict_terms(fb, fi_)
    want_terms = {'same-source', 'source-ancestry#1', 'source-ancestry#2', 'exit-overlap#1', 'exit-overlap#2'}
    rep.check(terms == want_terms, 'R03.4', 'FastMicroStep::init|conflict terms', fi_.where(), 'the conflict matrix marks a pair as conflicting for %s; Predicates.cpp::conflicts: same source, source ancestry both ways, exit sets intersect; missing: %s' % (sorted(terms), sorted(want_terms - terms)))

    # ---- R03.8 the large engine's selection bookkeeping (the fast engine has the complete matrix up front)
    from .C01 import narrowing_polarity
    narrowing_polarity(rep, fb, sk[L].f, 'LargeMicroStep', 'R03.8')
    # ---- R03.7 both engines treat exit intervals as closed
    for e in (L, F):
        cmps = sk[e].interval_comparisons()
        rep.minimum('R03.7', len(cmps), 2, 'comparisons on exit-interval endpoints in ' + sk[e].eng)
        strict = [(ff, n, op) for ff, n, op in cmps if op in ('<', '>')]
        for ff, n, op in strict:
            rep.fail('R03.7', '%s|%s|%s' % (sk[e].eng, ff.q.split('::')[-1], op), locstr(n), 'exit intervals are closed in the other engine and where they are applied; the strict %s here makes this engine miss conflicts of touching exit sets: %s' % (op, fb.text(n)[:80]))
        if not strict:
            rep.ok('R03.7', sk[e].eng, '%d endpoint comparisons, all non-strict' % len(cmps))
    # ---- R03.6 children relation of the fast engine
    fast_children(rep, fb, 'R03.6')
    # ---- R03.15 (shared with C12 R12.9)
    from .C12 import eventless_by_type_bit
    eventless_by_type_bit(rep, 'R03.15')
    # ---- R03.16 the fast engine's parallel-completion check: a final state stands for its parent only (the large engine asks isInFinal per region)
    rep.rule('R03.16', 'both engines raise done.state.<parallel> for the same configurations: in the fast engine\'s check an active final state clears its parent from the set of unfinished states, not all of its ancestors (the large engine asks each region whether one of ITS children is an active final)')
    from . import C04
    F16, site16 = C04.fast_engine_updates(fb)
    wide16 = [k_ for k_ in F16 if k_[0] in ('AND_NOT', 'XOR') and len(k_[1]) == 2 and k_[1][0] == 'tmp_states' and k_[1][1].endswith('.ancestors')]
    rep.check(not wide16, 'R03.16', 'FastMicroStep|a final child vouches for all its ancestors', site16.get(wide16[0]) if wide16 else 'src/uscxml/interpreter/FastMicroStep.cpp', 'in FastMicroStep::step an active final state %s' % (
        'clears its parent only' if not wide16 else 'clears ALL its ancestors from the unfinished set (%s): with P{A{a1,af}, B{B1{b11,b1f}, bf}} and af, b1f active the fast engine raises done.state.P, the large engine does not' % ', '.join('%s(%s)' % (k_[0], ', '.join(k_[1])) for k_ in wide16)))
    # ---- R03.12 .. R03.14
    audit_rules_c03(rep, fb)
    # ---- R03.11
    parallel_completion_on_partial_configuration(rep, fb, 'R03.11')
    # ---- R03.10 every active state is asked for transitions (shared with C01 R01.19; the fast engine walks a bitset by index)
    from .C01 import selection_cursor
    selection_cursor(rep, fb, 'R03.10')
    # ---- R03.9 closures are complete in both engines (shared with C02 R02.11 / R02.12)
    from .C02 import closure_loops, first_only
    from . import _skel as _sk
    first_only(rep, fb, 'R03.9')
    closure_loops(rep, fb, 'R03.9')
    for q in ('uscxml::LargeMicroStep::step', 'uscxml::FastMicroStep::step'):
        brk, n_ = _sk.completion_closure_breaks(fb.fn(q))
        for lp, b_ in brk:
            rep.fail('R03.9', '%s|deep completion stops at the first member' % q.split('::')[1], locstr(b_), 'the loop at %s adds the ancestors of the completion members but leaves at the first one; the other engine adds them for every member' % locstr(lp))
        if not brk:
            rep.ok('R03.9', q.split('::')[1] + '|deep completion', 'every completion member contributes its ancestors (%d loop(s))' % n_)
        for lp_, gd_ in _sk.completion_closure_wholesale_guard(fb.fn(q)):
            rep.fail('R03.9', '%s|deep completion switched as a whole' % q.split('::')[1], locstr(gd_), 'the loop at %s runs only if NO completion member is a direct child; the large engine decides per member' % locstr(lp_))

    lt, lsite = large_conflict_terms(fb)
    want_l = {'source-ancestry#1', 'source-ancestry#2', 'exit-overlap#1'}
    rep.check(lt == want_l, 'R03.4', 'LargeMicroStep::step|conflict terms', locstr(lsite), 'the large engine records a pair as conflicting for %s (same source is excluded by taking one transition per state); missing: %s' % (sorted(lt), sorted(want_l - lt)))

    # ---- R03.2
    reg = []
    for f in fb.funcs.values():
        if f.file.endswith('plugins/Factory.cpp'):
            for n in f.walk():
                if n['k'] == 'CXXNewExpr' and n.get('newt', '').endswith(('LargeMicroStep', 'FastMicroStep')):
                    reg.append(n['newt'].split('::')[-1])
    rep.check(sorted(reg) == ['FastMicroStep', 'LargeMicroStep'], 'R03.2', 'Factory registers both engines', 'src/uscxml/plugins/Factory.cpp', 'engine instances created in Factory.cpp: %s' % sorted(reg))
    names = {}
    for cls in ('uscxml::LargeMicroStep', 'uscxml::FastMicroStep'):
        gn = fb.fn(cls + '::getName')
        lits = [s['str'] for s in gn.walk() if s['k'] == 'StringLiteral' and 'str' in s]
        names[cls] = lits[0] if lits else None
    rep.check(names == {'uscxml::LargeMicroStep': 'large', 'uscxml::FastMicroStep': 'fast'}, 'R03.2', 'engine names', 'getName()', 'names: %s' % names)
    init = fb.fn('uscxml::InterpreterImpl::init')
    dflt = [n['newt'].split('::')[-1] for n in init.walk() if n['k'] == 'CXXNewExpr' and 'MicroStep' in n.get('newt', '')]
    rep.check(dflt == ['LargeMicroStep'], 'R03.2', 'default engine', init.where(), 'InterpreterImpl::init instantiates %s when no engine was configured' % dflt)
    pure = [m['name'] for m in fb.records['uscxml::MicroStepImpl']['methods'] if m.get('pure')]
    for cls in ('uscxml::LargeMicroStep', 'uscxml::FastMicroStep'):
        have = {m['name'] for m in fb.records[cls]['methods']}
        rep.check(set(pure) <= have, 'R03.2', cls.split('::')[-1] + ' implements MicroStepImpl', cls, 'pure virtuals %s all overridden' % sorted(pure))
