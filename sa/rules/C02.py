"""C02 - the active configuration is legal after every microstep: necessary structure (DESIGN 4/C02)."""
from .. import facts, exc, path, cfg as cfgm, tab, cg
from ..facts import AnalysisBroken, strip, sub, locstr
from . import _skel
from .C07 import INFEASIBLE
from .C10 import written_members

ENGINES = ('uscxml::LargeMicroStep::step', 'uscxml::FastMicroStep::step')
PSEUDO = ('USCXML_STATE_HISTORY_DEEP', 'USCXML_STATE_HISTORY_SHALLOW', 'USCXML_STATE_INITIAL')
ALLOWED_WRITERS = {'step', 'reset', 'deserialize', 'init'}


def macro_names(n):
    out = set()
    for s in sub(n):
        for m in (s.get('mac') or []):
            out.add(m[0])
    return out


# re-seatings that cannot lose a member: (function, walked set, inserted operand) -> reason (confirmed by reading)
RESEAT_OK = {
    ('uscxml::LargeMicroStep::step', '_entrySet', 'histChild'): 'deliberate skip inside the deep-history arm: everything between the deep history pseudo-state and the nested history child was just restored from the remembered configuration down to atomic states, so the skipped members need no completion; other members cannot lie in between in a document the validator accepts (a second target inside the same parent would make the configuration illegal)',
}


def closure_loops(rep, fb, rule='R02.12'):
    """no loop of step() re-seats the iterator it walks an ordered set with from the result of an insertion into that set"""
    f = fb.fn('uscxml::LargeMicroStep::step')
    n_loops = n_ins = 0
    for lp in f.walk():
        if lp['k'] not in ('ForStmt', 'WhileStmt'):
            continue
        init = lp['c'][0] if lp['k'] == 'ForStmt' else None
        it_lids = set()
        walked = None
        if init is not None and init['k'] == 'DeclStmt':
            for d in init.get('decls', []):
                if d.get('init') is not None and any(x.get('callee', {}).get('q', '').split('::')[-1] in ('begin', 'end', 'rbegin') for x in sub(d['init'])):
                    it_lids.add(d['lid'])
                    ms = [x['ref']['name'] for x in sub(d['init']) if x['k'] == 'MemberExpr' and x['ref'].get('dk') == 'Field']
                    walked = ms[0] if ms else None
        if not it_lids or walked is None:
            continue
        n_loops += 1
        body = lp['c'][-1]
        for n in sub(body):
            if n['k'] in ('BinaryOperator', 'CXXOperatorCallExpr') and n.get('op') == '=':
                l = strip(n['c'][0] if n['k'] == 'BinaryOperator' else n['c'][1])
                if l is None or l['k'] != 'DeclRefExpr' or l.get('ref', {}).get('lid') not in it_lids:
                    continue
                rhs = n['c'][1] if n['k'] == 'BinaryOperator' else n['c'][2]
                ins = [x for x in sub(rhs) if x['k'] == 'CXXMemberCallExpr' and x.get('callee', {}).get('q', '').endswith('::insert') and x['c'][0].get('c') and any(
                    y['k'] == 'MemberExpr' and y['ref'].get('dk') == 'Field' and y['ref'].get('name') == walked for y in sub(x['c'][0]['c'][0]))]
                if ins:
                    n_ins += 1
                    operand = ' '.join(fb.text(ins[0]['c'][1]).split()) if len(ins[0].get('c', [])) > 1 else ''
                    if (f.q, walked, operand) in RESEAT_OK:
                        rep.ok(rule, 'LargeMicroStep|%s|re-seated at %s' % (walked, operand), 'exempt: ' + RESEAT_OK[(f.q, walked, operand)])
                        continue
                    rep.fail(rule, 'LargeMicroStep|%s|iterator re-seated from insert' % walked, locstr(n),
                             'the loop walks %s and assigns its iterator from `%s`: the walk continues at the insertion point and the members between it and the old position are skipped (e.g. a second target whose own ancestors are then never added)' % (walked, ' '.join(fb.text(rhs).split())[:60]))
    rep.minimum(rule, n_loops, 3, 'iterator loops over ordered sets in LargeMicroStep::step')
    if not n_ins:
        rep.ok(rule, 'LargeMicroStep', '%d iterator loops over ordered sets; none re-seats its iterator from an insertion into the walked set' % n_loops)


def first_only(rep, fb, rule='R02.11'):
    SETS = ('completion', 'target', 'ancestors')
    n_uses = 0
    f = fb.fn('uscxml::LargeMicroStep::step')
    for n in f.walk():
        if n['k'] != 'CXXMemberCallExpr' or not n.get('c') or not n['c'][0].get('c'):
            continue
        m = n.get('callee', {}).get('q', '').split('::')[-1]
        if m not in ('begin', 'front', 'cbegin', 'rbegin', 'back'):
            continue
        obj = strip(n['c'][0]['c'][0])
        if obj is None or obj['k'] != 'MemberExpr' or obj.get('ref', {}).get('name') not in SETS:
            continue
        n_uses += 1
        bad = None
        if m in ('front', 'back'):
            bad = '%s() takes one element' % m
        else:
            # *x.begin()  /  (*x.begin())->...
            p = f.parent(n)
            while p is not None and p['k'] in facts.TRANSPARENT:
                p = f.parent(p)
            if p is not None and ((p['k'] == 'UnaryOperator' and p.get('op') == '*') or (p['k'] == 'CXXOperatorCallExpr' and p.get('op') in ('*', '->'))):
                # an iterator that is advanced in a loop is declared first; a direct dereference of begin() is a first-only use
                bad = 'begin() is dereferenced directly'
        rep.check(bad is None, rule, 'LargeMicroStep|%s.%s#%d' % (obj['ref']['name'], m, sum(1 for x in f.walk() if x['k'] == 'CXXMemberCallExpr' and x['loc'][1] < n['loc'][1] and x.get('callee', {}).get('q', '').endswith('::' + m))),
                  locstr(n), 'use of the set `%s` through %s(): %s' % (fb.text(obj)[:40], m, 'whole-range use' if bad is None else bad + ': only the first of possibly several states is considered'))
    rep.minimum(rule, n_uses, 6, 'begin()/front() uses of completion / target / ancestors in LargeMicroStep::step')


_CG = {}


def callgraph_of(fb):
    if id(fb) not in _CG:
        from .. import cg
        _CG[id(fb)] = cg.CallGraph(fb)
    return _CG[id(fb)]


def comparator_keys(rep, fb, rule='R02.9'):
    import re
    cls = 'uscxml::LargeMicroStep'
    rec = fb.records.get(cls)
    if not rec:
        raise AnalysisBroken('record %s not found' % cls)
    used = {}
    for r in (cls, cls + '::State', cls + '::Transition'):
        for fld in fb.records.get(r, {}).get('fields', []):
            m = re.search(r'flat_set<(State|Transition) \*, (\w+)>', fld.get('t') or '')
            if m:
                used.setdefault(m.group(2), []).append('%s::%s' % (r.split('::')[-1], fld['name']))
    if len(used) < 3:
        raise AnalysisBroken('ordered sets of the large engine: only %d comparators found' % len(used))
    # fields that are shared by several elements: assigned a constant somewhere
    shared = {}
    for f in fb.funcs.values():
        if f.rec != cls:
            continue
        for n in f.walk():
            if n['k'] == 'BinaryOperator' and n.get('op') == '=':
                l = strip(n['c'][0])
                if l and l['k'] == 'MemberExpr' and l.get('ref', {}).get('rec', '').startswith(cls + '::'):
                    r = strip(n['c'][1])
                    const = r is not None and (r['k'] == 'IntegerLiteral' or 'cval' in r or any(
                        x.get('callee', {}).get('q', '').startswith('std::numeric_limits') for x in sub(r)))
                    if const:
                        shared.setdefault((l['ref']['rec'], l['ref']['name']), []).append(n)
    for cmp_name, where in sorted(used.items()):
        op = fb.fn('%s::%s::operator()' % (cls, cmp_name))
        keys = []
        for n in op.walk():
            if n['k'] == 'BinaryOperator' and n.get('op') in ('<', '>'):
                names = {x['ref']['name'] for x in sub(n) if x['k'] == 'MemberExpr'}
                recs = {x['ref'].get('rec') for x in sub(n) if x['k'] == 'MemberExpr'}
                if len(names) == 1:
                    keys.append((list(recs)[0], list(names)[0]))
        if not keys:
            raise AnalysisBroken('%s::operator(): no key comparison found' % cmp_name)
        unique = [k for k in keys if k not in shared]
        rep.check(bool(unique), rule, 'LargeMicroStep|%s' % cmp_name, op.where(),
                  '%s (used by %s) orders by %s; %s' % (cmp_name, ', '.join(where[:4]), [k[1] for k in keys],
                                                      'key(s) unique per element: %s' % [k[1] for k in unique] if unique else
                                                      'every key is shared: %s is assigned the same constant for several elements at %s -- the set keeps only one of them' % (
                                                          keys[0][1], ', '.join(locstr(x) for x in shared[keys[0]][:2]))))
    rep.minimum(rule, len(used), 3, 'comparators of ordered state/transition sets')


def run(rep, tier):
    rep.rule('R02.1', 'who may write the configuration: only the exit phase (remove) and enter phase (add) of step(), reset(), deserialize() (and init() sizing it)')
    rep.rule('R02.2', 'paired update (large engine): every insert/erase/clear on _configuration is mirrored on _configurationPostFix with the same operand in the same function, in the same order')
    rep.rule('R02.3', 'pseudo-states never become active: within one iteration of the enter loop, the configuration insert is unreachable from the true edge of any of the HISTORY_DEEP / HISTORY_SHALLOW / INITIAL kind tests')
    rep.rule('R02.4', 'only active states are exited: what enters the exit set derives from iterating the configuration (large) or the exit set is intersected with the configuration before it is used (fast)')
    rep.rule('R02.5', 'the root is never exited: exit intervals are applied only under the emptiness test (same instances as C01 R01.5)')
    rep.rule('R02.6', 'completion dispatch is exhaustive: the switch over the state kind in descendant completion has an arm for every kind code the engine assigns to a state')
    rep.rule('R02.8', 'pre-emption agrees with the exit sets: overlap tests on the closed exit intervals use non-strict comparisons')
    rep.rule('R02.7', 'history only names simultaneously active states: the history update is conditioned on membership in the configuration and precedes every configuration erase of the step (phase protocol)')
    rep.rule('R02.9', 'ordered views keep every member: the comparator of each ordered set of states / transitions orders by at least one key that is unique per element (a key that several elements share, e.g. "no transitions = largest value", makes the set treat them as one member: inserts are dropped, erase removes the wrong state)')
    rep.rule('R02.10', 'exit sets follow the transition domain: the engines\' getTransitionDomain has the specified quantifier shape (same rule as C01 R01.11)')
    rep.rule('R02.11', 'set-valued relations are used as sets: inside step() the completion / target / ancestor sets of a state or transition are only used whole (range-for, begin()..end() pair, whole-container copy), never through their first element alone')
    rep.rule('R02.12', 'closure loops visit every member: no loop of step() that walks an ordered set with an iterator assigns that iterator from the result of an insertion into the same set (the walk would continue at the insertion point and skip the members in between); closures are computed while walking a copy or by forward walks with plain increments')
    rep.rule('R02.18', 'what the entry-set closure adds is itself completed: the pass over the entry set restarts (or is otherwise a fix-point) when it adds a state that precedes the one being handled')
    rep.rule('R02.17', 'a history restores what was recorded for IT: the remembered value of a history is kept per history (or the completions of distinct histories are disjoint); with one shared set a nested history\'s record is taken for the enclosing deep history\'s value (same rule as C01 R01.12)')
    rep.rule('R02.16', 'remembered history is a snapshot: when a history\'s parent is exited, every member of the history\'s completion is either recorded (active) or forgotten (not active); no path through one iteration of that loop leaves the old record of the member in place')
    rep.rule('R02.15', 'reset() (and with it deserialize(), which resets and then only inserts) re-initialises the configuration views and the remembered history: a history that survives is merged with the restored one and names states that were never active together (same rule as C10 R10.3)')
    rep.rule('R02.13', 'deep completion sees direct children: the fast engine\'s children relation is set for the direct parent only (same rule as C03 R03.6; with all descendants in it the test "completion has no child of this state" never fires and ancestors of deep initial targets are not entered)')
    rep.rule('R02.14', 'a compound state keeps an active child: a history pseudo-state takes its default transition exactly when nothing is remembered (same rule as C01 R01.16)')
    rep.assume('legality for every chart and history needs the values of the entry set: not decided')
    fb = facts.FactBase(facts.library_tus())
    ex = exc.ExcFlow(fb, infeasible=set(INFEASIBLE))
    rep.covered(tus=len(fb.tus), extracted=fb.extracted, functions=len(fb.funcs))
    comparator_keys(rep, fb)
    from ..report import Renamed
    from . import C03
    C03.audit_rules_c03(Renamed(rep, {'R03.12': 'R02.19'}), fb)
    from . import _domain
    for cls, tag in (('uscxml::LargeMicroStep', 'LargeMicroStep'), ('uscxml::FastMicroStep', 'FastMicroStep')):
        _domain.check(rep, 'R02.10', fb, [fb.fn(cls + '::getTransitionDomain')], tag)
    first_only(rep, fb)
    closure_loops(rep, fb)
    nl = 0
    for q in ENGINES:
        brk, n = _skel.completion_closure_breaks(fb.fn(q))
        nl += n
        eng = q.split('::')[1]
        for lp, b in brk:
            rep.fail('R02.11', '%s|deep completion stops at the first member' % eng, locstr(b), 'the loop at %s adds the ancestors of the completion members but leaves at the first one: with an `initial` attribute naming states in several regions the other targets are entered without their parents' % locstr(lp))
        if not brk:
            rep.ok('R02.11', eng + '|deep completion', 'every completion member contributes its ancestors (%d loop(s))' % n)
    rep.minimum('R02.11', nl, 2, 'loops adding the ancestors of completion members in the engines')
    for q in ENGINES:
        for lp_, gd_ in _skel.completion_closure_wholesale_guard(fb.fn(q)):
            rep.fail('R02.11', '%s|deep completion switched as a whole' % q.split('::')[1], locstr(gd_), 'the loop at %s adds the ancestors of deep completion members only if NO member is a direct child: initial="C a" (a child and a deeper descendant) enters a without its parents, and C takes its default child as well' % locstr(lp_))
    # R02.18: the entry-set closure resolves what it adds
    for q in ENGINES:
        fq = fb.fn(q)
        # the loop that establishes the entry set: it ORs / inserts transition targets into the entry set
        cand = []
        for lp in fq.walk():
            if lp['k'] not in ('ForStmt', 'WhileStmt', 'CXXForRangeStmt'):
                continue
            if any(a_['k'] in ('ForStmt', 'WhileStmt', 'CXXForRangeStmt', 'DoStmt') for a_ in fq.ancestors(lp)):
                continue
            body = lp['c'][-1]
            if body is None:
                continue
            adds = [n for n in sub(body) if ((n['k'] in ('CXXOperatorCallExpr', 'CompoundAssignOperator') and n.get('op') == '|=') or (n['k'] == 'CXXMemberCallExpr' and n.get('callee', {}).get('q', '').split('::')[-1] == 'insert')) and
                    any(x['k'] == 'MemberExpr' and x['ref'].get('name') == '_entrySet' for x in sub(n)) and any(x['k'] == 'MemberExpr' and x['ref'].get('name') == 'target' for x in sub(n))]
            if adds:
                cand.append((lp, adds))
        if not cand:
            raise AnalysisBroken('%s: the loop that establishes the entry set was not found' % q)
        lp, adds = cand[0]
        # a fix-point needs a restart: the loop variable is set back, or an outer `changed` loop exists, or a work list is used
        restart = any(n['k'] in ('BinaryOperator', 'CXXOperatorCallExpr') and n.get('op') == '=' and any(m[0] in ('find_first',) for m in (n.get('mac') or [])) for n in sub(lp['c'][-1])) or any(
            x['k'] == 'GotoStmt' for x in sub(lp['c'][-1]) if x.get('label', '').startswith('ESTABLISH')) or any(
            x['k'] == 'CXXMemberCallExpr' and x.get('callee', {}).get('q', '').split('::')[-1] == 'find_first' for x in sub(lp['c'][-1]) if any(
                y['k'] == 'MemberExpr' and y['ref'].get('name') == '_entrySet' for y in sub(x)))
        rep.check(restart, 'R02.18', '%s|entry-set closure' % q.split('::')[1], locstr(lp), 'the closure of the entry set is %s' % ('a fix-point' if restart else
                  'ONE forward pass in document order: a state added with a smaller index than the one being handled (a history whose default transition targets a history that is sorted before it) is never resolved - the compound state is entered without a child'))
    # R02.17: a history's value is its own (same rule as C01 R01.12, seen from the configuration)
    from .C05 import history_features
    for q in ENGINES:
        fq = fb.fn(q)
        hf = history_features(fb, fb.fn(fq.rec + '::getHistoryCompletion'))
        store_types = {(n.get('t') or '')[:60] for n in fq.walk() if n['k'] == 'MemberExpr' and n.get('ref', {}).get('name') == '_history'}
        shared = bool(store_types) and not any('map<' in t for t in store_types)
        overlap = any('isDescendant' in x for x in hf['deep']) and not hf['exclusion_live']
        rep.check(not (shared and overlap), 'R02.17', '%s|history value is per history' % q.split('::')[1], hf['site'], 'the value of a history is read as `completion & _history` from %s: %s' % (
            'ONE set of states shared by all histories' if shared else 'a record per history',
            'the record of a shallow history nested below a deep history counts as the deep history\'s value although its parent was never exited - a transition to the deep history then enters the nested record and leaves the configuration illegal' if shared and overlap else 'records are independent'))
    # R02.16: a history's record is rewritten completely when its parent is exited
    hl = _skel.history_rewrite_total(fb, fb.fn('uscxml::LargeMicroStep::step'))
    rep.minimum('R02.16', len(hl), 1, 'member-wise history rewrite loops in LargeMicroStep::step')
    for lp_, w_ in hl:
        rep.check(w_ is None, 'R02.16', 'LargeMicroStep|history rewrite decides every member', locstr(lp_), 'one iteration of the loop over a history\'s completion %s' % (
            'always inserts or erases the member' if w_ is None else 'can SKIP the member (neither insert nor erase): a state remembered from an earlier exit survives although it was not active this time, and the history names states that were never active together'))
    # R02.15: what the entry set is computed from starts empty after reset() (deserialize() resets, then only inserts)
    from .C10 import reset_coverage
    reset_coverage(rep, fb, 'R02.15', only={'_configuration', '_configurationPostFix', '_history', '_invocations', '_initializedData'})
    # R02.13 / R02.14: defects of relations and conditions that show as an illegal configuration (shared rules)
    from .C03 import fast_children
    fast_children(rep, fb, 'R02.13')
    for q in ENGINES:
        hn, hd = _skel.history_default_condition(fb.fn(q))
        if hn is None:
            raise AnalysisBroken('%s: the test that selects a history state\'s default transition was not found' % q)
        rep.check(hd == ['nothing remembered'], 'R02.14', q.split('::')[1] + '|history default', locstr(hn), 'a history state takes its default transition under: %s%s' % (
            ' and '.join(sorted(hd)), '' if hd == ['nothing remembered'] else ' -- a transition into the history of an active parent then enters nothing and leaves a compound state without an active child'))
    for eq in ENGINES:
        sk = _skel.Skeleton(fb, ex, eq)
        f, g, eng, cls = sk.f, sk.g, sk.eng, sk.cls
        # R02.1
        writers = sk.config_writers()
        rep.minimum('R02.1', len(writers), 3, 'functions writing the configuration in ' + eng)
        cgr = callgraph_of(fb)
        for w, hit in sorted(writers.items()):
            ok_w = w in ALLOWED_WRITERS
            via = ''
            if not ok_w:
                # a helper extracted from an allowed writer: non-virtual and called from nowhere else than allowed writers of this class
                wf = [x for x in fb.funcs.values() if x.rec == cls and x.q.split('::')[-1] == w]
                if wf and not wf[0].d.get('virtual') and not wf[0].d.get('overrides'):
                    callers = {fb.funcs[m].q for m in cgr.callers.get(wf[0].m, ())}
                    if callers and all(c.startswith(cls + '::') and c.split('::')[-1] in ALLOWED_WRITERS for c in callers):
                        ok_w = True
                        via = ' (helper called only from %s)' % sorted(c.split('::')[-1] for c in callers)
            rep.check(ok_w, 'R02.1', '%s|%s' % (eng, w), locstr(list(hit.values())[0]), '%s::%s writes %s%s' % (eng, w, sorted(hit), via))
        # inside step(): every configuration write is a classified CFG:insert / CFG:erase event (enter / exit phase)
        cfg_events = {nid for nid, lab in sk.ev.items() if lab.startswith('CFG:')}
        rep.minimum('R02.1', len(cfg_events), 2, 'configuration updates in step() of ' + eng)
        # R02.2
        if eng == 'LargeMicroStep':
            for ff in fb.funcs.values():
                if ff.rec != cls:
                    continue
                ops = {'_configuration': [], '_configurationPostFix': []}
                for n in ff.walk():
                    if n['k'] == 'CXXMemberCallExpr' and n.get('c') and n['c'][0].get('c'):
                        base = strip(n['c'][0]['c'][0])
                        if base['k'] == 'MemberExpr' and base['ref'].get('name') in ops:
                            m = n['callee']['q'].split('::')[-1]
                            if m in ('insert', 'erase', 'clear'):
                                ops[base['ref']['name']].append((m, ' '.join(fb.text(a).split()) if False else ''.join(fb.text(x) for x in n['c'][1:]).strip(), n))
                a = [(m, t) for m, t, n in ops['_configuration']]
                b = [(m, t) for m, t, n in ops['_configurationPostFix']]
                if a or b:
                    rep.check(a == b, 'R02.2', '%s|%s' % (eng, ff.q.split('::')[-1]), ff.where(), 'updates of _configuration %s vs _configurationPostFix %s' % (a, b))
        # R02.3
        inserts = [nid for nid, lab in sk.ev.items() if lab == 'CFG:insert']
        if len(inserts) < 1:
            raise AnalysisBroken('%s: configuration insert not found' % eng)
        ins = f.nodes[inserts[0]]
        loop = None
        for a in f.ancestors(ins):
            if a['k'] in ('ForStmt', 'WhileStmt', 'CXXForRangeStmt'):
                loop = a
        if loop is None:
            raise AnalysisBroken('%s: enter loop not found' % eng)
        body_ids = {s['id'] for s in sub(loop['c'][-1]) if 'id' in s}
        header_ids = {s['id'] for s in sub(loop) if 'id' in s and s['id'] in g.pos} - body_ids
        def unwrap(n):
            n = strip(n)
            while True:
                if n['k'] == 'CallExpr' and n.get('callee', {}).get('q') == '__builtin_expect':
                    n = strip(n['c'][1])
                elif n['k'] == 'UnaryOperator' and n.get('op') == '!' and strip(n['c'][0])['k'] == 'UnaryOperator' and strip(n['c'][0]).get('op') == '!':
                    n = strip(strip(n['c'][0])['c'][0])
                else:
                    return n

        def disjuncts(n):
            n = unwrap(n)
            if n['k'] == 'BinaryOperator' and n.get('op') == '||':
                return disjuncts(n['c'][0]) + disjuncts(n['c'][1])
            return [n]
        tests = {}
        for bid, b in g.blocks.items():
            cnd = b.get('cond')
            if cnd is None or cnd not in f.nodes or cnd not in body_ids or b.get('termk') != 'IfStmt':
                continue
            for d in disjuncts(f.nodes[cnd]):
                if d['k'] == 'BinaryOperator' and d.get('op') == '==':
                    for code in PSEUDO:
                        if code in macro_names(d):
                            tests.setdefault(code, []).append(bid)
        for code in PSEUDO:
            if code not in tests:
                rep.fail('R02.3', '%s|%s' % (eng, code), locstr(ins), 'no test of kind %s guards the configuration insert in the enter loop' % code)
                continue
            ok = True
            for bid in tests[code]:
                ts = [s for s, lab in g.succ_labeled(bid) if lab is True]
                for t0 in ts:
                    if g.can_reach((t0, -1), [ins['id']], avoid=header_ids) is not None:
                        ok = False
            # and at least one such test lies on the path to the insert
            on_path = any(g.can_reach((bid, -1), [ins['id']], avoid=header_ids) is not None for bid in tests[code])
            rep.check(ok and on_path, 'R02.3', '%s|%s' % (eng, code), locstr(ins), 'a state of kind %s %s reach the configuration insert within one iteration of the enter loop' % (code.replace('USCXML_STATE_', ''), 'cannot' if ok and on_path else 'CAN'))
        # R02.4
        if eng == 'LargeMicroStep':
            exin = [n for n in f.walk() if n['k'] == 'CXXMemberCallExpr' and n['callee']['q'].split('::')[-1] == 'insert' and n.get('c') and n['c'][0].get('c') and strip(n['c'][0]['c'][0])['k'] == 'MemberExpr' and strip(n['c'][0]['c'][0])['ref'].get('name') == '_exitSet']
            rep.minimum('R02.4', len(exin), 1, 'insertions into _exitSet')
            for n in exin:
                org = path.origin_members(f, n['c'][1], sk.defs)
                rep.check('_configuration' in org, 'R02.4', eng + '|exit set from configuration', locstr(n), 'what is put into the exit set derives from %s' % sorted(org))
        else:
            inter = [n for n in f.walk() if n['k'] == 'CXXOperatorCallExpr' and n.get('op') == '&=' and len(n['c']) > 2 and any(s.get('ref', {}).get('name') == '_exitSet' for s in sub(n['c'][1])) and any(s.get('ref', {}).get('name') == '_configuration' for s in sub(n['c'][2]))]
            erase = [nid for nid, lab in sk.ev.items() if lab == 'CFG:erase']
            okf = bool(inter) and bool(erase) and g.dominates(inter[0]['id'], erase[0])
            orders = sk.orders()
            filt = orders.get('CFG:erase', ([('', '')], None))[0][0][1] or ''
            rep.check(okf or '_configuration' in filt, 'R02.4', eng + '|exit set from configuration', locstr(inter[0]) if inter else f.where(), '_exitSet &= _configuration dominates the exit loop: %s; exit loop filter: %s' % (okf, filt))
        # R02.5
        for n, gd in sk.exit_interval_guards():
            rep.check(gd, 'R02.5', eng + '|exit interval application', locstr(n), 'exit interval applied under the emptiness test: %s' % gd)
        # R02.8 (shared with C01 R01.8): two transitions whose exit sets intersect are never taken together
        cmps = sk.interval_comparisons()
        strict = [(ff, n, op) for ff, n, op in cmps if op in ('<', '>')]
        for ff, n, op in strict:
            rep.fail('R02.8', '%s|%s|%s' % (eng, ff.q.split('::')[-1], op), locstr(n), 'exit intervals are closed; the strict %s in this overlap test lets two transitions with touching exit sets fire together (two active children in one compound): %s' % (op, fb.text(n)[:80]))
        if not strict:
            rep.ok('R02.8', eng, '%d endpoint comparisons, all non-strict' % len(cmps))
        # R02.6
        assigned = set()
        for ff in fb.funcs.values():
            if ff.rec != cls or ff.q.split('::')[-1] != 'init':
                continue
            for n in ff.walk():
                if n['k'] in ('BinaryOperator', 'CompoundAssignOperator') and n.get('op') in ('=', '|=') and any(s['k'] == 'MemberExpr' and s['ref'].get('name') == 'type' and 'State' in s['ref'].get('rec', '') for s in sub(n['c'][0])):
                    assigned |= {m for m in macro_names(n['c'][1]) if m in _skel.KIND_CODES}
        rep.minimum('R02.6', len(assigned), 6, 'state kind codes assigned in %s::init' % eng)
        best = None
        for n in f.walk():
            if n['k'] == 'SwitchStmt':
                arms = tab.switch_arms(n)
                labels = set()
                for a in arms:
                    labels |= {m for m in macro_names(a['node']['c'][0]) if m in _skel.KIND_CODES} if a['node']['k'] == 'CaseStmt' else set()
                    x = a['node']
                    while x['k'] == 'CaseStmt' and x.get('c') and x['c'][-1]['k'] == 'CaseStmt':
                        x = x['c'][-1]
                        labels |= {m for m in macro_names(x['c'][0]) if m in _skel.KIND_CODES}
                if best is None or len(labels) > len(best[1]):
                    best = (n, labels, any(a['default'] for a in arms))
        if best is None:
            raise AnalysisBroken('%s: completion switch not found' % eng)
        missing = assigned - best[1]
        rep.check(not missing or best[2], 'R02.6', eng + '|completion switch', locstr(best[0]), 'kinds assigned in init: %s; arms: %s; missing: %s' % (sorted(x[13:] for x in assigned), sorted(x[13:] for x in best[1]), sorted(missing)))
        # R02.7
        hist = [f.nodes[nid] for nid, lab in sk.ev.items() if lab == 'H']
        rep.minimum('R02.7', len(hist), 1, 'history updates in ' + eng)
        cond_ok = True
        for h in hist:
            mentions = any(a['k'] == 'IfStmt' and any(s.get('ref', {}).get('name') == '_configuration' for s in sub(a['c'][0])) for a in f.ancestors(h)) or any(
                s.get('ref', {}).get('name') == '_configuration' for s in sub(h))
            if not mentions:
                # bitset form:  tmp = completion; tmp &= _configuration; _history |= tmp   (the intersection dominates the update)
                operands = {s['ref']['name'] for s in sub(h) if s['k'] == 'MemberExpr' and s['ref'].get('dk') == 'Field'} - {'_history'}
                inter = [x for x in f.walk() if x['k'] == 'CXXOperatorCallExpr' and x.get('op') == '&=' and len(x['c']) > 2 and any(
                    s.get('ref', {}).get('name') in operands for s in sub(x['c'][1])) and any(s.get('ref', {}).get('name') == '_configuration' for s in sub(x['c'][2]))]
                mentions = any(g.dominates(x['id'], h['id']) for x in inter) or all(m in ('completion', '_states') for m in operands)
            cond_ok = cond_ok and mentions
        # what is remembered / forgotten ranges over the history's own completion (all of it, and nothing else)
        for h in hist:
            operand = h['c'][1] if h['k'] == 'CXXMemberCallExpr' and len(h.get('c', [])) > 1 else (h['c'][-1] if h.get('c') else h)
            org = path.origin_members(f, operand, sk.defs)
            ok_org = 'completion' in org
            if not ok_org:
                # scratch member filled from the completion earlier in the same block:  _tmpStates = X.completion; ... &= _configuration
                for m_ in sorted(org):
                    for x in f.walk():
                        if x['k'] in ('CXXOperatorCallExpr', 'BinaryOperator') and x.get('op') == '=' and x['loc'][1] < h['loc'][1] and h['loc'][1] - x['loc'][1] < 15:
                            lhs = x['c'][1] if x['k'] == 'CXXOperatorCallExpr' else x['c'][0]
                            rhs = x['c'][2] if x['k'] == 'CXXOperatorCallExpr' and len(x['c']) > 2 else x['c'][-1]
                            if strip(lhs)['k'] == 'MemberExpr' and strip(lhs)['ref'].get('name') == m_ and 'completion' in path.origin_members(f, rhs, sk.defs) and g.dominates(x['id'], h['id']):
                                ok_org = True
                                org = org | {'completion (via %s)' % m_}
            rep.check(ok_org, 'R02.7', '%s|history operand#%d' % (eng, hist.index(h)), locstr(h), 'the states added to / removed from the remembered history derive from %s (must be the history state\'s completion)' % sorted(org))
        viol, _, _ = sk.phase_protocol()
        before = not any(v.get('event') == 'H' for v in viol)
        rep.check(cond_ok and before, 'R02.7', eng + '|history', locstr(hist[0]), 'history update conditioned on the configuration: %s; recorded before any state is removed: %s' % (cond_ok, before))
