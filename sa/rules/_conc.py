"""shared set-up for the concurrency properties C09/C10/C11: whole-program facts, call graph, lock sets, lock order"""
from .. import facts, cg, lock


class Conc:
    def __init__(self):
        self.fb = facts.FactBase(facts.library_tus())
        self.cg = cg.CallGraph(self.fb)
        self.la = lock.LockAnalysis(self.fb, self.cg)
        self.lo = lock.LockOrder(self.fb, self.cg, self.la)
        self.all_cycles = self.lo.cycles()

    def minimal_cycles(self):
        """elementary cycles that do not contain the node set of a smaller cycle"""
        cyc = sorted(self.all_cycles, key=len)
        out = []
        for c in cyc:
            if any(set(o) < set(c) for o in out):
                continue
            out.append(c)
        return out

    def witnesses(self, cycle):
        w = []
        for i, a in enumerate(cycle):
            b = cycle[(i + 1) % len(cycle)]
            ws = self.lo.edges.get((a, b), [])
            w.append('%s -> %s: %s' % (a, b, ws[0] if ws else '?'))
        return w


def report_cycles(rep, conc, rule, anchored, what):
    """report minimal lock-order cycles that contain a node satisfying `anchored`; others are listed as out of scope"""
    mine, other = [], []
    for c in conc.minimal_cycles():
        (mine if any(anchored(n) for n in c) else other).append(c)
    for c in mine:
        rep.fail(rule, ' > '.join(c), conc.witnesses(c)[0].split(' at ')[-1].split(' ')[0] if conc.witnesses(c) else '?',
                 'lock-order cycle (%s): a schedule that closes it dead-locks' % what, path=conc.witnesses(c))
    return mine, other
