"""C19 - validation verdicts: vocabulary and expression-context agreement between validator and executor, severity of
issues that make execution dereference missing states, robustness of the validator (DESIGN 4/C19)."""
import re
from .. import facts, path, cfg as cfgm, tab
from ..facts import AnalysisBroken, strip, sub, locstr

TUS = ['src/uscxml/debug/InterpreterIssue.cpp', 'src/uscxml/interpreter/BasicContentExecutor.cpp', 'src/uscxml/interpreter/InterpreterImpl.cpp',
       'src/uscxml/plugins/datamodel/lua/LuaDataModel.cpp', 'src/uscxml/plugins/datamodel/promela/PromelaDataModel.cpp',
       'src/uscxml/plugins/datamodel/null/NullDataModel.cpp', 'src/uscxml/interpreter/LargeMicroStep.cpp', 'src/uscxml/interpreter/FastMicroStep.cpp']

EXPRESSION_ATTRS = {'kXMLCharCond': 'cond', 'kXMLCharExpr': 'expr', 'kXMLCharArray': 'array'}
LOCATION_ATTRS = {'kXMLCharItem': 'item', 'kXMLCharIndex': 'index', 'kXMLCharLocation': 'location'}
PARSER_SINKS = ('luaL_loadstring', 'uscxml::luaEval', 'uscxml::PromelaParser::PromelaParser')

# issues whose condition makes the engines or transpilers dereference a missing state or fail at init for structural
# reasons: must be FATAL
MUST_BE_FATAL = ['non-existant target state', 'invalid target state', 'has no default transition', 'Duplicate state', "has no 'id' attribute",
                 'Target states cause illegal configuration', 'references non-child state', 'unknown datamodel']


def string_prefix(fb, f, arg, param_lid):
    """literal text concatenated in front of the parameter inside a sink argument (None if the parameter is not in it)"""
    lits = []
    seen_param = False
    for s in sub(arg):
        if s['k'] == 'StringLiteral' and 'str' in s and not seen_param:
            lits.append(s['str'])
        if s['k'] == 'DeclRefExpr' and s.get('ref', {}).get('lid') == param_lid:
            seen_param = True
    if not seen_param:
        return None
    return ''.join(lits)


def context_of_method(fb, f, depth=0):
    """'expression' | 'statement' | 'location' | None: in which syntactic context a data-model method hands its
    string parameter to the language's parser"""
    if f is None or depth > 3 or not f.d.get('params'):
        return None
    p0 = f.d['params'][0]['lid']
    defs = path.local_defs(f)
    # locals derived from the parameter (trim_copy etc.) count as the parameter
    alias = {p0}
    changed = True
    while changed:
        changed = False
        for lid, inits in defs.items():
            if lid in alias:
                continue
            for i in inits:
                names = {s['ref'].get('lid') for s in sub(i) if s['k'] == 'DeclRefExpr'}
                lits = [s for s in sub(i) if s['k'] == 'StringLiteral']
                if names & alias and not lits:
                    alias.add(lid)
                    changed = True
    for n in f.walk():
        q = n.get('callee', {}).get('q', '')
        if not q:
            continue
        is_sink = q in PARSER_SINKS
        same_class_method = n['k'] == 'CXXMemberCallExpr' and any(t.rec == f.rec and t is not f for t in fb.targets(n))
        if not (is_sink or same_class_method):
            continue
        args = n.get('c', [])[1:] if n['k'] != 'CXXConstructExpr' else n.get('c', [])
        for a in args:
            for pl in alias:
                pre = string_prefix(fb, f, a, pl)
                if pre is None:
                    continue
                pre_s = pre.strip()
                if pre_s.endswith('(') or pre_s.endswith('=') or pre_s.endswith('return'):
                    return 'expression'
                suffix_lits = [s['str'] for s in sub(a) if s['k'] == 'StringLiteral' and 'str' in s]
                if any(x.strip().startswith('=') for x in suffix_lits):
                    return 'location'
                if is_sink:
                    return 'statement'
                for t in fb.targets(n):
                    if t.rec == f.rec and t is not f:
                        c = context_of_method(fb, t, depth + 1)
                        if c:
                            return c
    return None


def run(rep, tier):
    rep.rule('R19.1', 'vocabulary agreement: every executable-content element the validator accepts is dispatched by BasicContentExecutor::process; the state-like element sets of validator and engines agree')
    rep.rule('R19.2', 'expression-context agreement: attributes the executor evaluates as expressions (cond, expr, array) are syntax-checked in expression context in every in-tree data model whose parser distinguishes statements from expressions; item/index/location are checked as assignment targets')
    rep.rule('R19.3', 'severity table: issues whose condition makes execution dereference a missing state or fail structurally at initialisation are raised as FATAL')
    rep.rule('R19.4', 'validator robustness: front()/back() on lists obtained from the DOM are guarded by a size/emptiness test in InterpreterIssue.cpp')
    rep.assume('soundness/completeness of the verdict for all documents is not decided')
    fb = facts.FactBase(TUS)
    rep.covered(tus=len(TUS), extracted=fb.extracted, functions=len(fb.funcs))
    val = fb.fn('uscxml::InterpreterIssue::forInterpreter')

    # ---- R19.1
    exec_set = set()
    for n in val.walk():
        if n['k'] == 'CXXMemberCallExpr' and n['callee']['q'].split('::')[-1] == 'insert' and n.get('c') and n['c'][0].get('c'):
            b = strip(n['c'][0]['c'][0])
            if b['k'] == 'DeclRefExpr' and b['ref'].get('name') == 'execContentSet':
                exec_set |= {s['str'] for s in sub(n['c'][1]) if s['k'] == 'StringLiteral' and 'str' in s}
    rep.minimum('R19.1', len(exec_set), 8, 'executable content names in the validator')
    dispatched = set()
    for q in ('uscxml::BasicContentExecutor::process', 'uscxml::BasicContentExecutor::processIf'):
        f = fb.fn(q)
        for n in f.walk():
            if n.get('callee', {}).get('q', '').endswith('iequals'):
                dispatched |= {s['str'] for s in sub(n) if s['k'] == 'StringLiteral' and 'str' in s}
    missing = sorted(exec_set - dispatched)
    rep.check(not missing, 'R19.1', 'execContentSet subset of dispatch', val.where(), 'validator accepts %s; executor dispatches %s; accepted but not dispatched: %s' % (sorted(exec_set), sorted(dispatched & exec_set), missing))
    # state-like sets: the validator's `allStates` is filled from nodeSets["<element>"] lists
    def state_sets(f):
        out = []
        for n in f.walk():
            if n['k'] == 'InitListExpr' or n['k'] == 'CXXStdInitializerListExpr':
                lits = {s['str'] for s in sub(n) if s['k'] == 'StringLiteral' and 'str' in s}
                if {'state', 'parallel'} <= lits:
                    out.append(frozenset(x for x in lits if x.isalpha()))
        return out
    var_lit = {}
    for n in val.walk():
        if n['k'] == 'DeclStmt':
            for d in n.get('decls', []):
                if 'init' in d and any(x['k'] == 'DeclRefExpr' and x['ref'].get('name') == 'nodeSets' for x in sub(d['init'])):
                    lits = [x['str'] for x in sub(d['init']) if x['k'] == 'StringLiteral' and 'str' in x]
                    if lits:
                        var_lit[d['lid']] = lits[0]
    vset = set()
    for n in val.walk():
        if n['k'] == 'CXXMemberCallExpr' and n['callee']['q'].split('::')[-1] == 'insert' and n.get('c') and n['c'][0].get('c'):
            b_ = strip(n['c'][0]['c'][0])
            if b_['k'] == 'DeclRefExpr' and b_['ref'].get('name') == 'allStates':
                for x in sub(n):
                    if x['k'] == 'DeclRefExpr' and x['ref'].get('lid') in var_lit:
                        vset.add(var_lit[x['ref']['lid']])
    esets = set()
    for q in ('uscxml::LargeMicroStep::init', 'uscxml::FastMicroStep::init'):
        esets |= set(state_sets(fb.fn(q)))
    full = frozenset({'scxml', 'state', 'parallel', 'final', 'history', 'initial'})
    rep.check(esets == {full} and vset == set(full) - {'scxml', 'initial'}, 'R19.1', 'state vocabulary', val.where(),
              'engines index %s; the validator checks ids/targets over %s (scxml and initial carry no id)' % (sorted(map(sorted, esets)), sorted(vset)))

    # ---- R19.2
    ctx = {}
    for dm in ('uscxml::LuaDataModel', 'uscxml::PromelaDataModel'):
        for meth in ('isValidSyntax', 'isLegalDataValue', 'evalAsBool', 'evalAsData', 'getLength', 'eval'):
            fs = [f for f in fb.fns(dm + '::' + meth) if f.d.get('params') and 'string' in f.d['params'][0]['t']]
            if fs:
                ctx[(dm, meth)] = context_of_method(fb, fs[0])
    rep.sample({'parser context per data model method': {'%s::%s' % (k[0].split('::')[-1], k[1]): v for k, v in ctx.items()}})
    if ctx.get(('uscxml::LuaDataModel', 'evalAsData')) != 'expression' or ctx.get(('uscxml::LuaDataModel', 'isValidSyntax')) != 'statement':
        raise AnalysisBroken('Lua data model contexts not recognised: %s' % ctx)
    sites = 0
    for n in val.walk():
        q = n.get('callee', {}).get('q', '')
        if q not in ('uscxml::DataModel::isValidSyntax', 'uscxml::DataModel::isLegalDataValue'):
            continue
        arg = n['c'][1]
        names = {s.get('ref', {}).get('name') for s in sub(arg)}
        attr = [a for a in list(EXPRESSION_ATTRS) + list(LOCATION_ATTRS) if a in names]
        if not attr:
            continue     # script content: a statement list by definition
        sites += 1
        lits = [s['str'] for s in sub(arg) if s['k'] == 'StringLiteral' and 'str' in s]
        wrapper_expr = any(l.strip().endswith('=') for l in lits)
        wrapper_loc = any(l.strip().startswith('=') for l in lits)
        meth = q.split('::')[-1]
        kind = 'expression' if attr[0] in EXPRESSION_ATTRS else 'location'
        for dm in ('uscxml::LuaDataModel', 'uscxml::PromelaDataModel'):
            c = ctx.get((dm, meth))
            evalc = ctx.get((dm, 'evalAsData'))
            if c is None or evalc is None:
                continue
            if kind == 'expression':
                ok = c == 'expression' or wrapper_expr or evalc != 'expression'
            else:
                ok = wrapper_loc or c != 'statement' or evalc != 'expression'
            ordinal = sum(1 for m in val.walk() if m.get('callee', {}).get('q', '') in ('uscxml::DataModel::isValidSyntax', 'uscxml::DataModel::isLegalDataValue') and m['loc'][1] < n['loc'][1])
            rep.check(ok, 'R19.2', '%s|%s#%d|%s' % (EXPRESSION_ATTRS.get(attr[0]) or LOCATION_ATTRS.get(attr[0]), meth, ordinal, dm.split('::')[-1]), locstr(n),
                      'attribute %s (%s) is checked with %s%s; in %s that parses in %s context while the executor evaluates in %s context' % (
                          attr[0][8:].lower(), kind, meth, ' plus an assignment wrapper' if wrapper_expr or wrapper_loc else '', dm.split('::')[-1], c, evalc))
    rep.minimum('R19.2', sites, 6, 'syntax checks of attributes in the validator')

    # ---- R19.3
    issues = []
    for n in val.walk():
        if n['k'] in ('CXXTemporaryObjectExpr', 'CXXConstructExpr') and n.get('callee', {}).get('q') == 'uscxml::InterpreterIssue::InterpreterIssue':
            lits = [s['str'] for s in sub(n['c'][0]) if s['k'] == 'StringLiteral' and 'str' in s] if n.get('c') else []
            sev = [s['ref']['name'] for s in sub(n) if s['k'] == 'DeclRefExpr' and s['ref'].get('dk') == 'EnumConstant' and s['ref']['name'].startswith('USCXML_ISSUE_')]
            if lits:
                issues.append((' '.join(lits), sev[0] if sev else None, n))
    rep.minimum('R19.3', len(issues), 50, 'issue construction sites')
    for pat in MUST_BE_FATAL:
        hits = [(m, sv, n) for m, sv, n in issues if pat in m]
        if not hits:
            raise AnalysisBroken('issue message containing "%s" not found' % pat)
        for m, sv, n in hits:
            rep.check(sv == 'USCXML_ISSUE_FATAL', 'R19.3', pat, locstr(n), '"%s" is raised as %s' % (m[:70], sv))

    # ---- R19.4
    total_ok = 0
    for f in fb.funcs.values():
        if not f.file.endswith('debug/InterpreterIssue.cpp'):
            continue
        viol, okc = tab.nonempty_violations(f, is_container=lambda call: 'std::list' in call.get('callee', {}).get('q', '') or 'std::vector' in call.get('callee', {}).get('q', ''))
        total_ok += okc
        for n, name, m in viol:
            rep.fail('R19.4', '%s|%s.%s' % (f.q.split('::')[-1], name, m), locstr(n), '%s.%s() reachable with %s possibly empty in %s' % (name, m, name, f.q))
    rep.ok('R19.4', 'InterpreterIssue.cpp', '%d front()/back() uses guarded by an emptiness/size test' % total_ok)

    # ---- R19.5 / R19.6
    loop_carried(rep, fb)


LOOPS = ('ForStmt', 'CXXForRangeStmt', 'WhileStmt', 'DoStmt')
APPEND = ('insert', 'push_back', 'push_front', 'emplace_back', 'merge', 'splice', 'append', 'operator+=')
CONTAINER_T = re.compile(r'std::(list|set|map|vector|multimap|multiset|basic_string)<|^std::string$')
# containers that accumulate across iterations on purpose: (function, variable) -> reason (confirmed by reading)
ACCUMULATES_OK = {}


def loop_carried(rep, fb):
    rep.rule('R19.5', 'reference sets are per element: a container that is filled inside a loop and then consulted in the guard of an issue (fill-then-query) is created or reset inside that loop, so the verdict about one element does not depend on the elements checked before it')
    rep.rule('R19.6', 'the validator checks the text the executor runs: the <script> text handed to isValidSyntax is getTextContent() or is accumulated over ALL text/CDATA children (appended, never overwritten inside the loop)')
    vf = [f for f in fb.funcs.values() if f.file.endswith('debug/InterpreterIssue.cpp') and f.d.get('body')]
    n_guards = n_loops = 0
    for f in vf:
        decls = {}
        for n in f.walk():
            if n['k'] == 'DeclStmt':
                for d in n.get('decls', []):
                    if CONTAINER_T.search(d.get('t') or ''):
                        decls[d['lid']] = (d, n)
        if not decls:
            continue
        for lp in f.walk():
            if lp['k'] not in LOOPS:
                continue
            n_loops += 1
            body = lp['c'][-1]
            if body is None:
                continue
            body_ids = {x['id'] for x in sub(body) if 'id' in x}
            # mutations / resets / guarded reads per variable inside this loop body
            per = {}
            for n in sub(body):
                lid = name = None
                kind = None
                if n['k'] == 'CXXMemberCallExpr' and n.get('c') and n['c'][0].get('c'):
                    base = strip(n['c'][0]['c'][0])
                    if base and base['k'] == 'DeclRefExpr' and base.get('ref', {}).get('lid') in decls:
                        m = n.get('callee', {}).get('q', '').split('::')[-1]
                        lid = base['ref']['lid']
                        kind = 'append' if m in APPEND else 'reset' if m in ('clear', 'assign', 'swap') else None
                elif n['k'] == 'CXXOperatorCallExpr' and n.get('op') in ('+=', '=') and len(n.get('c', [])) > 1:
                    base = strip(n['c'][1])
                    if base and base['k'] == 'DeclRefExpr' and base.get('ref', {}).get('lid') in decls:
                        lid = base['ref']['lid']
                        kind = 'append' if n['op'] == '+=' else 'reset'
                if lid is not None and kind:
                    per.setdefault(lid, {'append': [], 'reset': [], 'query': []})[kind].append(n)
            # guarded reads: the variable occurs in the condition of an if whose then-branch emits an issue
            for n in sub(body):
                if n['k'] != 'IfStmt':
                    continue
                kids = [c for c in n['c'] if c is not None]
                if len(kids) < 2:
                    continue
                emits = any(x['k'] in ('CXXConstructExpr', 'CXXTemporaryObjectExpr') and x.get('callee', {}).get('q', '').startswith('uscxml::InterpreterIssue::InterpreterIssue') for x in sub(kids[1]))
                if not emits:
                    continue
                n_guards += 1
                for x in sub(kids[0]):
                    if x['k'] == 'DeclRefExpr' and x.get('ref', {}).get('lid') in per:
                        per[x['ref']['lid']]['query'].append(x)
            for lid, ev in per.items():
                d, dn = decls[lid]
                if dn['id'] in body_ids:
                    continue                  # created inside this loop
                if not ev['append'] or not ev['query']:
                    continue
                first_app = min(a['loc'][1] for a in ev['append'])
                first_q = min(q['loc'][1] for q in ev['query'])
                resets_before = [r for r in ev['reset'] if r['loc'][1] <= first_app]
                if first_app <= first_q and not resets_before:
                    # is the declaration inside an enclosing loop whose body also contains this loop and no other iteration re-uses it?  (fresh per outer iteration is fine
                    # only if this loop runs once per outer iteration over the *chunks of one element*: the query must then come after this loop, not inside it)
                    if (f.q, d['name']) in ACCUMULATES_OK:
                        rep.ok('R19.5', '%s|%s' % (f.q.split('::')[-1], d['name']), 'accumulates on purpose: ' + ACCUMULATES_OK[(f.q, d['name'])])
                        continue
                    rep.fail('R19.5', '%s|%s' % (f.q.split('::')[-1], d['name']), locstr(ev['query'][0]),
                             'the container `%s` (declared at %s, outside the loop at %s) is filled at line %d and consulted in an issue guard at line %d of the same iteration without being reset: what earlier elements put there decides the verdict for this one' % (
                                 d['name'], locstr(dn), locstr(lp), first_app, first_q))
    rep.minimum('R19.5', n_guards, 10, 'issue guards inside loops of the validator')
    rep.ok('R19.5', 'validator', '%d loops, %d issue guards inside loops examined' % (n_loops, n_guards))
    # R19.6
    sites = 0
    for f in vf:
        for n in f.walk():
            if n['k'] != 'IfStmt':
                continue
            kids = [c for c in n['c'] if c is not None]
            if len(kids) < 2:
                continue
            msg = [x.get('str', '') for x in sub(kids[1]) if x['k'] == 'StringLiteral']
            if not any('yntax error in script' in m for m in msg):
                continue
            call = [x for x in sub(kids[0]) if x.get('callee', {}).get('q', '').endswith('isValidSyntax')]
            if not call:
                continue
            sites += 1
            arg = strip(call[0]['c'][1]) if len(call[0].get('c', [])) > 1 else None
            while arg is not None and arg['k'] == 'CXXConstructExpr' and arg.get('c'):
                arg = strip(arg['c'][0])
            ok, why = False, 'argument not understood'
            if arg is not None and any(x.get('callee', {}).get('q', '').endswith('getTextContent') for x in sub(arg)):
                ok, why = True, 'getTextContent() like the executor'
            elif arg is not None and arg['k'] == 'DeclRefExpr' and 'lid' in arg.get('ref', {}):
                lid = arg['ref']['lid']
                writes = []
                for m in f.walk():
                    if m['k'] == 'CXXOperatorCallExpr' and m.get('op') in ('+=', '=') and len(m.get('c', [])) > 1:
                        b = strip(m['c'][1])
                        if b and b['k'] == 'DeclRefExpr' and b.get('ref', {}).get('lid') == lid:
                            inloop = [a for a in f.ancestors(m) if a['k'] in LOOPS]
                            writes.append((m, m['op'], bool(inloop) and any('getNextSibling' in fb.text(a)[:300] or 'getNodeValue' in fb.text(m) for a in inloop[:1])))
                    if m['k'] == 'CXXMemberCallExpr' and m.get('callee', {}).get('q', '').split('::')[-1] in ('append', 'assign') and m['c'][0].get('c'):
                        b = strip(m['c'][0]['c'][0])
                        if b and b['k'] == 'DeclRefExpr' and b.get('ref', {}).get('lid') == lid:
                            writes.append((m, '+=' if m['callee']['q'].endswith('append') else '=', True))
                loopw = [w for w in writes if w[2]]
                if any(x.get('callee', {}).get('q', '').endswith('getTextContent') for w in writes for x in sub(w[0])):
                    ok, why = True, 'assigned from getTextContent()'
                elif loopw and all(op == '+=' for _, op, _ in loopw):
                    ok, why = True, 'appended for every text/CDATA child (%d append site(s))' % len(loopw)
                elif loopw:
                    why = 'OVERWRITTEN inside the loop over the child nodes at %s: only the last chunk is checked while the executor runs getTextContent()' % ', '.join(locstr(w[0]) for w in loopw if w[1] == '=')
                else:
                    why = 'no assembly of the script text found'
            rep.check(ok, 'R19.6', '%s|script text' % f.q.split('::')[-1], locstr(call[0]), 'script text handed to isValidSyntax: ' + why)
    rep.minimum('R19.6', sites, 1, 'script syntax check sites')
