"""C19 - validation verdicts: vocabulary and expression-context agreement between validator and executor, severity of
issues that make execution dereference missing states, robustness of the validator (DESIGN 4/C19)."""
import re
from .. import facts, path, cfg as cfgm, tab
from ..facts import AnalysisBroken, strip, sub, locstr

TUS = ['src/uscxml/util/Predicates.cpp', 'src/uscxml/debug/InterpreterIssue.cpp', 'src/uscxml/interpreter/BasicContentExecutor.cpp', 'src/uscxml/interpreter/InterpreterImpl.cpp',
       'src/uscxml/plugins/datamodel/lua/LuaDataModel.cpp', 'src/uscxml/plugins/datamodel/promela/PromelaDataModel.cpp',
       'src/uscxml/plugins/datamodel/null/NullDataModel.cpp', 'src/uscxml/interpreter/LargeMicroStep.cpp', 'src/uscxml/interpreter/FastMicroStep.cpp']

EXPRESSION_ATTRS = {'kXMLCharCond': 'cond', 'kXMLCharExpr': 'expr', 'kXMLCharArray': 'array', 'kXMLCharEventExpr': 'eventexpr', 'kXMLCharTargetExpr': 'targetexpr',
                    'kXMLCharTypeExpr': 'typeexpr', 'kXMLCharDelayExpr': 'delayexpr', 'kXMLCharSourceExpr': 'srcexpr', 'kXMLCharSendIdExpr': 'sendidexpr'}
LOCATION_ATTRS = {'kXMLCharItem': 'item', 'kXMLCharIndex': 'index', 'kXMLCharLocation': 'location', 'kXMLCharIdLocation': 'idlocation'}
PARSER_SINKS = ('luaL_loadstring', 'uscxml::luaEval', 'uscxml::PromelaParser::PromelaParser')

# issues whose condition makes the engines or transpilers dereference a missing state or fail at init for structural
# reasons: must be FATAL
MUST_BE_FATAL = ['non-existant target state', 'invalid target state', 'has no default transition', 'Duplicate state',
                 'Target states cause illegal configuration', 'references non-child state', 'unknown datamodel']


# conditions the recommendation answers with an error event at run time: a chart that has them is conformant and runs
MUST_NOT_BE_FATAL = {'Send to unknown IO Processor': 'SCXML 6.2.4: an unsupported send type raises error.execution (W3C IRP test 199 is such a document and passes)'}


def string_prefix(fb, f, arg, param_lid):
    """literal text concatenated in front of the parameter inside a sink argument (None if the parameter is not in it)"""
    lits = []
    seen_param = False
    for s in sub(arg):
        if s['k'] == 'StringLiteral' and 'str' in s and not seen_param:
            lits.append(s['str'])
        if s['k'] == 'DeclRefExpr' and s.get('ref', {}).get('lid') == param_lid:
            seen_param = True
    if not seen_param:
        return None
    return ''.join(lits)


def context_of_method(fb, f, depth=0):
    """'expression' | 'statement' | 'location' | None: in which syntactic context a data-model method hands its
    string parameter to the language's parser"""
    if f is None or depth > 3 or not f.d.get('params'):
        return None
    p0 = f.d['params'][0]['lid']
    defs = path.local_defs(f)
    # locals derived from the parameter (trim_copy etc.) count as the parameter
    alias = {p0}
    changed = True
    while changed:
        changed = False
        for lid, inits in defs.items():
            if lid in alias:
                continue
            for i in inits:
                names = {s['ref'].get('lid') for s in sub(i) if s['k'] == 'DeclRefExpr'}
                lits = [s for s in sub(i) if s['k'] == 'StringLiteral']
                if names & alias and not lits:
                    alias.add(lid)
                    changed = True
    for n in f.walk():
        q = n.get('callee', {}).get('q', '')
        if not q:
            continue
        is_sink = q in PARSER_SINKS
        same_class_method = n['k'] == 'CXXMemberCallExpr' and any(t.rec == f.rec and t is not f for t in fb.targets(n))
        if not (is_sink or same_class_method):
            continue
        args = n.get('c', [])[1:] if n['k'] != 'CXXConstructExpr' else n.get('c', [])
        for a in args:
            for pl in alias:
                pre = string_prefix(fb, f, a, pl)
                if pre is None:
                    continue
                pre_s = pre.strip()
                if pre_s.endswith('(') or pre_s.endswith('=') or pre_s.endswith('return'):
                    return 'expression'
                suffix_lits = [s['str'] for s in sub(a) if s['k'] == 'StringLiteral' and 'str' in s]
                if any(x.strip().startswith('=') for x in suffix_lits):
                    return 'location'
                if is_sink:
                    return 'statement'
                for t in fb.targets(n):
                    if t.rec == f.rec and t is not f:
                        c = context_of_method(fb, t, depth + 1)
                        if c:
                            return c
    return None


def run(rep, tier):
    rep.rule('R19.1', 'vocabulary agreement: every executable-content element the validator accepts is dispatched by BasicContentExecutor::process; the state-like element sets of validator and engines agree')
    rep.rule('R19.2', 'expression-context agreement: attributes the executor evaluates as expressions (cond, expr, array) are syntax-checked in expression context in every in-tree data model whose parser distinguishes statements from expressions; item/index/location are checked as assignment targets')
    rep.rule('R19.3', 'severity table: issues whose condition makes execution dereference a missing state or fail structurally at initialisation are raised as FATAL; conditions the recommendation answers with an error event at run time are not')
    rep.rule('R19.4', 'validator robustness: front()/back() on lists obtained from the DOM are guarded by a size/emptiness test in InterpreterIssue.cpp')
    rep.assume('soundness/completeness of the verdict for all documents is not decided')
    fb = facts.FactBase(TUS)
    rep.covered(tus=len(TUS), extracted=fb.extracted, functions=len(fb.funcs))
    val = fb.fn('uscxml::InterpreterIssue::forInterpreter')

    # ---- R19.1
    exec_set = set()
    for n in val.walk():
        if n['k'] == 'CXXMemberCallExpr' and n['callee']['q'].split('::')[-1] == 'insert' and n.get('c') and n['c'][0].get('c'):
            b = strip(n['c'][0]['c'][0])
            if b['k'] == 'DeclRefExpr' and b['ref'].get('name') == 'execContentSet':
                exec_set |= {s['str'] for s in sub(n['c'][1]) if s['k'] == 'StringLiteral' and 'str' in s}
    rep.minimum('R19.1', len(exec_set), 8, 'executable content names in the validator')
    dispatched = set()
    for q in ('uscxml::BasicContentExecutor::process', 'uscxml::BasicContentExecutor::processIf'):
        f = fb.fn(q)
        for n in f.walk():
            if n.get('callee', {}).get('q', '').endswith('iequals'):
                dispatched |= {s['str'] for s in sub(n) if s['k'] == 'StringLiteral' and 'str' in s}
    missing = sorted(exec_set - dispatched)
    rep.check(not missing, 'R19.1', 'execContentSet subset of dispatch', val.where(), 'validator accepts %s; executor dispatches %s; accepted but not dispatched: %s' % (sorted(exec_set), sorted(dispatched & exec_set), missing))
    # state-like sets: the validator's `allStates` is filled from nodeSets["<element>"] lists
    def state_sets(f):
        out = []
        for n in f.walk():
            if n['k'] == 'InitListExpr' or n['k'] == 'CXXStdInitializerListExpr':
                lits = {s['str'] for s in sub(n) if s['k'] == 'StringLiteral' and 'str' in s}
                if {'state', 'parallel'} <= lits:
                    out.append(frozenset(x for x in lits if x.isalpha()))
        return out
    var_lit = {}
    for n in val.walk():
        if n['k'] == 'DeclStmt':
            for d in n.get('decls', []):
                if 'init' in d and any(x['k'] == 'DeclRefExpr' and x['ref'].get('name') == 'nodeSets' for x in sub(d['init'])):
                    lits = [x['str'] for x in sub(d['init']) if x['k'] == 'StringLiteral' and 'str' in x]
                    if lits:
                        var_lit[d['lid']] = lits[0]
    vset = set()
    for n in val.walk():
        if n['k'] == 'CXXMemberCallExpr' and n['callee']['q'].split('::')[-1] == 'insert' and n.get('c') and n['c'][0].get('c'):
            b_ = strip(n['c'][0]['c'][0])
            if b_['k'] == 'DeclRefExpr' and b_['ref'].get('name') == 'allStates':
                for x in sub(n):
                    if x['k'] == 'DeclRefExpr' and x['ref'].get('lid') in var_lit:
                        vset.add(var_lit[x['ref']['lid']])
    esets = set()
    for q in ('uscxml::LargeMicroStep::init', 'uscxml::FastMicroStep::init'):
        esets |= set(state_sets(fb.fn(q)))
    full = frozenset({'scxml', 'state', 'parallel', 'final', 'history', 'initial'})
    rep.check(esets == {full} and vset == set(full) - {'scxml', 'initial'}, 'R19.1', 'state vocabulary', val.where(),
              'engines index %s; the validator checks ids/targets over %s (scxml and initial carry no id)' % (sorted(map(sorted, esets)), sorted(vset)))

    # ---- R19.2
    ctx = {}
    for dm in ('uscxml::LuaDataModel', 'uscxml::PromelaDataModel'):
        for meth in ('isValidSyntax', 'isLegalDataValue', 'evalAsBool', 'evalAsData', 'getLength', 'eval'):
            fs = [f for f in fb.fns(dm + '::' + meth) if f.d.get('params') and 'string' in f.d['params'][0]['t']]
            if fs:
                ctx[(dm, meth)] = context_of_method(fb, fs[0])
    rep.sample({'parser context per data model method': {'%s::%s' % (k[0].split('::')[-1], k[1]): v for k, v in ctx.items()}})
    if ctx.get(('uscxml::LuaDataModel', 'evalAsData')) != 'expression' or ctx.get(('uscxml::LuaDataModel', 'isValidSyntax')) != 'statement':
        raise AnalysisBroken('Lua data model contexts not recognised: %s' % ctx)
    sites = 0
    vdefs = path.local_defs(val)
    for n in val.walk():
        q = n.get('callee', {}).get('q', '')
        if q not in ('uscxml::DataModel::isValidSyntax', 'uscxml::DataModel::isLegalDataValue'):
            continue
        arg = n['c'][1]
        # the argument with its string locals looked through (const std::string expr = ATTR(...); check("foo = " + expr))
        parts = [arg]
        seen_l = set()
        for _ in range(3):
            for pnode in list(parts):
                for s_ in sub(pnode):
                    lid_ = s_.get('ref', {}).get('lid') if s_['k'] == 'DeclRefExpr' else None
                    if lid_ is not None and lid_ not in seen_l and lid_ in vdefs:
                        seen_l.add(lid_)
                        parts += [i_ for i_ in vdefs[lid_] if i_ is not None]
        names = {s.get('ref', {}).get('name') for pn in parts for s in sub(pn)}
        attr = [a for a in list(EXPRESSION_ATTRS) + list(LOCATION_ATTRS) if a in names]
        if not attr:
            continue     # script content: a statement list by definition
        sites += 1
        lits = [s['str'] for pn in parts for s in sub(pn) if s['k'] == 'StringLiteral' and 'str' in s]
        wrapper_expr = any(l.strip().endswith('=') for l in lits)
        wrapper_loc = any(l.strip().startswith('=') for l in lits)
        meth = q.split('::')[-1]
        kind = 'expression' if attr[0] in EXPRESSION_ATTRS else 'location'
        for dm in ('uscxml::LuaDataModel', 'uscxml::PromelaDataModel'):
            c = ctx.get((dm, meth))
            evalc = ctx.get((dm, 'evalAsData'))
            if c is None or evalc is None:
                continue
            if kind == 'expression':
                ok = c == 'expression' or wrapper_expr or evalc != 'expression'
            else:
                ok = wrapper_loc or c != 'statement' or evalc != 'expression'
            ordinal = sum(1 for m in val.walk() if m.get('callee', {}).get('q', '') in ('uscxml::DataModel::isValidSyntax', 'uscxml::DataModel::isLegalDataValue') and m['loc'][1] < n['loc'][1])
            rep.check(ok, 'R19.2', '%s|%s#%d|%s' % (EXPRESSION_ATTRS.get(attr[0]) or LOCATION_ATTRS.get(attr[0]), meth, ordinal, dm.split('::')[-1]), locstr(n),
                      'attribute %s (%s) is checked with %s%s; in %s that parses in %s context while the executor evaluates in %s context' % (
                          attr[0][8:].lower(), kind, meth, ' plus an assignment wrapper' if wrapper_expr or wrapper_loc else '', dm.split('::')[-1], c, evalc))
    rep.minimum('R19.2', sites, 6, 'syntax checks of attributes in the validator')

    # ---- R19.3
    issues = []
    for n in val.walk():
        if n['k'] in ('CXXTemporaryObjectExpr', 'CXXConstructExpr') and n.get('callee', {}).get('q') == 'uscxml::InterpreterIssue::InterpreterIssue':
            lits = [s['str'] for s in sub(n['c'][0]) if s['k'] == 'StringLiteral' and 'str' in s] if n.get('c') else []
            sev = [s['ref']['name'] for s in sub(n) if s['k'] == 'DeclRefExpr' and s['ref'].get('dk') == 'EnumConstant' and s['ref']['name'].startswith('USCXML_ISSUE_')]
            if lits:
                issues.append((' '.join(lits), sev[0] if sev else None, n))
    rep.minimum('R19.3', len(issues), 50, 'issue construction sites')
    for pat in MUST_BE_FATAL:
        hits = [(m, sv, n) for m, sv, n in issues if pat in m]
        if not hits:
            raise AnalysisBroken('issue message containing "%s" not found' % pat)
        for m, sv, n in hits:
            rep.check(sv == 'USCXML_ISSUE_FATAL', 'R19.3', pat, locstr(n), '"%s" is raised as %s' % (m[:70], sv))

    for pat, why in MUST_NOT_BE_FATAL.items():
        hits = [(m, sv, n) for m, sv, n in issues if pat in m]
        if not hits:
            raise AnalysisBroken('issue message containing "%s" not found' % pat)
        for m, sv, n in hits:
            rep.check(sv != 'USCXML_ISSUE_FATAL', 'R19.3', 'not fatal|' + pat, locstr(n), '"%s" is raised as %s (%s)' % (m[:60], sv, why))

    # ---- R19.13 structural preconditions of the engines that the validator must judge (closed table; one issue each)
    rep.rule('R19.13', 'every structural precondition the engines rely on has a fatal issue: an <initial> / history default transition has a target, an initial attribute is not empty, a history default transition does not target a history, ids of an invoked inline machine are judged per machine')
    REQUIRED = [('initial transition without target', r'[Ii]nitial transition.*(no|without|requires|must have).*target'),
                ('history default transition without target', r'Transition in .*history.*has no target'),
                ('empty initial attribute', r'[Ii]nitial attribute.*(empty|no state)'),
                ('history default transition targets a history', r'history.*target.*history|default.*history.*history'),
                ('state-like element outside the state hierarchy (its id resolves for the validator, the engines find no such state)', r'can be no child of')]
    for what, pat in REQUIRED:
        hits = [(m, sv, n) for m, sv, n in issues if re.search(pat, m)]
        rep.check(bool(hits) and all(sv == 'USCXML_ISSUE_FATAL' for _, sv, _ in hits), 'R19.13', what, val.where(), 'the validator %s for: %s' % (
            'has a fatal issue' if hits else 'has NO issue', what) + ('' if hits else ' -- such a document passes validation and the engines end up with a compound state without active child / an empty configuration'))
    # a history among the targets stands for states below its parent
    hlc = next((f_ for f_ in fb.funcs.values() if f_.q.endswith('hasLegalCompletion')), None)
    hist_aware = hlc is not None and any(x.get('callee', {}).get('q', '').split('::')[-1] in ('isHistory', 'getEffectiveTargetStates') for f_ in [hlc] + [
        fb.funcs[n_['callee']['m']] for n_ in hlc.walk() if n_.get('callee', {}).get('m') in fb.funcs and fb.funcs[n_['callee']['m']].file == hlc.file] for x in f_.walk())
    rep.check(hist_aware, 'R19.13', 'history among the targets', hlc.where() if hlc else val.where(), 'hasLegalCompletion %s' % ('dereferences history targets' if hist_aware else
              'treats a <history> target as an ordinary state under its parent: target="Hp b" (Hp the deep history of parallel P, b inside P) is accepted because the least common ancestor is a parallel; the engines then enter b and the default of its region: two active children'))
    # ids are judged per machine: the node sets are assembled without descending into nested <scxml>, or the id table is filtered
    asm = next((f_ for f_ in fb.funcs.values() if f_.q.endswith('assembleNodeSets')), None)
    per_machine = asm is not None and (any(x['k'] == 'StringLiteral' and x.get('str') == 'scxml' for x in asm.walk()) or any(x.get('callee', {}).get('q', '').endswith('areFromSameMachine') for x in asm.walk()))
    seen_filtered = any(x.get('callee', {}).get('q', '').endswith('areFromSameMachine') for a_ in val.walk() if a_['k'] == 'IfStmt' and any(
        y['k'] == 'DeclRefExpr' and y.get('ref', {}).get('name') == 'seenStates' for y in sub(a_)) for x in sub(a_['c'][0]))
    rep.check(per_machine or seen_filtered, 'R19.13', 'ids per machine', asm.where() if asm else val.where(), 'state ids of an inline invoked <scxml> %s' % (
        'are kept apart from the parent machine' if per_machine or seen_filtered else 'are collected into the parent\'s id table: a valid child that reuses an id draws "Duplicate state" fatals, and a parent transition that targets an id existing only in the child passes'))

    # ---- R19.15 the validator judges the elements the engines see
    rep.rule('R19.15', 'validator and engines agree on what belongs to the chart: the engines look elements up by the exact name "prefix of the root + local name"; the validator collects an element under the same test (equality of the tag name, same namespace), not under "the tag starts with the prefix" (vacuous for an empty prefix: payload XML in other namespaces is judged as SCXML, SCXML elements under another prefix pass validation and are invisible to the engines), and an element of the root\'s namespace that fails the test draws a fatal issue')
    if asm is None:
        raise AnalysisBroken('assembleNodeSets not found')
    prefix_tests = [x for x in asm.walk() if x['k'] in ('BinaryOperator', 'CXXOperatorCallExpr') and x.get('op') == '==' and any(
        y.get('callee', {}).get('q', '').split('::')[-1] == 'find' for y in sub(x)) and any(tab.const_of(y) == 0 for y in (x['c'][-2:] if x.get('c') else []))]
    exact = [x for x in asm.walk() if x['k'] in ('BinaryOperator', 'CXXOperatorCallExpr') and x.get('op') == '==' and any(
        y.get('callee', {}).get('q', '').split('::')[-1] == 'getTagName' for y in sub(x)) and any(y.get('callee', {}).get('q', '').split('::')[-1] == 'getLocalName' for y in sub(x))]
    ns = any(y.get('callee', {}).get('q', '').split('::')[-1] == 'getNamespaceURI' for y in asm.walk())
    rep.check(bool(exact) and not prefix_tests, 'R19.15', 'assembleNodeSets|membership', locstr((prefix_tests or exact or [asm.d['body']])[0]), 'an element is collected for validation %s' % (
        'when its tag is exactly prefix + local name%s' % (' and it is in the namespace of the root' if ns else '') if exact and not prefix_tests else
        'when its tag STARTS WITH the prefix of the root (`find(prefix) == 0`): with an un-prefixed root every element of every namespace is judged as SCXML (false fatals for payload), and <sc:state> under an un-prefixed root passes validation although the engines never see it (NULL state in the completion, SIGSEGV)'))
    other = any(re.search(r'another prefix|other prefix|different prefix', m) and sv == 'USCXML_ISSUE_FATAL' for m, sv, n in issues)
    rep.check(other, 'R19.15', 'forInterpreter|other prefix', val.where(), 'an element of the root\'s namespace written with another prefix %s' % ('draws a fatal issue' if other else 'draws NO issue'))

    # ---- R19.14 validation cost: no check enumerates all configurations of the chart
    rep.rule('R19.14', 'validation terminates on every document within memory: no check of the validator enumerates all legal configurations of the chart (exponential in the number of parallel regions)')
    enum_calls = [n for n in val.walk() if n.get('callee', {}).get('q', '').endswith('getAllConfigurations')]
    rep.check(not enum_calls, 'R19.14', 'forInterpreter|getAllConfigurations', locstr(enum_calls[0]) if enum_calls else val.where(), 'the validator %s' % (
        'does not enumerate configurations' if not enum_calls else 'calls getAllConfigurations (for an INFO-level "useless history" hint): a valid parallel with 22 two-state regions and one history needs about 8 GB and ends in std::bad_alloc'))

    # ---- R19.12 what the recommendation allows is not fatal
    rep.rule('R19.12', 'no fatal issue for what the recommendation allows: the id attribute of <state> is optional (engines and back-ends run such charts), so its absence is not reported as FATAL')
    hits = [(m, sv, n) for m, sv, n in issues if "has no 'id' attribute" in m]
    if not hits:
        rep.ok('R19.12', 'missing id', 'no issue is raised for a missing id')
    for m, sv, n in hits:
        rep.check(sv != 'USCXML_ISSUE_FATAL', 'R19.12', 'missing id', locstr(n), '"%s" is raised as %s%s' % (m[:60], sv, '' if sv != 'USCXML_ISSUE_FATAL' else ': <state><transition target="f"/></state> is legal, runs in both engines and transpiles, but is rejected'))

    # ---- R19.4
    total_ok = 0
    for f in fb.funcs.values():
        if not f.file.endswith('debug/InterpreterIssue.cpp'):
            continue
        viol, okc = tab.nonempty_violations(f, is_container=lambda call: 'std::list' in call.get('callee', {}).get('q', '') or 'std::vector' in call.get('callee', {}).get('q', ''))
        total_ok += okc
        for n, name, m in viol:
            rep.fail('R19.4', '%s|%s.%s' % (f.q.split('::')[-1], name, m), locstr(n), '%s.%s() reachable with %s possibly empty in %s' % (name, m, name, f.q))
    rep.ok('R19.4', 'InterpreterIssue.cpp', '%d front()/back() uses guarded by an emptiness/size test' % total_ok)

    # ---- R19.5 / R19.6
    loop_carried(rep, fb)
    # ---- R19.7 / R19.8
    pair_enumeration(rep, fb)
    lookup_tables(rep, fb)
    nearest_common_ancestor(rep, fb)
    root_has_initial_too(rep, fb)
    unknown_ids_filtered(rep, fb)


def lookup_tables(rep, fb):
    """R19.8: presence tests of the validator's id tables stay truthful"""
    from .C08 import edge_dominates
    rep.rule('R19.8', 'queries do not grow the id tables: a std::map of the validator that is consulted with find()/count() presence tests is never read with operator[] (which inserts a null entry for an unknown id) at a point from which such a presence test can still be reached, unless the read itself is under a presence test for the same key; entries are only created by explicit assignment')
    n_tabs = n_reads = 0
    for f in [f_ for f_ in fb.funcs.values() if f_.file.endswith('debug/InterpreterIssue.cpp') and f_.d.get('cfg')]:
        maps = {}
        for n in f.walk():
            if n['k'] == 'DeclStmt':
                for d in n.get('decls', []):
                    # tables of elements: the mapped type is a pointer, operator[] on an unknown id creates a null entry
                    if re.match(r'(const )?std::map<.*\*\s*(,.*)?>$', d.get('t') or ''):
                        maps[d['lid']] = d
        if not maps:
            continue
        g = cfgm.CFG(f)

        def base_lid(call):
            if not call.get('c'):
                return None
            b = call['c'][0]['c'][0] if call['k'] == 'CXXMemberCallExpr' and call['c'][0].get('c') else call['c'][1] if call['k'] == 'CXXOperatorCallExpr' and len(call['c']) > 1 else None
            b = strip(b) if b is not None else None
            return b['ref'].get('lid') if b is not None and b['k'] == 'DeclRefExpr' else None

        def key_text(call):
            a = call['c'][1] if call['k'] == 'CXXMemberCallExpr' and len(call['c']) > 1 else call['c'][2] if call['k'] == 'CXXOperatorCallExpr' and len(call['c']) > 2 else None
            return ' '.join(fb.text(a).split()) if a is not None else None
        tests = {}        # lid -> [(cond block id, key text, label under which the key is present)]
        for bid, blk in g.blocks.items():
            c = blk.get('cond')
            if c is None or c not in f.nodes:
                continue
            cn = strip(f.nodes[c])
            neg = False
            while cn is not None and cn['k'] == 'UnaryOperator' and cn.get('op') == '!':
                neg = not neg
                cn = strip(cn['c'][0])
            if cn is None:
                continue
            if cn['k'] in ('CXXOperatorCallExpr', 'BinaryOperator') and cn.get('op') in ('==', '!='):
                finds = [x for x in sub(cn) if x['k'] == 'CXXMemberCallExpr' and x.get('callee', {}).get('q', '').split('::')[-1] == 'find' and base_lid(x) in maps]
                ends = [x for x in sub(cn) if x['k'] == 'CXXMemberCallExpr' and x.get('callee', {}).get('q', '').split('::')[-1] == 'end' and base_lid(x) in maps]
                if finds and ends:
                    present_when = (cn['op'] == '!=') != neg
                    tests.setdefault(base_lid(finds[0]), []).append((bid, key_text(finds[0]), present_when))
            elif cn['k'] == 'CXXMemberCallExpr' and cn.get('callee', {}).get('q', '').split('::')[-1] == 'count' and base_lid(cn) in maps:
                tests.setdefault(base_lid(cn), []).append((bid, key_text(cn), not neg))
        for lid, d in maps.items():
            if lid not in tests:
                continue
            n_tabs += 1
            for n in f.walk():
                if n['k'] != 'CXXOperatorCallExpr' or n.get('op') != '[]' or base_lid(n) != lid or n['id'] not in g.pos:
                    continue
                par = f.parent(n)
                while par is not None and par['k'] in facts.TRANSPARENT:
                    par = f.parent(par)
                if par is not None and par['k'] in ('CXXOperatorCallExpr', 'BinaryOperator') and par.get('op') == '=' and any(
                        x is n for x in sub(par['c'][1] if par['k'] == 'CXXOperatorCallExpr' else par['c'][0])):
                    continue          # explicit insertion  table[id] = element
                n_reads += 1
                tb = g.pos[n['id']][0]
                k = key_text(n)
                guarded = any(kt == k and bid != tb and edge_dominates(g, bid, lab, tb) for bid, kt, lab in tests[lid])
                later = None
                if not guarded:
                    reach = g.reachable_blocks(tb)
                    for bid, kt, lab in tests[lid]:
                        if bid in reach and (bid != tb or True):
                            # the same block counts only through a cycle
                            if bid == tb and not any(tb in g.reachable_blocks(s_) for s_ in g.succ(tb)):
                                continue
                            later = bid
                            break
                rep.check(guarded or later is None, 'R19.8', '%s|%s[%s]#%d' % (f.q.split('::')[-1], d['name'], k, sum(1 for x in f.walk() if x['k'] == 'CXXOperatorCallExpr' and x.get('op') == '[]' and base_lid(x) == lid and x['loc'][1] < n['loc'][1])), locstr(n),
                          'read of %s[%s] %s' % (d['name'], k, 'under a presence test for the same key' if guarded else 'without presence test, but no presence test of the table is reachable afterwards' if later is None else
                                                 'WITHOUT a presence test for that key, and a presence test of the table is still reachable (%s): an unknown id is inserted with a null element, passes the later test and the null element is used' % locstr(f.nodes[g.blocks[later]['cond']])))
    rep.minimum('R19.8', n_tabs, 1, 'id tables with presence tests in the validator')
    rep.minimum('R19.8', n_reads, 3, 'operator[] reads of the id tables')


def pair_enumeration(rep, fb):
    """R19.7: hasLegalCompletion examines every pair"""
    from .. import quant
    rep.rule('R19.7', 'every pair is examined: in hasLegalCompletion the inner loop of the pair enumeration is left only by exhaustion or by a path that does not report the set as legal (a jump out of the inner loop after ONE compatible partner was found skips the remaining partners of that state)')
    f = fb.fn('uscxml::hasLegalCompletion', required=False) or next((x for x in fb.funcs.values() if x.q.endswith('hasLegalCompletion')), None)
    if f is None:
        raise AnalysisBroken('hasLegalCompletion not found')
    g = cfgm.CFG(f)
    loops = [n for n in f.walk() if n['k'] in LOOPS]
    par = {p_['lid'] for p_ in f.d.get('params', [])}

    def iterates_param(l):
        hdr = [c for c in l.get('c', [])[:-1] if c is not None]
        return any(x['k'] == 'DeclRefExpr' and x.get('ref', {}).get('lid') in par for h in hdr for x in sub(h))
    inner = [l for l in loops if iterates_param(l) and any(a['k'] in LOOPS and iterates_param(a) for a in f.ancestors(l))]
    if not inner:
        # no nested enumeration in this function (e.g. the pair test lives in a helper and std algorithms enumerate): nothing to skip
        rep.ok('R19.7', 'hasLegalCompletion', 'no nested pair loop in this form; %d loop(s)' % len(loops))
        return
    q = quant.Quant(f, quant.Spec(member=lambda n: 0))
    for lp in inner:
        region = {x['id'] for x in sub(lp)}
        blocks_in = {bid for bid, b in g.blocks.items() if any(e in region for e in b['el']) or (b.get('cond') in region) or (b.get('term') in region) or (b.get('label') in region)}
        # the loop's own header blocks (condition / increment) are part of the region by construction; early exits are edges
        # from a region block whose terminator is a goto / break / continue to a block outside the region
        early = []
        for bid in blocks_in:
            b = g.blocks[bid]
            if b.get('termk') in ('GotoStmt', 'BreakStmt', 'ContinueStmt'):
                for s_ in g.succ(bid):
                    if s_ not in blocks_in and s_ != g.exit:
                        early.append((bid, s_))
        bad = None
        for bid, s_ in early:
            # can a `return <true>` be reached from here?  exact product with the bool locals, unknown initial values
            seen = set()
            work = [(s_, 0, frozenset())]
            while work and bad is None:
                cb, ci, envf = work.pop()
                if (cb, ci, envf) in seen:
                    continue
                seen.add((cb, ci, envf))
                env = dict(envf)
                blk = g.blocks[cb]
                forked = False
                for j in range(ci, len(blk['el'])):
                    n = f.nodes.get(blk['el'][j])
                    if n is None:
                        continue
                    if n['k'] == 'ReturnStmt' and n.get('c'):
                        if any(v for v, _, _ in q.ev(n['c'][0], env)):
                            bad = (bid, n)
                        forked = True
                        break
                    tgt = rhs = None
                    if n['k'] == 'BinaryOperator' and n.get('op') == '=':
                        l = strip(n['c'][0])
                        if l['k'] == 'DeclRefExpr' and l.get('ref', {}).get('lid') in q.locals:
                            tgt, rhs = l['ref']['lid'], n['c'][1]
                    if tgt is not None:
                        for v, _, _ in q.ev(rhs, env):
                            e2 = dict(env)
                            e2[tgt] = v
                            work.append((cb, j + 1, frozenset(e2.items())))
                        forked = True
                        break
                if forked or bad:
                    continue
                cond = blk.get('cond')
                cn = f.nodes.get(cond) if cond is not None else None
                succ = g.succ_labeled(cb)
                if cn is not None and any(l is not None for _, l in succ):
                    outs = q.ev(cn, env)
                    for s2, lab in succ:
                        if lab is None or any(v == lab for v, _, _ in outs):
                            work.append((s2, 0, envf))
                else:
                    for s2, lab in succ:
                        work.append((s2, 0, envf))
        rep.check(bad is None, 'R19.7', 'hasLegalCompletion|inner loop at line %d' % lp['loc'][1], locstr(lp),
                  'inner pair loop: %d early exit(s) by goto/break/continue; %s' % (len(early), 'none of them can end in `return true`' if bad is None else
                  'the jump at %s leaves the inner loop and the set can still be reported as legal (%s): the remaining partners of that state are never compared' % (locstr(f.nodes[g.blocks[bad[0]]['term']]) if g.blocks[bad[0]].get('term') in f.nodes else 'block %d' % bad[0], locstr(bad[1]))))


def nearest_common_ancestor(rep, fb):
    """R19.9: the pair test of hasLegalCompletion decides at the least common ancestor"""
    rep.rule('R19.9', 'two targets are compatible iff their LEAST common ancestor is a parallel: in the ancestor walk of the pair test, the outcome "this ancestor contains the other state" always ends the walk (continuing upwards would accept two children of a compound state as soon as any parallel encloses them)')
    root = next((x for x in fb.funcs.values() if x.q.endswith('hasLegalCompletion')), None)
    if root is None:
        raise AnalysisBroken('hasLegalCompletion not found')
    cands = [root] + [fb.funcs[n['callee']['m']] for n in root.walk() if n.get('callee') and n['callee'].get('m') in fb.funcs and fb.funcs[n['callee']['m']].file == root.file]
    found = 0
    for f in cands:
        if not f.d.get('cfg'):
            continue
        g = cfgm.CFG(f)
        for lp in f.walk():
            if lp['k'] not in ('WhileStmt', 'ForStmt', 'DoStmt'):
                continue
            body = lp['c'][-1]
            if body is None:
                continue
            # the cursor: a variable assigned from getParentNode inside the loop
            cursors = set()
            steps = []
            for n in sub(lp):
                if n['k'] == 'BinaryOperator' and n.get('op') == '=' and any(x.get('callee', {}).get('q', '').endswith('getParentNode') for x in sub(n['c'][1])):
                    l = strip(n['c'][0])
                    if l['k'] == 'DeclRefExpr' and 'lid' in l.get('ref', {}):
                        cursors.add(l['ref']['lid'])
                        steps.append(n)
            if not cursors:
                continue
            tests = [n for n in sub(body) if n['k'] == 'CallExpr' and n.get('callee', {}).get('q', '').endswith('isDescendant') and any(
                x['k'] == 'DeclRefExpr' and x.get('ref', {}).get('lid') in cursors for x in sub(n))]
            # the walk is the innermost loop around the test
            tests = [t_ for t_ in tests if next((a for a in f.ancestors(t_) if a['k'] in ('WhileStmt', 'ForStmt', 'DoStmt')), None) is lp]
            steps = [s_ for s_ in steps if any(x is s_ for x in sub(lp['c'][-1])) or (lp['k'] == 'ForStmt' and any(x is s_ for c_ in lp['c'][:-1] if c_ for x in sub(c_)))]
            if not tests:
                continue
            found += 1
            for t in tests:
                # the block whose condition is (or contains) the test
                cb = next((bid for bid, b in g.blocks.items() if b.get('cond') is not None and b['cond'] in f.nodes and any(x is t for x in sub(f.nodes[b['cond']]))), None)
                if cb is None:
                    raise AnalysisBroken('%s: the common-ancestor test at %s is not a branch condition' % (f.q, locstr(t)))
                neg = False
                cn = strip(f.nodes[g.blocks[cb]['cond']])
                while cn is not None and cn['k'] == 'UnaryOperator' and cn.get('op') == '!':
                    neg = not neg
                    cn = strip(cn['c'][0])
                succ = [s_ for s_, lab in g.succ_labeled(cb) if lab is (not neg)]
                if not succ:
                    raise AnalysisBroken('%s: no labelled successor for the test at %s' % (f.q, locstr(t)))
                # does the walk go on (reach a cursor step of this loop) from the "is a common ancestor" outcome?
                # ... for the SAME pair: a path that re-seats the cursor (next pair) starts a new walk
                step_ids = {s_['id'] for s_ in steps}
                reseat = [x['id'] for x in f.walk() if x['id'] not in step_ids and (
                    (x['k'] == 'BinaryOperator' and x.get('op') == '=' and strip(x['c'][0])['k'] == 'DeclRefExpr' and strip(x['c'][0]).get('ref', {}).get('lid') in cursors) or
                    (x['k'] == 'DeclStmt' and any(d_['lid'] in cursors and 'init' in d_ for d_ in x.get('decls', []))))]
                w = g.can_reach((succ[0], -1), [s_['id'] for s_ in steps if s_['id'] in g.pos], avoid=reseat)
                rep.check(w is None, 'R19.9', '%s|common ancestor ends the walk' % f.q.split('::')[-1], locstr(t),
                          'after `%s` holds the ancestor walk %s' % (' '.join(fb.text(t).split())[:50], 'ends (the least common ancestor decides)' if w is None else
                          'CONTINUES upwards (%s): any enclosing <parallel> makes the pair legal, e.g. two children of one compound state inside a parallel' % locstr(steps[0])))
    rep.minimum('R19.9', found, 1, 'ancestor walks with a common-ancestor test in the pair test of hasLegalCompletion')


def root_has_initial_too(rep, fb):
    """R19.10: checks of the `initial` attribute cover the root element"""
    rep.rule('R19.10', 'the root is a state with an initial attribute like any other: every loop of the validator that judges the `initial` attribute of the elements it walks iterates a collection that contains the <scxml> element (the id list of <scxml initial="a1 a2"> reaches the engines unchecked otherwise)')
    val = fb.fn('uscxml::InterpreterIssue::forInterpreter')
    n_loops = 0
    for lp in val.walk():
        if lp['k'] not in ('ForStmt', 'CXXForRangeStmt'):
            continue
        body = lp['c'][-1]
        if body is None:
            continue
        # loops nested in another candidate are judged with the outer one
        hdr = [c for c in lp['c'][:-1] if c is not None]
        conts = {x['ref']['lid']: x['ref'].get('name') for h in hdr for x in sub(h) if x['k'] == 'DeclRefExpr' and 'lid' in x.get('ref', {}) and re.search(r'std::(list|vector|set)<', x.get('t') or '') and 'iterator' not in (x.get('t') or '')}
        if len(conts) != 1:
            continue
        # the loop element: the variable declared from *iter at the top of the body (or the range variable)
        elem = None
        for n in sub(body):
            if n['k'] == 'DeclStmt':
                for d in n.get('decls', []):
                    if 'DOMElement' in (d.get('t') or '') and 'init' in d:
                        elem = d['lid']
                        break
            if elem is not None:
                break
        if elem is None:
            continue
        # does the body read the initial attribute OF THE LOOP ELEMENT?
        # ... its VALUE (getAttribute), not only its presence
        reads = [n for n in sub(body) if n['k'] in ('CallExpr', 'CXXMemberCallExpr') and n.get('callee', {}).get('q', '').split('::')[-1] == 'getAttribute' and any(
            x['k'] == 'DeclRefExpr' and x.get('ref', {}).get('name') == 'kXMLCharInitial' for x in sub(n)) and any(
            x['k'] == 'DeclRefExpr' and x.get('ref', {}).get('lid') == elem for x in sub(n))]
        if not reads:
            continue
        n_loops += 1
        clid, cname = list(conts.items())[0]
        has_root = any(n['k'] == 'CXXMemberCallExpr' and n.get('callee', {}).get('q', '').split('::')[-1] in ('push_back', 'push_front', 'insert') and n['c'][0].get('c') and
                       strip(n['c'][0]['c'][0]).get('ref', {}).get('lid') == clid and any(x['k'] in ('MemberExpr', 'DeclRefExpr') and x.get('ref', {}).get('name') == '_scxml' for a_ in n['c'][1:] for x in sub(a_))
                       for n in val.walk())
        rep.check(has_root, 'R19.10', 'forInterpreter|loop over %s at line %d' % (cname, lp['loc'][1]), locstr(lp), 'the loop judges the initial attribute of the members of `%s`, which %s' % (
            cname, 'contains the root element' if has_root else 'does NOT contain the <scxml> element: <scxml initial="a1 a2"> with a1, a2 children of one compound state is not checked for a legal configuration'))
    rep.minimum('R19.10', n_loops, 2, 'loops of the validator that judge the initial attribute')


def unknown_ids_filtered(rep, fb):
    """R19.11: an id that names no state yields NULL from getState; nothing built from it hands the NULL on"""
    rep.rule('R19.11', 'unknown ids do not become null elements: every use of getState(id, root) tests the result before it is stored in a collection or dereferenced (the siblings getTargetStates and getStates agree); the validator walks these collections before its own id checks run')
    n = 0
    for f in fb.funcs.values():
        if not f.file.startswith('src/uscxml/') or not f.d.get('body'):
            continue
        for c in f.walk():
            if c['k'] != 'CallExpr' or c.get('callee', {}).get('q') != 'uscxml::getState':
                continue
            n += 1
            par = f.parent(c)
            while par is not None and par['k'] in facts.TRANSPARENT:
                par = f.parent(par)
            ok, how = False, 'used directly'
            if par is not None and par['k'] == 'DeclStmt' or (par is not None and par['k'] in ('BinaryOperator',) and par.get('op') == '='):
                # stored in a local: some branch condition tests that local
                lid = None
                if par['k'] == 'DeclStmt':
                    lid = par['decls'][0]['lid']
                else:
                    l = strip(par['c'][0])
                    lid = l.get('ref', {}).get('lid') if l else None
                tested = any(x['k'] in ('IfStmt', 'WhileStmt', 'ConditionalOperator') and any(y['k'] == 'DeclRefExpr' and y.get('ref', {}).get('lid') == lid for y in sub(x['c'][0])) for x in f.walk())
                ok, how = tested, 'stored in a local that is %s' % ('tested' if tested else 'never tested')
            elif par is not None and par['k'] == 'CXXMemberCallExpr' and par.get('callee', {}).get('q', '').split('::')[-1] in ('push_back', 'push_front', 'insert', 'emplace_back'):
                how = 'pushed into a collection untested'
            elif par is not None and par['k'] in ('MemberExpr', 'CXXMemberCallExpr'):
                # dereferenced at once: accepted only under a presence test of the id in the enclosing conditions
                guarded = any(a_['k'] == 'IfStmt' and any(y.get('callee', {}).get('q', '').split('::')[-1] in ('find', 'count') for y in sub(a_['c'][0])) for a_ in f.ancestors(c))
                ok, how = guarded, 'dereferenced at once %s' % ('under a presence test of the id' if guarded else 'without any test')
            elif par is not None and par['k'] == 'ReturnStmt':
                ok, how = True, 'returned to the caller'
            rep.check(ok, 'R19.11', '%s|getState#%d' % (f.q.split('::')[-1], sum(1 for x in f.walk() if x.get('callee', {}).get('q') == 'uscxml::getState' and x['loc'][1] < c['loc'][1])), locstr(c),
                      'result of getState %s%s' % (how, '' if ok else ': for an id that names no state a NULL element travels on (validation of <state initial="nope"> dereferences it in getReachableStates before the id check runs)'))
    rep.minimum('R19.11', n, 2, 'uses of getState')


LOOPS = ('ForStmt', 'CXXForRangeStmt', 'WhileStmt', 'DoStmt')
APPEND = ('insert', 'push_back', 'push_front', 'emplace_back', 'merge', 'splice', 'append', 'operator+=')
CONTAINER_T = re.compile(r'std::(list|set|map|vector|multimap|multiset|basic_string)<|^std::string$')
# containers that accumulate across iterations on purpose: (function, variable) -> reason (confirmed by reading)
ACCUMULATES_OK = {}


def loop_carried(rep, fb):
    rep.rule('R19.5', 'reference sets are per element: a container that is filled inside a loop and then consulted in the guard of an issue (fill-then-query) is created or reset inside that loop, so the verdict about one element does not depend on the elements checked before it')
    rep.rule('R19.6', 'the validator checks the text the executor runs: the <script> text handed to isValidSyntax is getTextContent() or is accumulated over ALL text/CDATA children (appended, never overwritten inside the loop)')
    vf = [f for f in fb.funcs.values() if f.file.endswith('debug/InterpreterIssue.cpp') and f.d.get('body')]
    n_guards = n_loops = 0
    for f in vf:
        decls = {}
        for n in f.walk():
            if n['k'] == 'DeclStmt':
                for d in n.get('decls', []):
                    if CONTAINER_T.search(d.get('t') or ''):
                        decls[d['lid']] = (d, n)
        if not decls:
            continue
        for lp in f.walk():
            if lp['k'] not in LOOPS:
                continue
            n_loops += 1
            body = lp['c'][-1]
            if body is None:
                continue
            body_ids = {x['id'] for x in sub(body) if 'id' in x}
            # mutations / resets / guarded reads per variable inside this loop body
            per = {}
            for n in sub(body):
                lid = name = None
                kind = None
                if n['k'] == 'CXXMemberCallExpr' and n.get('c') and n['c'][0].get('c'):
                    base = strip(n['c'][0]['c'][0])
                    if base and base['k'] == 'DeclRefExpr' and base.get('ref', {}).get('lid') in decls:
                        m = n.get('callee', {}).get('q', '').split('::')[-1]
                        lid = base['ref']['lid']
                        kind = 'append' if m in APPEND else 'reset' if m in ('clear', 'assign', 'swap') else None
                elif n['k'] == 'CXXOperatorCallExpr' and n.get('op') in ('+=', '=') and len(n.get('c', [])) > 1:
                    base = strip(n['c'][1])
                    if base and base['k'] == 'DeclRefExpr' and base.get('ref', {}).get('lid') in decls:
                        lid = base['ref']['lid']
                        kind = 'append' if n['op'] == '+=' else 'reset'
                if lid is not None and kind:
                    per.setdefault(lid, {'append': [], 'reset': [], 'query': []})[kind].append(n)
            # guarded reads: the variable occurs in the condition of an if whose then-branch emits an issue
            for n in sub(body):
                if n['k'] != 'IfStmt':
                    continue
                kids = [c for c in n['c'] if c is not None]
                if len(kids) < 2:
                    continue
                emits = any(x['k'] in ('CXXConstructExpr', 'CXXTemporaryObjectExpr') and x.get('callee', {}).get('q', '').startswith('uscxml::InterpreterIssue::InterpreterIssue') for x in sub(kids[1]))
                if not emits:
                    continue
                n_guards += 1
                for x in sub(kids[0]):
                    if x['k'] == 'DeclRefExpr' and x.get('ref', {}).get('lid') in per:
                        per[x['ref']['lid']]['query'].append(x)
            for lid, ev in per.items():
                d, dn = decls[lid]
                if dn['id'] in body_ids:
                    continue                  # created inside this loop
                if not ev['append'] or not ev['query']:
                    continue
                first_app = min(a['loc'][1] for a in ev['append'])
                first_q = min(q['loc'][1] for q in ev['query'])
                resets_before = [r for r in ev['reset'] if r['loc'][1] <= first_app]
                if first_app <= first_q and not resets_before:
                    # is the declaration inside an enclosing loop whose body also contains this loop and no other iteration re-uses it?  (fresh per outer iteration is fine
                    # only if this loop runs once per outer iteration over the *chunks of one element*: the query must then come after this loop, not inside it)
                    if (f.q, d['name']) in ACCUMULATES_OK:
                        rep.ok('R19.5', '%s|%s' % (f.q.split('::')[-1], d['name']), 'accumulates on purpose: ' + ACCUMULATES_OK[(f.q, d['name'])])
                        continue
                    rep.fail('R19.5', '%s|%s' % (f.q.split('::')[-1], d['name']), locstr(ev['query'][0]),
                             'the container `%s` (declared at %s, outside the loop at %s) is filled at line %d and consulted in an issue guard at line %d of the same iteration without being reset: what earlier elements put there decides the verdict for this one' % (
                                 d['name'], locstr(dn), locstr(lp), first_app, first_q))
    rep.minimum('R19.5', n_guards, 10, 'issue guards inside loops of the validator')
    rep.ok('R19.5', 'validator', '%d loops, %d issue guards inside loops examined' % (n_loops, n_guards))
    # R19.6
    sites = 0
    for f in vf:
        for n in f.walk():
            if n['k'] != 'IfStmt':
                continue
            kids = [c for c in n['c'] if c is not None]
            if len(kids) < 2:
                continue
            msg = [x.get('str', '') for x in sub(kids[1]) if x['k'] == 'StringLiteral']
            if not any('yntax error in script' in m for m in msg):
                continue
            call = [x for x in sub(kids[0]) if x.get('callee', {}).get('q', '').endswith('isValidSyntax')]
            if not call:
                continue
            sites += 1
            arg = strip(call[0]['c'][1]) if len(call[0].get('c', [])) > 1 else None
            while arg is not None and arg['k'] == 'CXXConstructExpr' and arg.get('c'):
                arg = strip(arg['c'][0])
            ok, why = False, 'argument not understood'
            if arg is not None and any(x.get('callee', {}).get('q', '').endswith('getTextContent') for x in sub(arg)):
                ok, why = True, 'getTextContent() like the executor'
            elif arg is not None and arg['k'] == 'DeclRefExpr' and 'lid' in arg.get('ref', {}):
                lid = arg['ref']['lid']
                writes = []
                for m in f.walk():
                    if m['k'] == 'CXXOperatorCallExpr' and m.get('op') in ('+=', '=') and len(m.get('c', [])) > 1:
                        b = strip(m['c'][1])
                        if b and b['k'] == 'DeclRefExpr' and b.get('ref', {}).get('lid') == lid:
                            inloop = [a for a in f.ancestors(m) if a['k'] in LOOPS]
                            writes.append((m, m['op'], bool(inloop) and any('getNextSibling' in fb.text(a)[:300] or 'getNodeValue' in fb.text(m) for a in inloop[:1])))
                    if m['k'] == 'CXXMemberCallExpr' and m.get('callee', {}).get('q', '').split('::')[-1] in ('append', 'assign') and m['c'][0].get('c'):
                        b = strip(m['c'][0]['c'][0])
                        if b and b['k'] == 'DeclRefExpr' and b.get('ref', {}).get('lid') == lid:
                            writes.append((m, '+=' if m['callee']['q'].endswith('append') else '=', True))
                loopw = [w for w in writes if w[2]]
                if any(x.get('callee', {}).get('q', '').endswith('getTextContent') for w in writes for x in sub(w[0])):
                    ok, why = True, 'assigned from getTextContent()'
                elif loopw and all(op == '+=' for _, op, _ in loopw):
                    ok, why = True, 'appended for every text/CDATA child (%d append site(s))' % len(loopw)
                elif loopw:
                    why = 'OVERWRITTEN inside the loop over the child nodes at %s: only the last chunk is checked while the executor runs getTextContent()' % ', '.join(locstr(w[0]) for w in loopw if w[1] == '=')
                else:
                    why = 'no assembly of the script text found'
            rep.check(ok, 'R19.6', '%s|script text' % f.q.split('::')[-1], locstr(call[0]), 'script text handed to isValidSyntax: ' + why)
    rep.minimum('R19.6', sites, 1, 'script syntax check sites')
