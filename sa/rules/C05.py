"""C05 - transpilers compute and share the chart's structural relations: single writer / shared readers of the DOM
annotations, loop-index consistency in table consumers, vocabulary and conflict-definition agreement (DESIGN 4/C05)."""
from .. import facts, path, cfg as cfgm, tab
from . import _domain
from ..facts import AnalysisBroken, strip, sub, locstr

TUS = ['src/uscxml/transform/ChartToC.cpp', 'src/uscxml/transform/ChartToPromela.cpp', 'src/uscxml/transform/ChartToVHDL.cpp',
       'src/uscxml/util/Predicates.cpp', 'src/uscxml/interpreter/LargeMicroStep.cpp', 'src/uscxml/interpreter/FastMicroStep.cpp', 'src/uscxml/util/DOM.cpp']
ANNOT = ('documentOrder', 'postFixOrder', 'parent', 'childBools', 'ancBools', 'completionBools', 'targetBools', 'exitSetBools', 'conflictBools', 'hasHistoryChild')
RELATIONS = ('childBools', 'ancBools', 'completionBools', 'targetBools', 'exitSetBools', 'conflictBools')
WRITERS_OK = {'prepare', 'setStateCompletion', 'setHistoryCompletion'}
STATE_VOCAB = frozenset({'scxml', 'state', 'parallel', 'final', 'history', 'initial'})


def x_literal(n):
    """string literal K of an X("K") construction inside node n"""
    out = []
    for s in sub(n):
        if s['k'] in ('CXXConstructExpr', 'CXXTemporaryObjectExpr', 'CXXFunctionalCastExpr') and s.get('callee', {}).get('q', '').startswith('uscxml::X::X'):
            for x in sub(s):
                if x['k'] == 'StringLiteral' and 'str' in x:
                    out.append(x['str'])
    return out


def check_conflict_terms(rep, rule, fb):
    def terms(node_iter):
        t = set()
        for s in node_iter:
            q = s.get('callee', {}).get('q', '')
            if q.endswith('DOMUtils::isDescendant'):
                t.add('source-ancestry')
            if q.endswith('DOMUtils::hasIntersection') and any(x.get('callee', {}).get('q', '').endswith('getExitSet') for x in sub(s)):
                t.add('exit-set-intersection')
        return t
    pc = fb.fn('uscxml::conflicts')
    tp = terms(pc.walk())
    n_anc = sum(1 for s in pc.walk() if s.get('callee', {}).get('q', '').endswith('DOMUtils::isDescendant'))
    prep = fb.fn('uscxml::ChartToC::prepare')

    def expanded(cond):
        """nodes of a condition, looking through calls to repository helpers (an extracted `transitionsConflict(t1, t2)`)"""
        out = []
        for x in sub(cond):
            out.append(x)
            c = x.get('callee')
            if c and not c.get('ext') and c['m'] in fb.funcs and not c['q'].startswith(('uscxml::DOMUtils::', 'uscxml::X::')) and c['q'] not in ('uscxml::getExitSet', 'uscxml::getSourceState'):
                out += list(fb.funcs[c['m']].walk())
        return out
    cif = None
    for n in prep.walk():
        if n['k'] == 'IfStmt' and terms(expanded(n['c'][0])) >= {'exit-set-intersection'}:
            cif = n
    if cif is None:
        raise AnalysisBroken('ChartToC::prepare: conflict test not found')
    tc = terms(expanded(cif['c'][0]))
    n_anc_c = sum(1 for s in expanded(cif['c'][0]) if s.get('callee', {}).get('q', '').endswith('DOMUtils::isDescendant'))
    rep.check(tp == tc == {'source-ancestry', 'exit-set-intersection'} and n_anc == n_anc_c == 2, rule, 'conflict terms', locstr(cif),
              'Predicates.cpp::conflicts uses %s (%d ancestry tests); ChartToC::prepare uses %s (%d)' % (sorted(tp), n_anc, sorted(tc), n_anc_c))



def check_exit_set_vocabulary(rep, rule, fb):
    """Predicates.cpp::getExitSet collects the descendants of the domain that can be part of a configuration: state, parallel, final"""
    xs = fb.fn('uscxml::getExitSet')
    calls = [n for n in xs.walk() if n.get('callee', {}).get('q', '').endswith('DOMUtils::inDocumentOrder')]
    if not calls:
        raise AnalysisBroken('getExitSet: the inDocumentOrder call that collects the states to exit was not found')
    names = set()
    for n in xs.walk():
        if n['k'] == 'StringLiteral' and n.get('str', '').isalpha():
            names.add(n['str'])
    names &= set(STATE_VOCAB)
    want = {'state', 'parallel', 'final'}
    rep.check(names == want, rule, 'getExitSet|vocabulary', locstr(calls[0]), 'the exit set is collected over the elements %s; states that can be active: %s%s' % (
        sorted(names), sorted(want), '' if names == want else ' -- %s never leave the configuration / %s are exited although they are never active' % (sorted(want - names), sorted(names - want))))


def check_history_completion(rep, rule, fb):
    defs = {}
    for q in ('uscxml::ChartToC::setHistoryCompletion', 'uscxml::LargeMicroStep::getHistoryCompletion', 'uscxml::FastMicroStep::getHistoryCompletion'):
        defs[q.split('uscxml::')[-1]] = history_features(fb, fb.fn(q))
    names = sorted(defs)
    ref = defs[names[0]]
    rep.sample({'history completion features': {k: {kk: vv for kk, vv in v.items() if kk != 'site'} for k, v in defs.items()}})
    for k in names:
        v = defs[k]
        rep.check(v['deep'] == {'isDescendant(state, parent(history))', '!isHistory(state)'} and v['shallow'] == {'parent(state) == parent(history)', '!isHistory(state)'}, rule, k + '|membership', v['site'],
                  'deep completion admits a state under %s, shallow completion under %s' % (sorted(v['deep']), sorted(v['shallow'])))
    rep.check(len({defs[k]['exclusion_live'] for k in names}) == 1, rule, 'exclusion filter agreement', defs[names[0]]['site'],
              'states covered by another history are left out: %s' % {k: defs[k]['exclusion_live'] for k in names})


def history_features(fb, f):
    """membership conditions of the two completion.push_back sites and liveness of the isMember(.., covered) filter"""
    out = {'deep': set(), 'shallow': set(), 'exclusion_live': False, 'site': f.where()}
    pushes = [n for n in f.walk() if n['k'] == 'CXXMemberCallExpr' and n.get('callee', {}).get('q', '').endswith('::push_back') and any(
        s['k'] == 'DeclRefExpr' and s['ref'].get('name') == 'completion' for s in sub(n['c'][0]))]
    if len(pushes) != 2:
        raise AnalysisBroken('%s: expected two completion.push_back sites (deep / shallow), found %d' % (f.q, len(pushes)))
    for pb in pushes:
        conds = []
        branch = None
        child = pb
        for a in f.ancestors(pb):
            if a['k'] == 'IfStmt':
                kids = [c for c in a['c'] if c is not None]
                c0 = strip(kids[0])
                in_then = any(x is child or x['id'] == child['id'] for x in sub(kids[1]))
                if c0['k'] == 'DeclRefExpr' and c0['ref'].get('name') == 'deep':
                    branch = 'deep' if in_then else 'shallow'
                    break
                conds.append(kids[0])
            if a['k'] in ('ForStmt', 'CXXForRangeStmt', 'WhileStmt'):
                break
        if branch is None:
            raise AnalysisBroken('%s: completion.push_back at %s is not under the deep/shallow test' % (f.q, locstr(pb)))
        feats = set()
        for c in conds:
            stack = [strip(c)]
            while stack:
                x = strip(stack.pop())
                if x['k'] == 'BinaryOperator' and x.get('op') == '&&':
                    stack += [x['c'][0], x['c'][1]]
                    continue
                neg = False
                while x['k'] == 'UnaryOperator' and x.get('op') == '!':
                    neg = not neg
                    x = strip(x['c'][0])
                q = x.get('callee', {}).get('q', '')
                if q.endswith('DOMUtils::isDescendant'):
                    par = any(s['k'] == 'CXXMemberCallExpr' and s.get('callee', {}).get('q', '').endswith('getParentNode') and any(
                        y['k'] == 'DeclRefExpr' and y['ref'].get('name') == 'history' for y in sub(s)) for s in sub(x['c'][-1]))
                    feats.add(('!' if neg else '') + ('isDescendant(state, parent(history))' if par else 'isDescendant(state, ?)'))
                elif q.endswith('isHistory'):
                    feats.add(('!' if neg else '') + 'isHistory(state)')
                elif x['k'] == 'BinaryOperator' and x.get('op') == '==' and all(any(s['k'] == 'CXXMemberCallExpr' and s.get('callee', {}).get('q', '').endswith('getParentNode') for s in sub(k_)) for k_ in x['c']):
                    feats.add(('!' if neg else '') + 'parent(state) == parent(history)')
                else:
                    feats.add(('!' if neg else '') + 'other<%s>' % fb.text(x)[:40])
        out[branch] = feats
    # liveness of the exclusion filter
    filt = [n for n in f.walk() if n.get('callee', {}).get('q', '').endswith('DOMUtils::isMember') and any(a['k'] == 'IfStmt' for a in f.ancestors(n))]
    maybe = set()
    changed = True
    while changed:
        changed = False
        for n in f.walk():
            if n['k'] != 'CXXMemberCallExpr':
                continue
            m = n.get('callee', {}).get('q', '').split('::')[-1]
            tgt = [s['ref'].get('name') for s in sub(n['c'][0]) if s['k'] == 'DeclRefExpr']
            if not tgt:
                continue
            if m == 'push_back' and tgt[0] not in maybe:
                maybe.add(tgt[0])
                changed = True
            if m in ('insert', 'merge', 'splice'):
                srcs = {s['ref'].get('name') for a_ in n['c'][1:] for s in sub(a_) if s['k'] == 'DeclRefExpr'} - {tgt[0]}
                if srcs & maybe and tgt[0] not in maybe:
                    maybe.add(tgt[0])
                    changed = True
    for n in filt:
        args = {s['ref'].get('name') for a_ in n['c'][1:] for s in sub(a_) if s['k'] == 'DeclRefExpr'}
        if args & maybe - {'completion'}:
            out['exclusion_live'] = True
    return out



def audit_rules(rep, fb):
    """R05.8 - R05.10 (audit round)"""
    rep.rule('R05.8', 'annotations that are read by index exist: an attribute that ChartToC::prepare writes only for elements that have some other attribute (targetBools only with a target) is read by the back-ends only under a test of its presence (indexing the empty string of a missing attribute is out of bounds; with libstdc++ it reads the previous value\'s bytes)')
    rep.rule('R05.9', 'preprocessing is linear in the nesting depth: each resortStates implementation (both engines, ChartToC) recurses into a child once, not once per sorting pass')
    rep.rule('R05.10', 'element kinds are recognised in prefixed documents too: the generators compare the local name of an element (or the prefixed name built with XML_PREFIX), never the qualified tag name with a bare literal')
    # R05.8: conditionally written *Bools attributes
    prep = next((f for f in fb.funcs.values() if f.q == 'uscxml::ChartToC::prepare'), None)
    if prep is None:
        raise AnalysisBroken('ChartToC::prepare not found')
    cond_written = {}
    for n in prep.walk():
        if n['k'] == 'CXXMemberCallExpr' and n.get('callee', {}).get('q', '').split('::')[-1] == 'setAttribute':
            lits = [x.get('str') for x in sub(n) if x['k'] == 'StringLiteral' and (x.get('str') or '').endswith('Bools')]
            if not lits:
                continue
            guards = [a_ for a_ in prep.ancestors(n) if a_['k'] == 'IfStmt' and any(x.get('callee', {}).get('q', '').split('::')[-1] == 'hasAttribute' for x in sub(a_['c'][0]))]
            if guards:
                cond_written[lits[0]] = n
    nreads = 0
    for f in fb.funcs.values():
        if not f.file.startswith('src/uscxml/transform/') or not f.d.get('cfg'):
            continue
        for n in f.walk():
            if n['k'] != 'CXXOperatorCallExpr' or n.get('op') != '[]':
                continue
            if len(n.get('c', [])) < 2:
                continue
            srcs = [n['c'][1]]
            b_ = strip(n['c'][1])
            if b_ is not None and b_['k'] == 'DeclRefExpr' and 'lid' in b_.get('ref', {}):
                # a local holding the attribute's value:  std::string targetSet = ATTR(transition, "targetBools");  targetSet[i]
                srcs += [d_['init'] for x in f.walk() if x['k'] == 'DeclStmt' for d_ in x.get('decls', []) if d_['lid'] == b_['ref']['lid'] and 'init' in d_]
            lits = [x.get('str') for s_ in srcs for x in sub(s_) if x['k'] == 'StringLiteral']
            hit = [l for l in lits if l in cond_written]
            if not hit or not any(x.get('callee', {}).get('q', '').split('::')[-1] == 'getAttribute' for s_ in srcs for x in sub(s_)):
                continue
            nreads += 1
            guarded = any(a_['k'] == 'IfStmt' and any(x.get('callee', {}).get('q', '').split('::')[-1] == 'hasAttribute' for x in sub(a_['c'][0])) and any(
                x['k'] == 'StringLiteral' and x.get('str') in (hit[0], hit[0][:-5]) for x in sub(a_['c'][0])) for a_ in f.ancestors(n)) or any(
                a_['k'] == 'IfStmt' and any(x.get('callee', {}).get('q', '').split('::')[-1] in ('size', 'length', 'empty') for x in sub(a_['c'][0])) for a_ in f.ancestors(n))
            rep.check(guarded, 'R05.8', '%s|%s[..]#%d' % (f.q.split('::')[-1], hit[0], n['loc'][1]), locstr(n), 'the annotation %s (written by prepare only for elements with a `%s` attribute) is indexed %s' % (
                hit[0], hit[0][:-5], 'under a presence test' if guarded else 'WITHOUT a presence test: for a targetless transition the empty string is indexed out of range and the emitted equation picks up the previous transition\'s targets'))
    if cond_written:
        rep.minimum('R05.8', nreads, 1, 'indexed reads of conditionally written annotations')
    else:
        rep.ok('R05.8', 'prepare', 'every *Bools annotation is written unconditionally')
    # R05.9
    fbe = facts.FactBase(['src/uscxml/interpreter/LargeMicroStep.cpp', 'src/uscxml/interpreter/FastMicroStep.cpp'])
    nrs = 0
    for fbx, q in ((fb, 'uscxml::ChartToC::resortStates'), (fbe, 'uscxml::LargeMicroStep::resortStates'), (fbe, 'uscxml::FastMicroStep::resortStates')):
        f = fbx.fn(q)
        nrs += 1
        rec = [n for n in f.walk() if n['k'] in ('CallExpr', 'CXXMemberCallExpr') and n.get('callee', {}).get('q', '') == q and any(a_['k'] in ('WhileStmt', 'ForStmt', 'DoStmt') for a_ in f.ancestors(n))]
        rep.check(len(rec) <= 1, 'R05.9', q.split('::')[1] + '::resortStates', locstr(rec[1]) if len(rec) > 1 else f.where(), '%s recurses into each child %d time(s)%s' % (q.split('::')[1] + '::resortStates', len(rec),
                  '' if len(rec) <= 1 else ': %d^depth calls - a chain of 17 nested states does not finish, for any of the three back-ends' % len(rec)))
    # R05.10
    nkind = 0
    for f in fb.funcs.values():
        if not f.file.startswith('src/uscxml/transform/') or not f.d.get('body'):
            continue
        for n in f.walk():
            q = n.get('callee', {}).get('q', '')
            is_cmp = (n['k'] == 'CallExpr' and q.split('::')[-1] == 'iequals') or (n['k'] == 'CXXOperatorCallExpr' and n.get('op') == '==')
            if not is_cmp:
                continue
            lits = [x.get('str') for x in sub(n) if x['k'] == 'StringLiteral']
            kinds = [l for l in lits if l in ('initial', 'history', 'state', 'parallel', 'final', 'transition', 'scxml', 'if', 'elseif', 'else', 'foreach', 'raise', 'send', 'cancel', 'log', 'assign',
                                              'script', 'invoke', 'param', 'content', 'donedata', 'data', 'datamodel', 'onentry', 'onexit', 'finalize')]
            if not kinds:
                continue
            uses_tag = any(x.get('callee', {}).get('q', '').split('::')[-1] == 'getTagName' for x in sub(n))
            if not uses_tag:
                continue
            nkind += 1
            prefixed = any(x.get('callee', {}).get('q', '').endswith('::str') or x['k'] == 'DeclRefExpr' and 'prefix' in (x.get('ref', {}).get('name') or '').lower() or x['k'] == 'MemberExpr' and 'prefix' in (x['ref'].get('name') or '').lower() for x in sub(n))
            rep.check(prefixed, 'R05.10', '%s|"%s"#%d' % (f.q.split('::')[-1], kinds[0], n['loc'][1]), locstr(n), 'the element kind "%s" is recognised by comparing the qualified tag name with %s' % (kinds[0],
                      'the prefixed literal' if prefixed else 'the BARE literal: in a document that uses a namespace prefix (<sc:initial>) the element is taken for an ordinary state, C and Promela then disagree about its transition'))
    if not nkind:
        rep.ok('R05.10', 'generators', 'no element kind is recognised by its qualified tag name')
    # R05.12 ids are compared in one form
    rep.rule('R05.12', 'target ids and state ids are compared in the same form: the membership test that fills targetBools compares the raw id tokens of the target attribute with the raw id of the state (an id escaped for C string output on one side only never equals its token when it contains a backslash or a quote)')
    mixed = []
    for n in prep.walk():
        if n['k'] == 'CallExpr' and n.get('callee', {}).get('q', '').startswith('std::find') and any(x['k'] == 'DeclRefExpr' and x.get('ref', {}).get('name') == 'targets' for x in sub(n)):
            if any(x.get('callee', {}).get('q', '').split('::')[-1] == 'escape' for a_ in n.get('c', [])[3:] for x in sub(a_)):
                mixed.append(n)
    rep.check(not mixed, 'R05.12', 'prepare|target id comparison', locstr(mixed[0]) if mixed else prep.where(), 'the ids of the target attribute are compared with %s' % (
        'the raw state id' if not mixed else 'the ESCAPED state id: a state id containing a backslash loses its target bit - the source is exited and nothing is entered (all three back-ends share the table)'))
    # R05.11 the transition domain works on effective targets
    rep.rule('R05.11', 'a history target stands for the states it will restore: getTransitionDomain (and with it exit set and conflicts) dereferences history pseudo-states among the targets (Appendix D getEffectiveTargetStates) instead of putting the <history> element itself into the LCCA')
    fbp = facts.FactBase(['src/uscxml/util/Predicates.cpp'])
    gtd = fbp.fn('uscxml::getTransitionDomain')
    helpers = [gtd] + [fbp.funcs[n['callee']['m']] for n in gtd.walk() if n.get('callee', {}).get('m') in fbp.funcs]
    aware = any(x.get('callee', {}).get('q', '').split('::')[-1] in ('isHistory', 'getEffectiveTargetStates') for h in helpers for x in h.walk())
    rep.check(aware, 'R05.11', 'Predicates.cpp::getTransitionDomain', gtd.where(), 'the transition domain is computed from %s' % ('the effective targets' if aware else
              'the RAW targets: for a1 -e-> h (deep history of a\'s parent P, a1 inside a) the <history> element enters the LCCA, the exit set contains a itself although the recommendation exits a1 only; both engines share the deviation'))


def run(rep, tier):
    rep.rule('R05.1', 'single writer, shared readers: the DOM annotations (orders, parent, child/ancestor/completion/target/exit-set/conflict bit strings) are written only by ChartToC::prepare/setStateCompletion/setHistoryCompletion; a back-end that reads a relation into a local uses it (a relation read and then ignored is computed some other way)')
    rep.rule('R05.2', 'loop-index consistency: inside a loop over the states (transitions) a relation bit string is indexed with the order attribute of an element that varies with that loop; a loop-invariant filter never selects anything')
    rep.rule('R05.3', 'vocabulary agreement: the element-name sets that define document / post-fix order are the same six names at every site (ChartToC::prepare, LargeMicroStep::init, FastMicroStep::init)')
    rep.rule('R05.4', 'conflict definition agreement: ChartToC::prepare and Predicates.cpp::conflicts use the same terms (source ancestry both ways, exit-set intersection; same source)')
    rep.rule('R05.5', 'shape of the shared helpers that define the tables: getTransitionDomain returns the source only for an internal transition with compound source whose targets ALL are descendants; findLCCA accepts the NEAREST ancestor that is compound and contains ALL states (quantifier-shape analysis on the CFG, flag idioms included)')
    rep.rule('R05.7', 'exit-set vocabulary: getExitSet collects exactly the kinds of state that can be active (state, parallel, final); pseudo-states never are')
    rep.rule('R05.6', 'history completion is defined alike in the transpiler tables and in both engines: deep = non-history descendants of the parent, shallow = non-history children, and the same answer to "are states covered by another history left out?" (liveness of the exclusion filter)')
    rep.assume('that Predicates.cpp computes the relations the recommendation defines for every state tree is decided only as far as R05.4/R05.5 go (conflict terms, domain/LCCA quantifier shape); getProperAncestors, getTargetStates and the DOM helpers are not analysed')
    fb = facts.FactBase(TUS)
    rep.covered(tus=len(TUS), extracted=fb.extracted, functions=len(fb.funcs))

    # ---- R05.1 (a) writers
    writers = {}
    for f in fb.funcs.values():
        for n in f.walk():
            if n.get('callee', {}).get('q', '').endswith('::setAttribute'):
                for k in x_literal(n['c'][1] if len(n.get('c', [])) > 1 else n):
                    if k in ANNOT:
                        writers.setdefault(k, set()).add(f.q)
    rep.minimum('R05.1', len(writers), 9, 'annotation attributes written')
    for k in sorted(writers):
        ok_fns = set(WRITERS_OK)
        if k == 'documentOrder':
            ok_fns |= {'writeElementInfo', 'writeElementInfoInvocation'}      # numbering of executable-content elements, not of states
        bad = sorted(q for q in writers[k] if not (q.startswith('uscxml::ChartToC::') and q.split('::')[-1] in ok_fns))
        rep.check(not bad, 'R05.1', 'writer|' + k, 'src/uscxml/transform/ChartToC.cpp', 'attribute %s is written by %s%s' % (k, sorted(q.split('uscxml::')[-1] for q in writers[k]), '' if not bad else ' (not a prepare-family function: %s)' % bad))
    # (b) readers per back-end, and relations read but ignored
    for cls in ('uscxml::ChartToC', 'uscxml::ChartToPromela', 'uscxml::ChartToVHDL'):
        read = set()
        ignored = []
        for f in fb.funcs.values():
            if f.rec != cls:
                continue
            for n in f.walk():
                if n['k'] == 'DeclStmt':
                    for d in n.get('decls', []):
                        if 'init' not in d:
                            continue
                        ks = [k for k in x_literal(d['init']) if k in RELATIONS]
                        if not ks or not any(s.get('callee', {}).get('q', '').endswith('getAttribute') for s in sub(d['init'])):
                            continue
                        read |= set(ks)
                        used = any(s['k'] == 'DeclRefExpr' and s['ref'].get('lid') == d['lid'] for s in f.walk())
                        if not used:
                            ignored.append((f, n, ks[0], d['name']))
                elif n.get('callee', {}).get('q', '').endswith('getAttribute'):
                    read |= {k for k in x_literal(n) if k in ANNOT}
        rep.ok('R05.1', 'reader|' + cls.split('::')[-1], 'reads %s' % sorted(read))
        if ignored:
            rep.note('R05.1: %s reads relations into locals it never uses (dead reads): %s' % (cls.split('::')[-1], ', '.join(sorted({'%s:%s' % (f.q.split('::')[-1], k) for f, n, k, var in ignored}))))
        # who may interpret the `initial` attribute: default completion is ChartToC::setStateCompletion's job; a back-end
        # that looks at `initial` itself derives the completion some other way than the shared table
        for f in fb.funcs.values():
            if f.rec != cls or (cls == 'uscxml::ChartToC' and f.q.split('::')[-1] in WRITERS_OK):
                continue
            uses = [n for n in f.walk() if n['k'] == 'DeclRefExpr' and n['ref'].get('name') == 'kXMLCharInitial' and any(a['k'] in ('CXXMemberCallExpr',) and a.get('callee', {}).get('q', '').endswith('getAttribute') for a in f.ancestors(n))]
            if uses:
                rep.fail('R05.1', '%s|interprets initial' % f.q.split('uscxml::')[-1].split('::')[0], locstr(uses[0]), '%s reads the `initial` attribute itself (%d site(s)): default completion in this output is not the completionBools table ChartToC computes (initial elements, multi-target initial lists and deep completions are not covered)' % (f.q.split('uscxml::')[-1], len(uses)))
    rep.ok('R05.1', 'initial-attribute', 'functions of the three back-ends scanned for their own interpretation of `initial`')

    # ---- R05.2
    nfil = 0
    for f in fb.funcs.values():
        if f.rec not in ('uscxml::ChartToC', 'uscxml::ChartToPromela', 'uscxml::ChartToVHDL'):
            continue
        for lp in f.walk():
            if lp['k'] != 'CXXForRangeStmt':
                continue
            lv = lp.get('range', {}).get('lid')
            rng = [s['ref']['name'] for c_ in lp.get('c', []) if c_ and c_['k'] == 'DeclStmt' for d in c_.get('decls', []) if d['name'].startswith('__range') and 'init' in d for s in sub(d['init']) if s['k'] == 'MemberExpr']
            if not rng or rng[0] not in ('_states', '_transitions'):
                continue
            body = lp['c'][-1]
            inner_locals = {d['lid'] for s in sub(body) if s['k'] == 'DeclStmt' for d in s.get('decls', [])} | {lv}
            # nested loops bring their own variables
            for s in sub(body):
                if s['k'] == 'CXXForRangeStmt' and s.get('range', {}).get('lid') is not None:
                    inner_locals.add(s['range']['lid'])
            for st in (body.get('c', []) if body['k'] == 'CompoundStmt' else [body]):
                if st['k'] != 'IfStmt':
                    continue
                cond = st['c'][0]
                subs = [s for s in sub(cond) if s['k'] == 'CXXOperatorCallExpr' and s.get('op') == '[]' and 'basic_string' in s.get('callee', {}).get('q', '')]
                for sc in subs:
                    idx = sc['c'][2] if len(sc['c']) > 2 else None
                    if idx is None or not any(k in ('documentOrder', 'postFixOrder') for k in x_literal(idx)):
                        continue
                    nfil += 1
                    refs = {s['ref'].get('lid') for s in sub(sc) if s['k'] == 'DeclRefExpr' and 'lid' in s.get('ref', {})}
                    # a bit string taken from the loop element (declared in the body) makes the test vary as well
                    for s in sub(sc['c'][1]):
                        if s['k'] == 'DeclRefExpr' and s['ref'].get('lid') in inner_locals:
                            refs.add(s['ref']['lid'])
                    varies = bool(refs & inner_locals)
                    ordinal = sum(1 for x in f.walk() if x['k'] == 'CXXOperatorCallExpr' and x.get('op') == '[]' and x['loc'][1] < sc['loc'][1])
                    rep.check(varies, 'R05.2', '%s|filter#%d' % (f.q.split('uscxml::')[-1], ordinal), locstr(sc),
                              'inside `for (%s : %s)` the relation bit string is indexed with %s: %s' % (lp['range'].get('var'), rng[0], fb.text(idx)[:70].replace('\n', ' '), 'varies with the loop' if varies else 'LOOP-INVARIANT: the same bit is tested for every element'))
    rep.minimum('R05.2', nfil, 3, 'bit-string filters inside loops over states/transitions')

    # ---- R05.3
    sites = []
    for q in ('uscxml::ChartToC::prepare', 'uscxml::LargeMicroStep::init', 'uscxml::FastMicroStep::init'):
        f = fb.fn(q)
        for n in f.walk():
            if n['k'] in ('InitListExpr', 'CXXStdInitializerListExpr'):
                lits = frozenset(x for x in (s['str'] for s in sub(n) if s['k'] == 'StringLiteral' and 'str' in s) if x.isalpha())
                if {'state', 'parallel'} <= lits and n['k'] == 'InitListExpr':
                    sites.append((q, n, lits))
    rep.minimum('R05.3', len(sites), 5, 'element-name sets defining document / post-fix order')
    for q, n, lits in sites:
        rep.check(lits == STATE_VOCAB, 'R05.3', '%s|%d' % (q.split('uscxml::')[-1], sum(1 for q2, n2, _ in sites if q2 == q and n2['loc'][1] < n['loc'][1])), locstr(n), 'order is defined over %s' % sorted(lits))

    # ---- R05.4
    check_conflict_terms(rep, 'R05.4', fb)

    # ---- R05.5
    ns, na = _domain.check(rep, 'R05.5', fb, [fb.fn('uscxml::getTransitionDomain'), fb.fn('uscxml::findLCCA')], 'Predicates')
    rep.minimum('R05.5', ns + na, 2, 'shortcut / acceptance sites of the domain helpers')
    xs = fb.fn('uscxml::getExitSet')
    uses = [n for n in xs.walk() if n.get('callee', {}).get('q', '').endswith('getTransitionDomain')]
    rep.check(bool(uses), 'R05.5', 'getExitSet|uses the transition domain', xs.where(), 'getExitSet derives the exit set from getTransitionDomain: %s' % bool(uses))

    # ---- R05.6
    check_history_completion(rep, 'R05.6', fb)
    # ---- R05.7
    check_exit_set_vocabulary(rep, 'R05.7', fb)
    # ---- R05.8 .. R05.10
    audit_rules(rep, fb)
