"""C05 - transpilers compute and share the chart's structural relations: single writer / shared readers of the DOM
annotations, loop-index consistency in table consumers, vocabulary and conflict-definition agreement (DESIGN 4/C05)."""
from .. import facts, path, cfg as cfgm, tab
from ..facts import AnalysisBroken, strip, sub, locstr

TUS = ['src/uscxml/transform/ChartToC.cpp', 'src/uscxml/transform/ChartToPromela.cpp', 'src/uscxml/transform/ChartToVHDL.cpp',
       'src/uscxml/util/Predicates.cpp', 'src/uscxml/interpreter/LargeMicroStep.cpp', 'src/uscxml/interpreter/FastMicroStep.cpp', 'src/uscxml/util/DOM.cpp']
ANNOT = ('documentOrder', 'postFixOrder', 'parent', 'childBools', 'ancBools', 'completionBools', 'targetBools', 'exitSetBools', 'conflictBools', 'hasHistoryChild')
RELATIONS = ('childBools', 'ancBools', 'completionBools', 'targetBools', 'exitSetBools', 'conflictBools')
WRITERS_OK = {'prepare', 'setStateCompletion', 'setHistoryCompletion'}
STATE_VOCAB = frozenset({'scxml', 'state', 'parallel', 'final', 'history', 'initial'})


def x_literal(n):
    """string literal K of an X("K") construction inside node n"""
    out = []
    for s in sub(n):
        if s['k'] in ('CXXConstructExpr', 'CXXTemporaryObjectExpr', 'CXXFunctionalCastExpr') and s.get('callee', {}).get('q', '').startswith('uscxml::X::X'):
            for x in sub(s):
                if x['k'] == 'StringLiteral' and 'str' in x:
                    out.append(x['str'])
    return out


def run(rep, tier):
    rep.rule('R05.1', 'single writer, shared readers: the DOM annotations (orders, parent, child/ancestor/completion/target/exit-set/conflict bit strings) are written only by ChartToC::prepare/setStateCompletion/setHistoryCompletion; a back-end that reads a relation into a local uses it (a relation read and then ignored is computed some other way)')
    rep.rule('R05.2', 'loop-index consistency: inside a loop over the states (transitions) a relation bit string is indexed with the order attribute of an element that varies with that loop; a loop-invariant filter never selects anything')
    rep.rule('R05.3', 'vocabulary agreement: the element-name sets that define document / post-fix order are the same six names at every site (ChartToC::prepare, LargeMicroStep::init, FastMicroStep::init)')
    rep.rule('R05.4', 'conflict definition agreement: ChartToC::prepare and Predicates.cpp::conflicts use the same terms (source ancestry both ways, exit-set intersection; same source)')
    rep.assume('that Predicates.cpp computes the relations the recommendation defines for every state tree is not decided')
    fb = facts.FactBase(TUS)
    rep.covered(tus=len(TUS), extracted=fb.extracted, functions=len(fb.funcs))

    # ---- R05.1 (a) writers
    writers = {}
    for f in fb.funcs.values():
        for n in f.walk():
            if n.get('callee', {}).get('q', '').endswith('::setAttribute'):
                for k in x_literal(n['c'][1] if len(n.get('c', [])) > 1 else n):
                    if k in ANNOT:
                        writers.setdefault(k, set()).add(f.q)
    rep.minimum('R05.1', len(writers), 9, 'annotation attributes written')
    for k in sorted(writers):
        ok_fns = set(WRITERS_OK)
        if k == 'documentOrder':
            ok_fns |= {'writeElementInfo', 'writeElementInfoInvocation'}      # numbering of executable-content elements, not of states
        bad = sorted(q for q in writers[k] if not (q.startswith('uscxml::ChartToC::') and q.split('::')[-1] in ok_fns))
        rep.check(not bad, 'R05.1', 'writer|' + k, 'src/uscxml/transform/ChartToC.cpp', 'attribute %s is written by %s%s' % (k, sorted(q.split('uscxml::')[-1] for q in writers[k]), '' if not bad else ' (not a prepare-family function: %s)' % bad))
    # (b) readers per back-end, and relations read but ignored
    for cls in ('uscxml::ChartToC', 'uscxml::ChartToPromela', 'uscxml::ChartToVHDL'):
        read = set()
        ignored = []
        for f in fb.funcs.values():
            if f.rec != cls:
                continue
            for n in f.walk():
                if n['k'] == 'DeclStmt':
                    for d in n.get('decls', []):
                        if 'init' not in d:
                            continue
                        ks = [k for k in x_literal(d['init']) if k in RELATIONS]
                        if not ks or not any(s.get('callee', {}).get('q', '').endswith('getAttribute') for s in sub(d['init'])):
                            continue
                        read |= set(ks)
                        used = any(s['k'] == 'DeclRefExpr' and s['ref'].get('lid') == d['lid'] for s in f.walk())
                        if not used:
                            ignored.append((f, n, ks[0], d['name']))
                elif n.get('callee', {}).get('q', '').endswith('getAttribute'):
                    read |= {k for k in x_literal(n) if k in ANNOT}
        rep.ok('R05.1', 'reader|' + cls.split('::')[-1], 'reads %s' % sorted(read))
        if ignored:
            rep.note('R05.1: %s reads relations into locals it never uses (dead reads): %s' % (cls.split('::')[-1], ', '.join(sorted({'%s:%s' % (f.q.split('::')[-1], k) for f, n, k, var in ignored}))))
        # who may interpret the `initial` attribute: default completion is ChartToC::setStateCompletion's job; a back-end
        # that looks at `initial` itself derives the completion some other way than the shared table
        for f in fb.funcs.values():
            if f.rec != cls or (cls == 'uscxml::ChartToC' and f.q.split('::')[-1] in WRITERS_OK):
                continue
            uses = [n for n in f.walk() if n['k'] == 'DeclRefExpr' and n['ref'].get('name') == 'kXMLCharInitial' and any(a['k'] in ('CXXMemberCallExpr',) and a.get('callee', {}).get('q', '').endswith('getAttribute') for a in f.ancestors(n))]
            if uses:
                rep.fail('R05.1', '%s|interprets initial' % f.q.split('uscxml::')[-1], locstr(uses[0]), '%s reads the `initial` attribute itself (%d site(s)): default completion in this output is not the completionBools table ChartToC computes (initial elements, multi-target initial lists and deep completions are not covered)' % (f.q.split('uscxml::')[-1], len(uses)))
    rep.ok('R05.1', 'initial-attribute', 'functions of the three back-ends scanned for their own interpretation of `initial`')

    # ---- R05.2
    nfil = 0
    for f in fb.funcs.values():
        if f.rec not in ('uscxml::ChartToC', 'uscxml::ChartToPromela', 'uscxml::ChartToVHDL'):
            continue
        for lp in f.walk():
            if lp['k'] != 'CXXForRangeStmt':
                continue
            lv = lp.get('range', {}).get('lid')
            rng = [s['ref']['name'] for c_ in lp.get('c', []) if c_ and c_['k'] == 'DeclStmt' for d in c_.get('decls', []) if d['name'].startswith('__range') and 'init' in d for s in sub(d['init']) if s['k'] == 'MemberExpr']
            if not rng or rng[0] not in ('_states', '_transitions'):
                continue
            body = lp['c'][-1]
            inner_locals = {d['lid'] for s in sub(body) if s['k'] == 'DeclStmt' for d in s.get('decls', [])} | {lv}
            # nested loops bring their own variables
            for s in sub(body):
                if s['k'] == 'CXXForRangeStmt' and s.get('range', {}).get('lid') is not None:
                    inner_locals.add(s['range']['lid'])
            for st in (body.get('c', []) if body['k'] == 'CompoundStmt' else [body]):
                if st['k'] != 'IfStmt':
                    continue
                cond = st['c'][0]
                subs = [s for s in sub(cond) if s['k'] == 'CXXOperatorCallExpr' and s.get('op') == '[]' and 'basic_string' in s.get('callee', {}).get('q', '')]
                for sc in subs:
                    idx = sc['c'][2] if len(sc['c']) > 2 else None
                    if idx is None or not any(k in ('documentOrder', 'postFixOrder') for k in x_literal(idx)):
                        continue
                    nfil += 1
                    refs = {s['ref'].get('lid') for s in sub(sc) if s['k'] == 'DeclRefExpr' and 'lid' in s.get('ref', {})}
                    # a bit string taken from the loop element (declared in the body) makes the test vary as well
                    for s in sub(sc['c'][1]):
                        if s['k'] == 'DeclRefExpr' and s['ref'].get('lid') in inner_locals:
                            refs.add(s['ref']['lid'])
                    varies = bool(refs & inner_locals)
                    ordinal = sum(1 for x in f.walk() if x['k'] == 'CXXOperatorCallExpr' and x.get('op') == '[]' and x['loc'][1] < sc['loc'][1])
                    rep.check(varies, 'R05.2', '%s|filter#%d' % (f.q.split('uscxml::')[-1], ordinal), locstr(sc),
                              'inside `for (%s : %s)` the relation bit string is indexed with %s: %s' % (lp['range'].get('var'), rng[0], fb.text(idx)[:70].replace('\n', ' '), 'varies with the loop' if varies else 'LOOP-INVARIANT: the same bit is tested for every element'))
    rep.minimum('R05.2', nfil, 3, 'bit-string filters inside loops over states/transitions')

    # ---- R05.3
    sites = []
    for q in ('uscxml::ChartToC::prepare', 'uscxml::LargeMicroStep::init', 'uscxml::FastMicroStep::init'):
        f = fb.fn(q)
        for n in f.walk():
            if n['k'] in ('InitListExpr', 'CXXStdInitializerListExpr'):
                lits = frozenset(x for x in (s['str'] for s in sub(n) if s['k'] == 'StringLiteral' and 'str' in s) if x.isalpha())
                if {'state', 'parallel'} <= lits and n['k'] == 'InitListExpr':
                    sites.append((q, n, lits))
    rep.minimum('R05.3', len(sites), 5, 'element-name sets defining document / post-fix order')
    for q, n, lits in sites:
        rep.check(lits == STATE_VOCAB, 'R05.3', '%s|%d' % (q.split('uscxml::')[-1], sum(1 for q2, n2, _ in sites if q2 == q and n2['loc'][1] < n['loc'][1])), locstr(n), 'order is defined over %s' % sorted(lits))

    # ---- R05.4
    def terms(node_iter):
        t = set()
        for s in node_iter:
            q = s.get('callee', {}).get('q', '')
            if q.endswith('DOMUtils::isDescendant'):
                t.add('source-ancestry')
            if q.endswith('DOMUtils::hasIntersection') and any(x.get('callee', {}).get('q', '').endswith('getExitSet') for x in sub(s)):
                t.add('exit-set-intersection')
        return t
    pc = fb.fn('uscxml::conflicts')
    tp = terms(pc.walk())
    n_anc = sum(1 for s in pc.walk() if s.get('callee', {}).get('q', '').endswith('DOMUtils::isDescendant'))
    prep = fb.fn('uscxml::ChartToC::prepare')
    cif = None
    for n in prep.walk():
        if n['k'] == 'IfStmt' and terms(sub(n['c'][0])) >= {'exit-set-intersection'}:
            cif = n
    if cif is None:
        raise AnalysisBroken('ChartToC::prepare: conflict test not found')
    tc = terms(sub(cif['c'][0]))
    n_anc_c = sum(1 for s in sub(cif['c'][0]) if s.get('callee', {}).get('q', '').endswith('DOMUtils::isDescendant'))
    rep.check(tp == tc == {'source-ancestry', 'exit-set-intersection'} and n_anc == n_anc_c == 2, 'R05.4', 'conflict terms', locstr(cif),
              'Predicates.cpp::conflicts uses %s (%d ancestry tests); ChartToC::prepare uses %s (%d)' % (sorted(tp), n_anc, sorted(tc), n_anc_c))
