"""C09 - delayed events fire once, unless cancelled; cancel/fire races are benign (DESIGN 4/C09)."""
from .. import facts, lock, path, cfg as cfgm, tab
from ..facts import AnalysisBroken, strip, sub, locstr
from . import _conc

DQ = 'uscxml::BasicDelayedEventQueue'
QMUTEX = 'uscxml::BasicEventQueue::_mutex'


def member_uses(fb, rec, name):
    res = []
    for f in fb.funcs.values():
        for n in f.walk():
            if n['k'] == 'MemberExpr' and n.get('ref', {}).get('name') == name and n['ref'].get('rec') == rec:
                res.append((f, n))
    return res


def run(rep, tier):
    rep.rule('R09.1', 'no dead-lock: the lock-order graph over mutexes (per instance role), libevent callback pseudo-locks CB(f) (held while f runs, acquired by blocking event_del/event_free) and thread pseudo-locks T(r) (acquired by join) has no cycle through the delayed-event machinery')
    rep.rule('R09.2', 'timer lifetime: every event_free of a pending timer happens in the same critical section (same guard) as the erase of the _callbackData entry that exposes it')
    rep.rule('R09.3', 'delivery exactly once: every path of timerCallback either returns on the not-found test or calls eventReady exactly once; timers are created without EV_PERSIST')
    rep.rule('R09.4', 'cancel completeness: InterpreterImpl::cancelDelayed walks all of _delayedEventTargets and, for a match, both cancels in the queue and erases the entry; the queue\'s cancelDelayed does event_del, event_free and erase on the found entry')
    rep.rule('R09.5', 'bookkeeping under lock: every access to _delayedEventTargets holds _delayMutex; every access to _callbackData holds the queue mutex')
    rep.rule('R09.6', 'unit tables: delay units map to milliseconds as {ms:1, s:1000, none:1}; the timeval is {ms/1000, (ms%1000)*1000}')
    rep.assume('libevent 2.1: event_del/event_free block while the event\'s callback runs in another thread; a timer without EV_PERSIST fires at most once')
    rep.assume('"not before its delay has elapsed" (wall-clock timing) is not decided')
    c = _conc.Conc()
    fb, la = c.fb, c.la
    rep.covered(tus=len(fb.tus), extracted=fb.extracted, functions=len(fb.funcs), lock_order_nodes=len({n for e in c.lo.edges for n in e}),
                lock_order_edges=len(c.lo.edges), elementary_cycles=len(c.all_cycles))

    # ---- R09.1
    def anchored(n):
        return '@_delayQueue' in n or '_delayMutex@' in n or 'CB(timerCallback)' in n or 'CB(dummyCallback)' in n
    mine, other = _conc.report_cycles(rep, c, 'R09.1', anchored, 'delayed-event queue / timer thread')
    rep.minimum('R09.1', len(c.lo.edges), 40, 'lock-order edges')
    nodes = {n for e in c.lo.edges for n in e}
    if not any('CB(timerCallback)' in n for n in nodes) or not any(n.startswith('T(BasicDelayedEventQueue::run)') for n in nodes):
        raise AnalysisBroken('pseudo-locks of the delayed queue (CB(timerCallback), T(run)) are missing from the lock-order graph')
    if not mine:
        rep.ok('R09.1', 'acyclic', 'no cycle through the delayed-event machinery among %d edges' % len(c.lo.edges))
    rep.ok('R09.1', 'graph', '%d nodes, %d edges, %d minimal cycles (%d outside this property: %s)' % (
        len(nodes), len(c.lo.edges), len(mine) + len(other), len(other), '; '.join(' > '.join(x) for x in other)[:300]))

    # ---- R09.2
    frees = []
    for f in fb.funcs.values():
        if f.rec != DQ:
            continue
        fl = None
        defs_ = None
        for n in f.walk():
            is_free = n.get('callee', {}).get('q') == 'event_free'
            timer = is_free and any(s['k'] == 'MemberExpr' and s['ref']['name'] == 'event' for s in sub(n))
            if is_free and not timer:
                # the timer handed through a parameter / local (an extracted `disarmAndFreeTimer(struct event*)`)
                defs_ = defs_ if defs_ is not None else path.local_defs(f)
                for x in sub(n):
                    if x['k'] == 'DeclRefExpr' and x.get('ref', {}).get('lid') in defs_:
                        if any(y['k'] == 'MemberExpr' and y['ref'].get('name') == 'event' for d_ in defs_[x['ref']['lid']] for y in sub(d_)):
                            timer = True
            if is_free and timer:
                fl = fl or la.fl(f)
                frees.append((f, n, fl))
    rep.minimum('R09.2', len(frees), 3, 'event_free sites for pending timers')
    for f, n, fl in frees:
        erases = [e for e in f.walk() if e['k'] == 'CXXMemberCallExpr' and e.get('callee', {}).get('q', '').endswith('::erase') and any(
            s['k'] == 'MemberExpr' and s['ref'].get('name') == '_callbackData' for s in sub(e['c'][0]))]
        # same guard instance: the set of (guard lid) live at both sites
        def guards_at(node):
            x = node
            while x is not None and x['id'] not in fl.before:
                x = f.parent(x)
            if x is None:
                return set()
            # recompute which guard variables are live: a guard is live at el when el is in its scope and after its declaration
            live = set()
            for lid, (mu, scope, decl, deferred) in fl.guards.items():
                if x['id'] in scope and mu in fl.before[x['id']]:
                    live.add(lid)
            return live
        gf = guards_at(n)
        ok = any(gf & guards_at(e) for e in erases)
        rep.check(ok, 'R09.2', '%s|event_free' % f.q, locstr(n), 'event_free and the erase of its _callbackData entry are %s (guards at free: %d, erase sites: %d)' % (
            'in one critical section' if ok else 'NOT in one critical section: the entry stays visible with a freed timer', len(gf), len(erases)))

    # ---- R09.3
    tc = fb.fn(DQ + '::timerCallback')
    g = path.EHCFG(tc)
    ev = {}
    for n in tc.walk():
        if n.get('callee', {}).get('q', '').endswith('::eventReady'):
            ev[n['id']] = 'D'
        if n['k'] == 'ReturnStmt':
            # guarded by the not-found test?
            guard = None
            for a in tc.ancestors(n):
                if a['k'] == 'IfStmt':
                    guard = a
                    break
            nf = guard is not None and any(s.get('callee', {}).get('q', '').endswith('::find') for s in sub(guard['c'][0])) and any(
                s.get('callee', {}).get('q', '').endswith('::end') for s in sub(guard['c'][0]))
            ev[n['id']] = 'Rnf' if nf else 'R?'
    d = path.make_dfa({'s': {'D': 'd', 'Rnf': 'r'}, 'd': {}, 'r': {}})
    path.ALPHABET_CACHE[id(d)] |= {'R?'}
    viol, states = path.check_dfa(g, ev, d, 's', {'d', 'r'})
    if 'D' not in ev.values():
        raise AnalysisBroken('timerCallback no longer calls eventReady')
    rep.check(not viol, 'R09.3', 'timerCallback|exactly-once', tc.where(), 'paths: not-found return | exactly one eventReady (%d product states)%s' % (
        states, '' if not viol else '; offending: %s in state %s' % (viol[0].get('event', viol[0]['kind']), viol[0]['state'])))
    enq = fb.fn(DQ + '::enqueueDelayed')
    news = [n for n in enq.walk() if n.get('callee', {}).get('q') == 'event_new']
    if not news:
        raise AnalysisBroken('enqueueDelayed no longer creates the timer with event_new')
    for n in news:
        flags = tab.const_of(n['c'][3])
        rep.check(flags is not None and not (flags & 0x10), 'R09.3', 'enqueueDelayed|no EV_PERSIST', locstr(n), 'event_new flags = %s (EV_PERSIST = 0x10 must be clear)' % flags)

    # ---- R09.4
    cd = fb.fn('uscxml::InterpreterImpl::cancelDelayed')
    gcd = cfgm.CFG(cd)
    loops = [n for n in cd.walk() if n['k'] in ('ForStmt', 'WhileStmt', 'CXXForRangeStmt')]
    okloop = False
    both = False
    fn_names = {s_.get('ref', {}).get('name') for s_ in cd.walk()}
    fn_calls = {s_.get('callee', {}).get('q', '').split('::')[-1] for s_ in cd.walk() if s_.get('callee')}
    walk_loops = []
    for lp in loops:
        hdr_names = {s_.get('ref', {}).get('name') for s_ in sub(lp)}
        hdr_calls = {s_.get('callee', {}).get('q', '').split('::')[-1] for s_ in sub(lp) if s_.get('callee')}
        # for (it = m.begin(); it != m.end();)   /   it = m.begin(); while (it != m.end())   /   range-for over m
        if '_delayedEventTargets' in hdr_names and ('end' in hdr_calls or lp['k'] == 'CXXForRangeStmt') and ('begin' in fn_calls or lp['k'] == 'CXXForRangeStmt'):
            okloop = True
            walk_loops.append(lp)
            body = lp['c'][-1]
            can = [x for x in sub(body) if x.get('callee', {}).get('q', '').endswith('DelayedEventQueue::cancelDelayed')]
            era = [x for x in sub(body) if x.get('callee', {}).get('q', '').endswith('::erase') and any(y.get('ref', {}).get('name') == '_delayedEventTargets' for y in sub(x))]
            # for a match both happen: one dominates the other (same branch), whatever the form of the test
            if can and era and all(x['id'] in gcd.pos for x in can + era):
                both = any(gcd.dominates(a['id'], b['id']) or gcd.dominates(b['id'], a['id']) for a in can for b in era)
    early = [s_ for lp in walk_loops for s_ in sub(lp['c'][-1]) if s_['k'] in ('BreakStmt', 'ReturnStmt', 'GotoStmt')]
    rep.check(okloop and both and not early, 'R09.4', 'InterpreterImpl::cancelDelayed', cd.where(), 'walks _delayedEventTargets begin..end: %s; a match is cancelled in the queue and erased: %s; no early exit from the loop (every match is visited): %s' % (okloop, both, not early))
    qcd = fb.fn(DQ + '::cancelDelayed')
    for st in sub(qcd.d['body']):
        pass
    ifs = [n for n in qcd.walk() if n['k'] == 'IfStmt']
    found = False
    for i in ifs:
        tcalls = [x.get('callee', {}).get('q', '') for x in sub(i['c'][1]) if x.get('callee')]
        if 'event_del' in tcalls and 'event_free' in tcalls and any(q.endswith('::erase') for q in tcalls):
            found = True
    rep.check(found, 'R09.4', DQ + '::cancelDelayed', qcd.where(), 'found entry: event_del + event_free + erase: %s' % found)

    # ---- R09.5
    for rec, name, mu in (('uscxml::InterpreterImpl', '_delayedEventTargets', ('this', 'uscxml::InterpreterImpl::_delayMutex')),
                          (DQ, '_callbackData', ('this', QMUTEX))):
        uses = member_uses(fb, rec, name)
        rep.minimum('R09.5', len(uses), 5, 'uses of ' + name)
        for f, n in uses:
            if f.q.endswith('::' + rec.split('::')[-1]) or '::~' in f.q:
                continue      # constructor / destructor: no concurrent access to the object yet / any more
            if not f.file.startswith('src/'):
                rep.note('R09.5: %s (%s) is contrib code outside this property\'s anchors; access to %s not judged' % (f.q, f.file, name))
                continue
            held = la.held(f, n)
            ok = mu in held or (f.d.get('static') and any(m == mu[1] for _, m in held))
            ordinal = sum(1 for f2, n2 in uses if f2 is f and n2['loc'][1] < n['loc'][1])
            rep.check(ok, 'R09.5', '%s|%s#%d' % (f.q, name, ordinal), locstr(n), '%s accessed in %s holding %s' % (name, f.q, sorted(m.split('::')[-1] for _, m in held) or 'NOTHING'))

    # ---- R09.6
    ps = fb.fn('uscxml::BasicContentExecutor::processSend')
    bool_defs = {}
    for n in ps.walk():
        if n['k'] == 'DeclStmt':
            for d in n.get('decls', []):
                if (d.get('t') or '').replace('const ', '').strip() in ('bool', '_Bool') and d.get('init') is not None:
                    bool_defs[d['lid']] = d['init']

    def unit_truth(c, u):
        """truth of condition c when the delay unit is the string u (None = does not depend on the unit / unknown)"""
        c = strip(c)
        if c is None:
            return None
        k = c['k']
        if k == 'BinaryOperator' and c.get('op') in ('&&', '||'):
            a, b = unit_truth(c['c'][0], u), unit_truth(c['c'][1], u)
            if c['op'] == '||':
                return True if (a is True or b is True) else False if (a is False and b is False) else None
            return False if (a is False or b is False) else True if (a is True and b is True) else None
        if k == 'UnaryOperator' and c.get('op') == '!':
            v = unit_truth(c['c'][0], u)
            return None if v is None else not v
        if k == 'DeclRefExpr' and c.get('ref', {}).get('lid') in bool_defs:
            return unit_truth(bool_defs[c['ref']['lid']], u)
        mentions_unit = any(x.get('ref', {}).get('name') == 'unit' for x in sub(c))
        if not mentions_unit:
            return None
        q = c.get('callee', {}).get('q', '')
        lits = [x['str'] for x in sub(c) if x['k'] == 'StringLiteral' and 'str' in x]
        if k == 'CallExpr' and q.endswith('iequals') and lits:
            return lits[0].lower() == u.lower()
        if k == 'CXXMemberCallExpr' and q.endswith('::empty'):
            return u == ''
        if k == 'CXXMemberCallExpr' and q.endswith('::compare') and lits:
            return None
        if k in ('BinaryOperator', 'CXXOperatorCallExpr') and c.get('op') in ('==', '!='):
            kids = c['c'] if k == 'BinaryOperator' else c['c'][1:]
            sizecall = any(x.get('callee', {}).get('q', '').endswith(('::length', '::size')) for x in sub(c))
            zero = any(tab.const_of(x) == 0 for x in kids)
            res = None
            if sizecall and zero:
                res = (u == '')
            elif lits:
                res = (lits[0] == u)
            if res is None:
                return None
            return res if c['op'] == '==' else not res
        return None

    def multiplier(stmt):
        assigns = [s_ for s_ in sub(stmt) if s_['k'] == 'BinaryOperator' and s_.get('op') == '=' and any(x.get('ref', {}).get('name') == 'delayMs' for x in sub(s_['c'][0]))]
        if not assigns:
            return None
        mult = 1
        # the value may be computed into a local first (`double ms = x * 1000; delayMs = clamp(ms);`)
        linit = {d_['lid']: d_['init'] for s_ in sub(stmt) if s_['k'] == 'DeclStmt' for d_ in s_.get('decls', []) if isinstance(d_.get('init'), dict) and 'lid' in d_}
        exprs = list(sub(assigns[0]['c'][1]))
        for x_ in list(exprs):
            if x_['k'] == 'DeclRefExpr' and x_.get('ref', {}).get('lid') in linit:
                exprs += list(sub(linit[x_['ref']['lid']]))
        for s_ in exprs:
            if s_['k'] == 'BinaryOperator' and s_.get('op') == '*':
                for side in s_['c']:
                    cv = tab.const_of(side)
                    if cv is not None:
                        mult = cv
        return mult
    chains = []
    for n in ps.walk():
        if n['k'] == 'IfStmt' and not any(a['k'] == 'IfStmt' and a['c'] and n in [c_ for c_ in a['c'][2:] if c_ is not None] for a in ps.ancestors(n)):
            chain, els = tab.if_chain(n)
            if any(unit_truth(cond, 'ms') is not None for cond, then in chain):
                chains.append((chain, els))
    if not chains:
        raise AnalysisBroken('processSend: the dispatch on the delay unit was not found')
    table = {}
    for u in ('ms', 's', ''):
        for chain, els in chains[:1]:
            hit = None
            for cond, then in chain:
                v = unit_truth(cond, u)
                if v is None:
                    raise AnalysisBroken('processSend: a condition of the unit dispatch cannot be evaluated for unit "%s": %s' % (u, fb.text(cond)[:60]))
                if v:
                    hit = then
                    break
            if hit is not None:
                m = multiplier(hit)
                if m is not None:
                    table[u] = m
    rep.check(table == {'ms': 1, 's': 1000, '': 1}, 'R09.6', 'processSend|units', ps.where(), 'unit -> multiplier table extracted: %s (expected {ms:1, s:1000, "":1})' % table)
    tv = None
    for n in enq.walk():
        if n['k'] == 'DeclStmt' and n.get('decls') and 'timeval' in n['decls'][0]['t'] and 'init' in n['decls'][0]:
            tv = n['decls'][0]['init']
    if tv is None:
        raise AnalysisBroken('timeval initialiser not found in enqueueDelayed')
    il = tv
    while il and il['k'] != 'InitListExpr' and il.get('c'):
        il = il['c'][0]
    fields = il.get('c', []) if il else []
    defs = path.local_defs(enq)
    delay_param = [p_ for p_ in enq.d['params'] if p_['name'] == 'delayMs']
    if not delay_param or len(fields) != 2:
        raise AnalysisBroken('enqueueDelayed: delayMs parameter / two timeval fields not found')
    YEAR_MS = 365 * 24 * 3600 * 1000
    narrowing = []

    def width(t):
        t = t.replace('const ', '').strip()
        if t in ('int32_t', 'int', '__int32_t', 'signed int', 'long int32_t'):
            return (-(1 << 31), (1 << 31) - 1)
        if t in ('uint32_t', 'unsigned int', '__uint32_t'):
            return (0, (1 << 32) - 1)
        if t in ('short', 'int16_t'):
            return (-(1 << 15), (1 << 15) - 1)
        if t in ('size_t', 'unsigned long', 'uint64_t', 'std::size_t', '__suseconds_t', '__time_t', 'long', 'int64_t', 'time_t', 'suseconds_t', 'unsigned long long', 'long long'):
            return (-(1 << 63), (1 << 64) - 1)
        return None

    def norm(n, depth=0):
        """(normal form string, (lo, hi)) of an integer expression over delayMs, following local definitions"""
        k = n['k']
        if k in ('ImplicitCastExpr', 'CXXStaticCastExpr', 'CStyleCastExpr', 'CXXFunctionalCastExpr', 'ParenExpr', 'ConstantExpr'):
            f_, iv = norm(n['c'][0], depth)
            w = width(n.get('t', '')) if k != 'ParenExpr' else None
            if w is not None and iv is not None and (iv[0] < w[0] or iv[1] > w[1]):
                narrowing.append((n, iv, n.get('t')))
                iv = w
            return f_, iv
        cv = tab.const_of(n)
        if cv is not None and k in ('IntegerLiteral',):
            return str(cv), (cv, cv)
        if k == 'DeclRefExpr':
            lid = n['ref'].get('lid')
            if lid == delay_param[0]['lid']:
                return 'delayMs', (0, YEAR_MS)
            if lid in defs and len(defs[lid]) == 1 and depth < 4:
                f_, iv = norm(defs[lid][0], depth + 1)
                w = width(n.get('t', ''))
                if w is not None and iv is not None and (iv[0] < w[0] or iv[1] > w[1]):
                    narrowing.append((n, iv, n.get('t')))
                    iv = w
                return f_, iv
            return n['ref']['name'], None
        if k == 'BinaryOperator' and n.get('op') in ('+', '-', '*', '/', '%'):
            (fa, ia), (fb_, ib) = norm(n['c'][0], depth), norm(n['c'][1], depth)
            iv = None
            if ia and ib:
                op = n['op']
                if op == '+':
                    iv = (ia[0] + ib[0], ia[1] + ib[1])
                elif op == '-':
                    iv = (ia[0] - ib[1], ia[1] - ib[0])
                elif op == '*':
                    c_ = [ia[0] * ib[0], ia[0] * ib[1], ia[1] * ib[0], ia[1] * ib[1]]
                    iv = (min(c_), max(c_))
                elif op == '/' and ib[0] > 0:
                    iv = (ia[0] // ib[1], ia[1] // ib[0])
                elif op == '%' and ib[0] > 0 and ia[0] >= 0:
                    iv = (0, min(ia[1], ib[1] - 1))
            return '(%s%s%s)' % (fa, n['op'], fb_), iv
        return '?', None
    forms = [norm(x) for x in fields]
    shapes = [f_ for f_, _ in forms]
    GOOD_SHAPES = (['(delayMs/1000)', '((delayMs%1000)*1000)'], ['((delayMs*1000)/1000000)', '((delayMs*1000)%1000000)'])
    if shapes not in GOOD_SHAPES:
        if any('?' in x for x in shapes):
            raise AnalysisBroken('enqueueDelayed: timeval fields not in a recognised arithmetic form: %s' % shapes)
        rep.fail('R09.6', 'enqueueDelayed|timeval', locstr(tv), 'timeval fields computed as %s; expected seconds = ms/1000 and microseconds = (ms%%1000)*1000' % shapes)
    else:
        rep.ok('R09.6', 'enqueueDelayed|timeval', 'timeval fields: %s' % shapes)
    for n, iv, t in narrowing:
        rep.fail('R09.6', 'enqueueDelayed|narrowing to %s' % t, locstr(n), 'for delays up to one year the value in [%d, %d] does not fit the %s it is converted to: the delay wraps (fires early / out of order)' % (iv[0], iv[1], t))
    if not narrowing:
        rep.ok('R09.6', 'enqueueDelayed|no-narrowing', 'interval analysis for delayMs in [0, 1 year]: every conversion on the way to the timeval fits its target type')

    # ---- R09.7 the number taken from the delay text is a defined value for every text
    rep.rule('R09.7', 'a defined delay for every text: the conversion helper the delay goes through (uscxml::strTo<T>) initialises the value it returns - stream extraction leaves its operand untouched when the text is empty (delay="s", a delayexpr without digits)')
    insts = [f_ for f_ in fb.funcs.values() if f_.q == 'uscxml::strTo']
    used = {x.get('callee', {}).get('q') for x in ps.walk()}
    if 'uscxml::strTo' not in used:
        rep.ok('R09.7', 'processSend|no strTo', 'processSend does not convert the delay with strTo any more')
    else:
        rep.minimum('R09.7', len(insts), 2, 'instantiations of uscxml::strTo')
        bad = []
        for f_ in insts:
            rets = [x for x in f_.walk() if x['k'] == 'ReturnStmt' and x.get('c')]
            for r_ in rets:
                for y in sub(r_['c'][0]):
                    if y['k'] == 'DeclRefExpr' and 'lid' in y.get('ref', {}):
                        decl = next((d_ for s_ in f_.walk() if s_['k'] == 'DeclStmt' for d_ in s_.get('decls', []) if d_.get('lid') == y['ref']['lid']), None)
                        assigned = any(s_['k'] == 'BinaryOperator' and s_.get('op') == '=' and any(z.get('ref', {}).get('lid') == y['ref']['lid'] for z in sub(s_['c'][0])) for s_ in f_.walk())
                        if decl is not None and decl.get('init') is None and not assigned:
                            bad.append((f_, decl, r_))
        rep.check(not bad, 'R09.7', 'strTo|returned value initialised', locstr(bad[0][2]) if bad else (insts[0].where() if insts else ps.where()),
                  'strTo returns %s' % ('a value-initialised local in all %d instantiations' % len(insts) if not bad else
                                        'the local `%s %s;` that only the stream extraction writes: for a text without digits the delay is an indeterminate value (the event is neither delivered nor refused)' % (bad[0][1].get('t'), bad[0][1]['name'])))

    # ---- R09.8 a floating millisecond count is converted only inside the integer's range
    rep.rule('R09.8', 'no early delivery by wrap-around: in processSend a floating-point value becomes the integer millisecond count only under a comparison of that value with a bound (conversion of an out-of-range double is undefined and wraps modulo 2^32 in practice: delay="4294968s" fired after 0.7 s)')
    FLOATS = ('double', 'float', 'long double')
    def is_int_t(t):
        t = (t or '').replace('const ', '').strip()
        return width(t) is not None
    convs = []
    for x in ps.walk():
        if x['k'] in ('ImplicitCastExpr', 'CStyleCastExpr', 'CXXStaticCastExpr', 'CXXFunctionalCastExpr') and is_int_t(x.get('t')) and x.get('c'):
            o_ = x['c'][0]
            if (o_.get('t') or '').replace('const ', '').strip() in FLOATS:
                convs.append((x, o_))
    for x, o_ in convs:
        names = {y['ref'].get('lid') for y in sub(o_) if y['k'] == 'DeclRefExpr' and 'lid' in y.get('ref', {})}
        otext = ' '.join(fb.text(strip(o_)).split())
        def bounds(cn):
            for y in sub(cn):
                if y.get('op') in ('<', '<=', '>', '>=') and y['k'] in ('BinaryOperator', 'CXXOperatorCallExpr'):
                    ys = y['c'][-2:]
                    if any(({z['ref'].get('lid') for z in sub(s_) if z['k'] == 'DeclRefExpr' and 'lid' in z.get('ref', {})} & names) or ' '.join(fb.text(strip(s_)).split()) == otext for s_ in ys):
                        return True
            return False
        ok = any(y.get('callee', {}).get('q', '') in ('std::min', 'fmin', 'std::fmin') for y in sub(o_))
        for a_ in ps.ancestors(x):
            if a_['k'] in ('ConditionalOperator', 'IfStmt') and a_.get('c') and not any(z is x for z in sub(a_['c'][0])) and bounds(a_['c'][0]):
                ok = True
        rep.check(ok, 'R09.8', 'processSend|%s -> %s' % (o_.get('t'), x.get('t')), locstr(x), 'the floating value `%s` is converted to %s %s' % (
            otext[:50], x.get('t'), 'under a range test of that value' if ok else 'WITHOUT a range test: a delay in seconds above 4294967 wraps and the event is delivered early, before events with smaller delays'))
    rep.ok('R09.8', 'processSend|conversions', '%d conversions from a floating type to an integer type in processSend' % len(convs))

    # ---- R09.9 a delivery in flight when the interpreter is destroyed
    rep.rule('R09.9', 'no use of freed memory when destruction races with delivery: the destructor of the interpreter is rid of the delayed queue (joining the timer thread) before the members eventReady() uses are destroyed')
    from . import C10
    C10.timer_joined_before_members(rep, fb, 'R09.9')
