"""C18 - generated VHDL micro-step logic: structure of the emitted next-state equations (DESIGN 4/C18).

Decided here (for every document at once, from ChartToVHDL's source): signal-domain typing, relation typing and subject
agreement of every filter, the Boolean function of every equation skeleton, the composition of every term container, the
state register.  NOT decided: equality of the per-document equation system with the step algorithm for all configurations.
"""
import itertools
from .. import facts, eq
from ..facts import AnalysisBroken, locstr, strip, sub

TU = ['src/uscxml/transform/ChartToVHDL.cpp']
CLS = 'uscxml::ChartToVHDL'

# ---- slot tables (confirmed by reading ChartToVHDL.cpp and ChartToC::prepare) -------------------------------------
STATE_FAMILY = {'state_active_', 'state_next_', 'in_exit_set_', 'in_entry_set_', 'in_complete_entry_set_', 'in_complete_entry_set_up_',
                'exit_set_', 'entry_set_', 'signal state_active_', 'signal state_next_', 'signal in_entry_set_', 'signal in_exit_set_',
                'signal in_complete_entry_set_', 'signal in_complete_entry_set_up_'}
TRANS_FAMILY = {'in_optimal_transition_set_', 'transition_condition_fulfilled_', 'transition_set_', 'signal in_optimal_transition_set_'}
# relation -> (row domain = element the bit string is read from, column domain = what indexes it)
RELATIONS = {'conflictBools': ('T', 'T'), 'exitSetBools': ('T', 'S'), 'targetBools': ('T', 'S'),
             'childBools': ('S', 'S'), 'ancBools': ('S', 'S'), 'completionBools': ('S', 'S')}

SD = 'S0.documentOrder'
TP = 'T0.postFixOrder'


def A(prefix, idx):
    return '%s[%s]' % (prefix, idx)


# reference equations: writer -> lhs atom -> (rhs over atom names / container roles, loop domains of the equation)
EQUATIONS = {
    'writeActiveStateNplusOne': {
        A('state_next_', SD): (('or', A('in_complete_entry_set_', SD), ('and', ('not', A('in_exit_set_', SD)), A('state_active_', SD))), ('S',)),
    },
    'writeOptimalTransitionSetSelection': {
        A('in_optimal_transition_set_', TP): (('and', ('ite', '?has(T0.event)', ('not', 'spontaneous_active'), 'spontaneous_en'),
                                               ('ite', '?has(T0.cond)', A('transition_condition_fulfilled_', TP), '1'),
                                               A('state_active_', 'T0.source'), '{MATCH}', ('not', '{CONF}')), ('T',)),
        'optimal_transition_set_combined_sig': ('{ALLT}', ()),
        'spontaneous_active': ('{SPONT}', ()),
    },
    'writeExitSet': {
        A('in_exit_set_', SD): (('and', A('state_active_', SD), '{EXITERS}'), ('S',)),
    },
    'writeEntrySet': {
        A('in_entry_set_', SD): (('and', A('in_complete_entry_set_', SD), ('or', A('in_exit_set_', SD), ('not', A('state_active_', SD)))), ('S',)),
    },
    'writeCompleteEntrySet': {
        A('in_complete_entry_set_up_', SD): (('or', '{TARGETERS}', '{CHILDUP}'), ('S',)),
        A('in_complete_entry_set_', SD): (('or', A('in_complete_entry_set_up_', SD), '{DEFAULT}'), ('S',)),
    },
    'writeSystemSignalMapping': {
        'completed_sig': ('{TLF}', ()),
    },
}

# reference containers: writer -> role -> dict(kind, scope = loop domains the container is declared in, adds = [...])
# an add: term (formula string as eq.show prints it), loops (domains, outer..inner), rel = required relation filters (exactly
# these), lits = other required literals, kinds = {element: kinds for which the add must be able to happen}
P = 'P(S0)'
CONTAINERS = {
    'writeOptimalTransitionSetSelection': {
        'MATCH': dict(kind='or', scope=('T',), adds=[
            dict(term='event_[?]', loops=('T', 'E', 'E'), rel=[], lits=['has(T0.event)']),
            dict(term="'1'", loops=('T',), rel=[], lits=['!has(T0.event)'])]),
        'CONF': dict(kind='or', scope=('T',), adds=[
            dict(term=A('in_optimal_transition_set_', 'j<' + TP), loops=('T', 'T'), rel=['conflictBools(T0)[j<%s]' % TP], lits=[]),
            # the same set written as a loop over the transitions themselves, admitted while their number is smaller
            dict(term=A('in_optimal_transition_set_', 'T1.postFixOrder'), loops=('T', 'T'), rel=['conflictBools(T0)[T1.postFixOrder]'], lits=['T1.postFixOrder<%s' % TP], alt_of=A('in_optimal_transition_set_', 'j<' + TP))]),
        'ALLT': dict(kind='or', scope=(), adds=[dict(term=A('in_optimal_transition_set_', TP), loops=('T',), rel=[], lits=[])]),
        'SPONT': dict(kind='or', scope=(), adds=[dict(term=A('in_optimal_transition_set_', TP), loops=('T',), rel=[], lits=['!has(T0.event)'])]),
    },
    'writeExitSet': {
        'EXITERS': dict(kind='or', scope=('S',), adds=[
            dict(term=A('in_optimal_transition_set_', TP), loops=('S', 'T'), rel=['exitSetBools(T0)[%s]' % SD], lits=[])]),
    },
    'writeCompleteEntrySet': {
        'TARGETERS': dict(kind='or', scope=('S',), adds=[
            dict(term=A('in_optimal_transition_set_', TP), loops=('S', 'T'), rel=['targetBools(T0)[%s]' % SD], lits=[])]),
        'CHILDUP': dict(kind='or', scope=('S',), adds=[
            dict(term=A('in_complete_entry_set_up_', 'S1.documentOrder'), loops=('S', 'S'), rel=['childBools(S0)[S1.documentOrder]'], lits=[],
                 kinds={'S0': ('compound', 'parallel')})]),
        'DEFAULT': dict(kind='and', scope=('S',), adds=[
            dict(term=A('in_entry_set_', P + '.documentOrder'), loops=('S',), rel=[], lits=[], kinds={P: ('compound',)}, never={P: ('parallel',)}),
            dict(term='not(and(%s, not(%s)))' % (A('state_active_', 'S1.documentOrder'), A('in_exit_set_', 'S1.documentOrder')), loops=('S', 'S'),
                 rel=['childBools(%s)[S1.documentOrder]' % P], lits=['!S1==S0'], kinds={P: ('compound',)}, never={P: ('parallel',)}),
            dict(term='not(%s)' % A('in_complete_entry_set_up_', 'S1.documentOrder'), loops=('S', 'S'),
                 rel=['childBools(%s)[S1.documentOrder]' % P], lits=['!S1==S0'], kinds={P: ('compound',)}, never={P: ('parallel',)}),
            dict(term="'0'", loops=('S',), rel=[], lits=[], kinds={P: ('compound',)}, never={P: ('parallel',)}),
            dict(term=A('in_complete_entry_set_', P + '.documentOrder'), loops=('S',), rel=[], lits=[], kinds={P: ('parallel',)}, never={P: ('compound',)})]),
    },
    'writeSystemSignalMapping': {
        'TLF': dict(kind='or', scope=(), adds=[dict(term=A('state_active_', SD), loops=('S',), rel=[], lits=[])]),
    },
}
WRITERS = sorted(set(EQUATIONS) | {'writeStateHandler'})


# ---- helpers ------------------------------------------------------------------------------------------------------
def simp(c):
    """double negation, flatten"""
    if c[0] == 'not' and c[1][0] == 'not':
        return simp(c[1][1])
    if c[0] == 'not':
        return ('not', simp(c[1]))
    if c[0] in ('and', 'or'):
        return (c[0], simp(c[1]), simp(c[2]))
    return c


def literals(guards):
    """conjunction of guards -> list of conjunct conditions (and-flattened)"""
    out = []

    def go(c):
        c = simp(c)
        if c[0] == 'and':
            go(c[1])
            go(c[2])
        else:
            out.append(c)
    for g in guards:
        go(g)
    return out


def three(c, kinds):
    """three-valued truth of a guard under an assignment element -> kind; None = unknown"""
    k = c[0]
    if k == 'kind':
        if c[2] in kinds:
            return kinds[c[2]] == c[1]
        return None
    if k == 'exists':
        return True if c[1] in kinds else None
    if k == 'not':
        v = three(c[1], kinds)
        return None if v is None else not v
    if k == 'and':
        a, b = three(c[1], kinds), three(c[2], kinds)
        if a is False or b is False:
            return False
        return True if a is True and b is True else None
    if k == 'or':
        a, b = three(c[1], kinds), three(c[2], kinds)
        if a is True or b is True:
            return True
        return False if a is False and b is False else None
    return None


def term_string(t):
    s = eq.show(t)
    return s


def canon_term(t):
    """event_[escapeMacro(..)] and similar non-index operands -> event_[?]"""
    if t[0] == 'sig' and t[2][0] == 'other':
        return '%s[?]' % t[1]
    return eq.show(t)


def domains(loops):
    return tuple(l[1] for l in loops)


def rename(t, roles):
    """replace container variable names by their roles"""
    if t[0] == 'cont':
        return ('cont', roles.get(t[1], t[1]))
    if t[0] in ('or', 'and'):
        return (t[0], [rename(x, roles) for x in t[1]])
    if t[0] in ('not', 'nop'):
        return (t[0], rename(t[1], roles))
    if t[0] == 'ite':
        return ('ite', t[1], rename(t[2], roles), rename(t[3], roles))
    return t


def run(rep, tier):
    rep.rule('R18.1', 'signal-domain typing: every emitted indexed signal of the state family is indexed with documentOrder/source/parent of a state element, every signal of the transition family with postFixOrder of a transition element or a counter bounded by it')
    rep.rule('R18.2', 'relation typing and subject agreement: a relation bit string is read from an element of its row domain and subscripted with an index of its column domain, and the element a filter tests is the one whose signal is added (or the state/transition the equation is written for)')
    rep.rule('R18.3', 'equation skeletons: the Boolean function of every assignment built with the VASSIGN/VOR/VAND/VNOT DSL equals the reference (next = ces or (active and not exit), exit = active and any-exiter, entry = ces and (exit or not active), ots = gate and cond and source-active and match and not conflict, cesu = targeters or child-up, ces = cesu or default); compared by truth table over the atoms')
    rep.rule('R18.4', 'container composition: kind (empty OR = 0, empty AND = 1), scope, added term, loop domains, relation filters and state-kind guards of every term container equal the reference table of the step algorithm; conflict suppression only references earlier post-fix indices')
    rep.rule('R18.5', 'state register and root: on the clock edge state_active_s <= state_next_s with the same index, reset clears every state, the root stays active until completed; every equation writer is called by writeMicroStepper')
    rep.rule('R18.6', 'the relations the filters read are defined as the algorithm needs them: conflict relation with all terms, exit set over every kind of state that can be active (state, parallel, final), transition domain / LCCA quantifier shape (rules shared with C05)')
    rep.assume('equality of the whole per-document equation system with the step algorithm for all configurations is not decided (equivalence checking per document)')
    rep.assume('the condition solver, event controller and FIFO are not analysed')
    fb = facts.FactBase(TU)
    rep.covered(tus=len(TU), extracted=fb.extracted)
    ex = {}
    for f in fb.funcs.values():
        if f.rec == CLS and f.d.get('body'):
            ex[f.q.split('::')[-1]] = eq.Extractor(fb, f)      # AnalysisBroken on unknown idioms
    for w in WRITERS:
        if w not in ex:
            raise AnalysisBroken('writer ChartToVHDL::%s not found' % w)
    rep.covered(functions=len(ex), equations=sum(len(x.equations) for x in ex.values()), containers=sum(len(x.containers) for x in ex.values()))

    # ---- R18.1 every indexed signal, in every function of the class
    nsig = 0
    for w, x in sorted(ex.items()):
        sites = []        # (prefix, index, node)

        def collect(t):
            if t[0] == 'sig':
                sites.append((t[1], t[2], t[4]))
            elif t[0] in ('or', 'and'):
                for k in t[1]:
                    collect(k)
            elif t[0] in ('not', 'nop'):
                collect(t[1])
            elif t[0] == 'ite':
                collect(t[2])
                collect(t[3])
        for e in x.equations:
            collect(e['lhs'])
            collect(e['rhs'])
        for c in x.containers.values():
            for a in c['adds']:
                collect(a['what'])
        for s in x.streams:
            parts = s['parts']
            for i, p in enumerate(parts):
                if p[0] == 'idx' and i > 0 and parts[i - 1][0] == 'lit':
                    words = parts[i - 1][1].split()
                    pre = words[-1] if words and not parts[i - 1][1].endswith((' ', '\n', '\t')) else ''
                    pre = pre.split('(')[-1].split('"')[-1]
                    sites.append((pre, p[1], p[2]))
        # string-typed locals/containers (signal declarations are pushed into a list first)
        f = x.f
        for n in f.walk():
            if n['k'] == 'CXXMemberCallExpr' and n.get('callee', {}).get('q', '').endswith('::push_back') and len(n.get('c', [])) > 1:
                parts = x.string_parts(n['c'][1])
                for i, p in enumerate(parts):
                    if p[0] == 'idx' and i > 0 and parts[i - 1][0] == 'lit':
                        sites.append((parts[i - 1][1].strip(), p[1], p[2]))
        for pre, ix, node in sites:
            fam = 'S' if pre in STATE_FAMILY else 'T' if pre in TRANS_FAMILY else None
            if fam is None:
                continue
            nsig += 1
            d = x.index_domain(ix)
            shown = eq.Extractor.show_index(ix)
            rep.check(d == fam, 'R18.1', '%s|%s[%s]#%d' % (w, pre, shown, sum(1 for p2, i2, n2 in sites if p2 == pre and n2['loc'][1] < node['loc'][1])), locstr(node),
                      '%s signal %s<%s> is indexed with %s' % ({'S': 'state-family', 'T': 'transition-family'}[fam], pre, shown,
                                                               {'S': 'a state number', 'T': 'a transition number'}.get(d, str(d) if d else 'an index of unknown domain')))
    rep.minimum('R18.1', nsig, 60, 'indexed state/transition signals')

    # ---- R18.2 every relation filter
    nrel = 0
    for w, x in sorted(ex.items()):
        uses = []       # (rel cond, term, inner loop element names, node)
        for c in x.containers.values():
            for a in c['adds']:
                inner = [l[2] for l in a['ctx'].loops[len(c['ctx'].loops):] if l[0] in ('each', 'count')]
                for g in literals(a['ctx'].guards):
                    for r in rels_in(g):
                        uses.append((r, a['what'], inner, a['node']))
        for e in x.equations:
            for g in literals(e['ctx'].guards):
                for r in rels_in(g):
                    uses.append((r, e['rhs'], [], e['node']))
        for r, term, inner, node in uses:
            nrel += 1
            rel, owner, ix = r[1], r[2], r[3]
            if rel not in RELATIONS:
                raise AnalysisBroken('%s: unknown relation attribute %s at %s' % (w, rel, locstr(node)))
            row, col = RELATIONS[rel]
            od = x.dom.get(owner)
            cd = x.index_domain(ix)
            sig = '%s|%s(%s)[%s]' % (w, rel, owner, eq.Extractor.show_index(ix))
            ok = od == row and cd == col
            why = '%s is read from %s (%s element; rows are %s) and indexed with %s (%s; columns are %s)' % (
                rel, owner, od, row, eq.Extractor.show_index(ix), cd, col)
            if ok and inner:
                f_el = elems_of_index(ix) | {owner, owner.replace('P(', '').replace(')', '')}
                t_el = term_elems(term)
                fi, ti = sorted(f_el & set(inner)), sorted(t_el & set(inner))
                ok = fi == ti and bool(fi)
                why += '; inside the loop(s) over %s the filter tests %s and the term added under it (%s) is about %s%s' % (
                    inner, fi or 'no loop element', eq.show(term), ti or 'no loop element', '' if ok else ': LOOP-INVARIANT or MISMATCHED filter')
            rep.check(ok, 'R18.2', sig, locstr(node), why)
    rep.minimum('R18.2', nrel, 6, 'relation filters')

    # ---- R18.4 containers (roles are needed by R18.3)
    roles_by_writer = {}
    for w, ref in sorted(CONTAINERS.items()):
        x = ex[w]
        roles = {}
        used_names = set()
        for e in x.equations:
            used_names |= {a_[1:-1] for a_ in eq.atoms(e['rhs'], set()) if a_.startswith('{')}
        for c in list(x.containers.values()):
            if not c['adds'] and c['name'] not in used_names:
                rep.note('%s: container %s is never filled nor used in an equation (ignored)' % (w, c['name']))
                continue
            if sum(1 for c2 in x.containers.values() if c2['name'] == c['name'] and (c2['adds'] or c2['name'] in used_names)) > 1:
                raise AnalysisBroken('%s: two live containers are called %s' % (w, c['name']))
            sig = sorted(canon_term(a['what']) for a in c['adds'])
            def term_sets(r_):
                plain = sorted(a['term'] for a in r_['adds'] if not a.get('alt_of'))
                out_ = [plain]
                for alt in [a for a in r_['adds'] if a.get('alt_of')]:
                    out_.append(sorted([t for t in plain if t != alt['alt_of']] + [alt['term']]))
                return out_
            cand = [role for role, r in ref.items() if sig in term_sets(r) and role not in roles.values()]
            # disambiguate equal add sets (ALLT / SPONT) by the literal guards
            if len(cand) > 1:
                mine = {eq.show_cond(l) for a in c['adds'] for l in literals(a['ctx'].guards)}
                cand2 = [role for role in cand if all(set(a['lits']) <= mine for a in ref[role]['adds']) and (any(a['lits'] for a in ref[role]['adds']) or not mine)]
                cand = cand2 or cand
            if not cand:
                # closest role: most shared terms
                best = max(ref, key=lambda role: len(set(sig) & {a['term'] for a in ref[role]['adds']}) - (1 if role in roles.values() else 0))
                roles[c['name']] = best
            else:
                roles[c['name']] = cand[0]
        roles_by_writer[w] = roles
        for role, r in sorted(ref.items()):
            cs = [c for c in x.containers.values() if roles.get(c['name']) == role and (c['adds'] or c['name'] in used_names)]
            if not cs:
                raise AnalysisBroken('%s: no container plays the role %s' % (w, role))
            c = cs[0]
            site = locstr(c['node'])
            rep.check(c['kind'] == r['kind'], 'R18.4', '%s|%s|kind' % (w, role), site,
                      'container %s (%s) is a V%s: an empty one contributes %s' % (c['name'], role, c['kind'].upper(), "'0'" if c['kind'] == 'or' else "'1'"))
            rep.check(domains(c['ctx'].loops) == r['scope'], 'R18.4', '%s|%s|scope' % (w, role), site,
                      'container %s is created inside loops %s (reference %s): terms %s from one element to the next' % (
                          c['name'], domains(c['ctx'].loops), r['scope'], 'do not leak' if domains(c['ctx'].loops) == r['scope'] else 'ACCUMULATE'))
            seen = set()
            for a in c['adds']:
                t = canon_term(a['what'])
                refs = [ra for ra in r['adds'] if ra['term'] == t]
                if not refs:
                    rep.fail('R18.4', '%s|%s|term %s' % (w, role, t), locstr(a['node']), 'container %s (%s) receives the term %s, which the step algorithm does not have there' % (c['name'], role, t))
                    continue
                ra = refs[0]
                seen.add(t)
                lits = literals(a['ctx'].guards)
                shown = {eq.show_cond(l) for l in lits}
                myrel = sorted(eq.show_cond(l) for l in lits if l[0] == 'rel' or (l[0] == 'not' and l[1][0] == 'rel'))
                ok = myrel == sorted(ra['rel']) and domains(a['ctx'].loops) == ra['loops'] and set(ra['lits']) <= shown
                why = 'term %s: loops %s (reference %s), relation filters %s (reference %s), required literals %s %s' % (
                    t, domains(a['ctx'].loops), ra['loops'], myrel, sorted(ra['rel']), ra['lits'], 'present' if set(ra['lits']) <= shown else 'MISSING (guards found: %s)' % sorted(x for x in shown if not x.startswith('opaque'))[:6])
                # state-kind guards, three-valued
                for elem, kinds in ra.get('kinds', {}).items():
                    for k in kinds:
                        v = [three(g, {elem: k}) for g in a['ctx'].guards]
                        if any(t_ is False for t_ in v):
                            ok = False
                            why += '; guarded out for a %s %s although the algorithm needs the term there' % (k, elem)
                for elem, kinds in ra.get('never', {}).items():
                    for k in kinds:
                        v = [three(g, {elem: k}) for g in a['ctx'].guards]
                        if all(t_ is True for t_ in v) and v:
                            ok = False
                            why += '; applies to a %s %s although the algorithm has no such term there' % (k, elem)
                rep.check(ok, 'R18.4', '%s|%s|%s' % (w, role, t), locstr(a['node']), why)
            satisfied = set(seen) | {ra.get('alt_of') for ra in r['adds'] if ra['term'] in seen and ra.get('alt_of')}
            for ra in r['adds']:
                if ra.get('alt_of'):
                    continue
                if ra['term'] not in satisfied:
                    rep.fail('R18.4', '%s|%s|missing %s' % (w, role, ra['term']), site, 'container %s (%s) never receives the term %s of the step algorithm' % (c['name'], role, ra['term']))
        extra = [c['name'] for c in x.containers.values() if c['name'] not in roles and (c['adds'] or c['name'] in used_names)]
        if extra:
            raise AnalysisBroken('%s: containers %s have no role in the reference' % (w, extra))
    # default completion via the `initial` attribute (same defect as C05 R05.1, seen from the equations)
    x = ex['writeCompleteEntrySet']
    for c in x.containers.values():
        if roles_by_writer['writeCompleteEntrySet'].get(c['name']) == 'DEFAULT':
            for a in c['adds']:
                ops = [l for g in a['ctx'].guards for l in opaque_in(g)]
                uses_initial = any('kXMLCharInitial' in o or 'parentInit' in o for o in ops)
                uses_table = any(l[0] == 'rel' and l[1] == 'completionBools' for l in literals(a['ctx'].guards))
                if canon_term(a['what']).startswith('in_entry_set_['):
                    rep.check(uses_table and not uses_initial, 'R18.4', 'ChartToVHDL|DEFAULT|default child test', locstr(a['node']),
                              'which child is entered by default is decided by %s' % ('the completionBools table' if uses_table and not uses_initial else 'the text of the `initial` attribute / first child in document order, not by the completionBools table: <initial> elements, multi-state and deep initial targets are wrong'))

    # ---- R18.3 equations
    neq = 0
    for w, ref in sorted(EQUATIONS.items()):
        x = ex[w]
        roles = roles_by_writer.get(w, {})
        got = {}
        for e in x.equations:
            got.setdefault(canon_term(e['lhs']), []).append(e)
        for lhs, (rhs, loops) in sorted(ref.items()):
            if lhs not in got:
                raise AnalysisBroken('%s: equation for %s not found' % (w, lhs))
            for e in got[lhs]:
                neq += 1
                t = rename(e['rhs'], roles)
                same, why = eq.compare(t, rhs)
                rep.check(same and domains(e['ctx'].loops) == loops, 'R18.3', '%s|%s' % (w, lhs), locstr(e['node']),
                          '%s <= %s : %s%s' % (lhs, eq.show(t), why, '' if domains(e['ctx'].loops) == loops else '; written inside loops %s, reference %s' % (domains(e['ctx'].loops), loops)))
        for lhs in got:
            if lhs not in ref:
                raise AnalysisBroken('%s: unknown equation for %s' % (w, lhs))
    rep.minimum('R18.3', neq, 9, 'DSL equations')

    # ---- R18.5 state register, root, call structure
    x = ex['writeStateHandler']
    clears = edges = 0
    for s in x.streams:
        txt = ''.join(p[1] if p[0] == 'lit' else '<%s>' % eq.Extractor.show_index(p[1]) if p[0] == 'idx' else '<?>' for p in s['parts'])
        idx = [p[1] for p in s['parts'] if p[0] == 'idx']
        if 'state_active_' in txt and "<= '0'" in txt.replace('"', ''):
            clears += 1
            rep.check(domains(s['ctx'].loops) == ('S',) and not s['ctx'].guards, 'R18.5', 'reset clears every state', locstr(s['node']), 'reset: %s inside loops %s' % (txt.strip(), domains(s['ctx'].loops)))
        if 'state_active_' in txt and 'state_next_' in txt:
            edges += 1
            same = len(idx) == 2 and eq.Extractor.show_index(idx[0]) == eq.Extractor.show_index(idx[1])
            rep.check(same and domains(s['ctx'].loops) == ('S',) and not s['ctx'].guards and txt.index('state_active_') < txt.index('state_next_'), 'R18.5', 'register update', locstr(s['node']),
                      'clock edge: %s inside loops %s, guards %s' % (txt.strip(), domains(s['ctx'].loops), [eq.show_cond(g) for g in s['ctx'].guards]))
    if not clears or not edges:
        raise AnalysisBroken('writeStateHandler: reset / clock-edge assignment of state_active not found')
    x = ex['writeActiveStateNplusOne']
    roots = [s for s in x.streams if any(p[0] == 'lit' and 'state_next_' in p[1] for p in s['parts'])]
    if not roots:
        raise AnalysisBroken('writeActiveStateNplusOne: root assignment not found')
    for s in roots:
        txt = ' '.join(''.join(p[1] if p[0] == 'lit' else '<%s>' % eq.Extractor.show_index(p[1]) if p[0] == 'idx' else '<?>' for p in s['parts']).split())
        g = [eq.show_cond(simp(l)) for l in literals(s['ctx'].guards)]
        rep.check(txt.endswith('<= not completed_sig;') and g == ['root(S0)'], 'R18.5', 'root stays active until completed', locstr(s['node']), '%s under %s' % (txt, g))
    eqs_guard = [e for e in x.equations]
    for e in eqs_guard:
        g = [eq.show_cond(simp(l)) for l in literals(e['ctx'].guards)]
        rep.check(g == ['!root(S0)'], 'R18.5', 'every other state gets the next-state equation', locstr(e['node']), 'next-state equation written under %s' % g)
    # ---- R18.6 the tables the equations are filtered with (shared with C05)
    from . import C05, _domain
    fbt = facts.FactBase(C05.TUS)
    C05.check_conflict_terms(rep, 'R18.6', fbt)
    C05.check_exit_set_vocabulary(rep, 'R18.6', fbt)
    _domain.check(rep, 'R18.6', fbt, [fbt.fn('uscxml::getTransitionDomain'), fbt.fn('uscxml::findLCCA')], 'Predicates')
    from ..report import Renamed
    from . import C12
    C05.audit_rules(Renamed(rep, {'R05.8': 'R18.8'}), fbt)
    C12.vhdl_names(rep, 'R18.9')
    ms = fb.fn(CLS + '::writeMicroStepper')
    called = {n.get('callee', {}).get('q', '').split('::')[-1] for n in ms.walk() if n['k'] == 'CXXMemberCallExpr'}
    for w in WRITERS:
        rep.check(w in called, 'R18.5', 'writeMicroStepper calls %s' % w, locstr(ms.d.get('body', ms.d)), '%s is %s by writeMicroStepper' % (w, 'called' if w in called else 'NOT called'))

    # ---- R18.7 no combinational cycle through the spontaneous gate
    rep.rule('R18.7', 'the equations define a function: the signal that gates event transitions (spontaneous_active) is computed from the ENABLED eventless transitions, not from the selected ones, whose selection depends (through the conflict terms) on those event transitions again')
    wsel = fb.fn('uscxml::ChartToVHDL::writeOptimalTransitionSetSelection')
    feeds = []
    for n in wsel.walk():
        if n['k'] == 'CXXOperatorCallExpr' and n.get('op') == '+=' and len(n.get('c', [])) > 2:
            l = strip(n['c'][1])
            names = {x.get('ref', {}).get('name') for x in sub(l)} if l is not None else set()
            if any('pontaneo' in (nm or '') and 'ctive' in (nm or '') for nm in names):
                lits = [x.get('str') or '' for x in sub(n['c'][2]) if x['k'] == 'StringLiteral']
                feeds.append((n, lits))
    if not feeds:
        raise AnalysisBroken('writeOptimalTransitionSetSelection: the terms of spontaneous_active were not found')
    from_selected = [n for n, lits in feeds if any('in_optimal_transition_set_' in l for l in lits)]
    rep.check(not from_selected, 'R18.7', 'writeOptimalTransitionSetSelection|spontaneous_active', locstr(feeds[0][0]), 'spontaneous_active is the OR of %s' % (
        'enabled eventless transitions' if not from_selected else 'the SELECTED eventless transitions (in_optimal_transition_set_*): an enabled event transition in a descendant that conflicts with an eventless transition of an ancestor makes the equations cyclic - two consistent solutions, a delta-cycle evaluation toggles forever'))


def elems_of_index(ix):
    if ix is None:
        return set()
    if ix[0] == 'attr':
        return {ix[1], str(ix[1]).replace('P(', '').replace(')', '')}
    if ix[0] == 'count':
        return {ix[1]}
    if ix[0] == 'plus':
        return elems_of_index(ix[1])
    return set()


def term_elems(t):
    if t[0] == 'sig':
        return elems_of_index(t[2]) if t[2][0] != 'other' else set()
    if t[0] in ('or', 'and'):
        out = set()
        for k in t[1]:
            out |= term_elems(k)
        return out
    if t[0] in ('not', 'nop'):
        return term_elems(t[1])
    if t[0] == 'ite':
        return term_elems(t[2]) | term_elems(t[3])
    return set()


def rels_in(c):
    if c[0] == 'rel':
        return [c]
    if c[0] == 'not':
        return rels_in(c[1])
    if c[0] in ('and', 'or'):
        return rels_in(c[1]) + rels_in(c[2])
    return []


def opaque_in(c):
    if c[0] == 'opaque':
        return [c[1]]
    if c[0] == 'not':
        return opaque_in(c[1])
    if c[0] in ('and', 'or'):
        return opaque_in(c[1]) + opaque_in(c[2])
    return []
