"""C15 - Data <-> JSON: escape tables, stack discipline of fromJSON, token buffer (DESIGN 4/C15)."""
from .. import facts, tab, cfg as cfgm
from ..facts import AnalysisBroken, strip, sub, locstr

TUS = ['src/uscxml/messages/Data.cpp', 'src/uscxml/messages/Event.cpp', 'src/uscxml/util/Convenience.cpp', 'contrib/src/jsmn/jsmn.c']


def arm_literals(stmts):
    """characters the statements emit/assign as literals, in source order"""
    out = []
    for st in stmts:
        for s in sub(st):
            if s['k'] == 'StringLiteral' and 'str' in s:
                out.extend(ord(ch) for ch in s['str'])
            elif s['k'] == 'CharacterLiteral':
                out.append(s['int'])
    return out


def char_guards(func):
    """[(char code, arm statements, kind, node)] for `x == 'c'` if-arms and `case 'c':` switch arms; plus defaults"""
    res = []
    defaults = []
    seen_if = set()
    for n in func.walk():
        if n['k'] == 'IfStmt' and n['id'] not in seen_if:
            chain, els = tab.if_chain(n)
            m = n
            while m is not None and m['k'] == 'IfStmt':
                seen_if.add(m['id'])
                m = m['c'][2] if len(m['c']) > 2 else None
            got = False
            for cond, then in chain:
                c = strip(cond)
                if c['k'] == 'BinaryOperator' and c.get('op') == '==':
                    l, r = strip(c['c'][0]), strip(c['c'][1])
                    lit = r if r['k'] == 'CharacterLiteral' else (l if l['k'] == 'CharacterLiteral' else None)
                    if lit is not None:
                        res.append((lit['int'], [then], 'if', cond))
                        got = True
            if got and els is not None:
                defaults.append(('if', [els], n))
        if n['k'] == 'SwitchStmt':
            arms = tab.switch_arms(n)
            if sum(1 for a in arms for v in a['values'] if v is not None) == 0:
                continue
            for a in arms:
                for v in a['values']:
                    if v is not None:
                        res.append((v, a['eff'], 'switch', a['node']))
                if a['default']:
                    defaults.append(('switch', a['eff'], n))
    return res, defaults


def escape_table(fb, func):
    """char -> escape letter, for a writer that emits backslash + letter"""
    guards, defaults = char_guards(func)
    t = {}
    for ch, stmts, kind, node in guards:
        lits = arm_literals(stmts)
        if len(lits) >= 2 and lits[0] == 0x5c:
            t[ch] = (lits[1], node)
    return t


def unescape_table(fb, func):
    """escape letter -> char, plus whether unknown letters are passed through unchanged"""
    guards, defaults = char_guards(func)
    t = {}
    for ch, stmts, kind, node in guards:
        if kind != 'switch':
            continue
        lits = arm_literals([s for s in stmts if s['k'] not in ('BreakStmt',)])
        if len(lits) == 1:
            t.setdefault(ch, (lits[0], node))
    return t


def jsmn_accept(fb):
    f = fb.fn('jsmn_parse_string')
    acc = set()
    found = False
    for n in f.walk():
        if n['k'] == 'SwitchStmt':
            arms = tab.switch_arms(n)
            found = True
            for a in arms:
                rejects = any(s['k'] == 'ReturnStmt' for st in a['eff'] for s in sub(st))
                if not rejects:
                    acc.update(v for v in a['values'] if v is not None)
    if not found:
        raise AnalysisBroken('jsmn_parse_string: escape switch not found')
    return acc


def pr(c):
    return repr(chr(c)) if 32 <= c < 127 else '0x%02x' % c


def run(rep, tier):
    rep.rule('R15.1', 'escape tables are inverse: for every char c that jsonEscape writes as \\L, jsonUnescape maps L back to c, and jsmn_parse_string accepts \\L; quote and backslash are escaped')
    rep.rule('R15.1c', 'positive control: Convenience.cpp escape/unescape extracted with the same code and inverse of each other')
    rep.rule('R15.2', 'stack discipline in Data::fromJSON: every back()/pop_back() on dataStack/tokenStack is reached only with the container known non-empty (push or emptiness test on every path)')
    rep.rule('R15.5', 'single unescape: the text of a string/primitive token passes through jsonUnescape exactly once before it becomes an atom, and key text exactly once')
    rep.rule('R15.3', 'token buffer: capacity handed to jsmn_parse is strictly smaller than the zero-initialised allocation (sentinel token the walker relies on), and the whole allocation is zeroed')
    fb = facts.FactBase(TUS)
    rep.covered(tus=len(TUS), extracted=fb.extracted, functions=len(fb.funcs))

    # ---- R15.1
    esc = escape_table(fb, fb.fn('uscxml::Data::jsonEscape'))
    une = unescape_table(fb, fb.fn('uscxml::Data::jsonUnescape'))
    acc = jsmn_accept(fb)
    rep.minimum('R15.1', len(esc), 6, 'escape arms in Data::jsonEscape')
    rep.minimum('R15.1', len(une), 6, 'unescape arms in Data::jsonUnescape')
    rep.minimum('R15.1', len(acc), 6, 'accepted escapes in jsmn_parse_string')
    # default arm of the unescape switch passes the letter through unchanged
    for ch, (letter, node) in sorted(esc.items()):
        back = une[letter][0] if letter in une else letter
        rep.check(back == ch, 'R15.1', 'jsonEscape(%s)->\\%s|unescape' % (pr(ch), chr(letter)), locstr(node),
                  'jsonEscape writes %s as \\%s; jsonUnescape maps \\%s to %s' % (pr(ch), chr(letter), chr(letter), pr(back)))
        rep.check(letter in acc, 'R15.1', 'jsonEscape(%s)->\\%s|jsmn' % (pr(ch), chr(letter)), locstr(node),
                  'jsonEscape writes %s as \\%s; jsmn_parse_string %s it' % (pr(ch), chr(letter), 'accepts' if letter in acc else 'rejects (JSMN_ERROR_INVAL)'))
    for need in (0x22, 0x5c):
        rep.check(need in esc, 'R15.1', 'must-escape %s' % pr(need), 'src/uscxml/messages/Data.cpp', '%s must be escaped or the string token ends early' % pr(need))
    # two characters escaping to the same letter would be ambiguous
    letters = {}
    for ch, (letter, node) in esc.items():
        letters.setdefault(letter, []).append(ch)
    for letter, chs in letters.items():
        rep.check(len(chs) == 1, 'R15.1', 'unique \\%s' % chr(letter), 'src/uscxml/messages/Data.cpp', 'escape letter %s produced for %s' % (chr(letter), [pr(c) for c in chs]))
    rep.sample({'jsonEscape': {pr(c): '\\' + chr(l) for c, (l, _) in sorted(esc.items())}, 'jsonUnescape': {chr(l): pr(c) for l, (c, _) in sorted(une.items())}, 'jsmn_accepts': sorted(chr(c) for c in acc)})

    # control
    cesc = escape_table(fb, fb.fn('uscxml::escape'))
    cune = unescape_table(fb, fb.fn('uscxml::unescape'))
    if len(cesc) < 8 or len(cune) < 8 or any(cune.get(l, (None,))[0] != c for c, (l, _) in cesc.items()):
        raise AnalysisBroken('positive control (Convenience.cpp escape/unescape) not extracted as inverse tables: %d/%d' % (len(cesc), len(cune)))
    rep.ok('R15.1c', 'uscxml::escape/unescape', '%d escapes, inverse' % len(cesc))

    # ---- R15.2
    fj = fb.fn('uscxml::Data::fromJSON')
    viol, okc = tab.nonempty_violations(fj, is_container=lambda call: 'std::list' in call.get('callee', {}).get('q', ''))
    rep.minimum('R15.2', len(viol) + okc, 6, 'back()/pop_back() sites on the stacks in Data::fromJSON')
    by = {}
    for n, name, m in viol:
        by.setdefault((name, m), []).append(n)
    for (name, m), ns in sorted(by.items()):
        rep.fail('R15.2', 'fromJSON|%s.%s' % (name, m), locstr(ns[0]),
                 '%s.%s() reachable with %s possibly empty at %s' % (name, m, name, ', '.join(locstr(x) for x in ns)))
    if okc:
        rep.ok('R15.2', 'fromJSON|guarded', '%d back()/pop_back() sites reached only with the container known non-empty' % okc)

    # ---- R15.3
    malloc = memset = parse = calloc = None
    for n in fj.walk():
        q = n.get('callee', {}).get('q')
        if q == 'malloc':
            malloc = n
        elif q == 'calloc':
            calloc = n
        elif q == 'memset':
            memset = n
        elif q == 'jsmn_parse':
            parse = n
    if not ((malloc or calloc) and parse):
        raise AnalysisBroken('R15.3: token buffer allocation / jsmn_parse call not found in Data::fromJSON')

    def linear(n):
        """(variable lid or None, constant) of  V, V + k, k"""
        n = strip(n)
        if n['k'] == 'DeclRefExpr' and 'lid' in n['ref']:
            return (n['ref']['lid'], 0)
        c = tab.const_of(n)
        if c is not None:
            return (None, c)
        if n['k'] == 'BinaryOperator' and n.get('op') in ('+', '-'):
            a, b = linear(n['c'][0]), linear(n['c'][1])
            if a and b and (a[0] is None or b[0] is None):
                sign = 1 if n['op'] == '+' else -1
                if sign == -1 and b[0] is not None:
                    return None
                return (a[0] if a[0] is not None else b[0], a[1] + sign * b[1])
        return None

    def count_of(sizeexpr):
        n = strip(sizeexpr)
        if n['k'] == 'BinaryOperator' and n.get('op') == '*':
            for side in n['c']:
                l = linear(side)
                if l and l[0] is not None:
                    return l
        return None
    if malloc is not None:
        alloc = count_of(malloc['c'][1])
        allocsite = malloc
    else:
        alloc = linear(calloc['c'][1])       # calloc(count, size): zero-initialised by definition
        allocsite = calloc
    cap = linear(parse['c'][4]) if len(parse['c']) > 4 else None
    if not alloc or not cap:
        raise AnalysisBroken('R15.3: allocation size / capacity not in the form (V + k) * sizeof, V + j at %s' % locstr(allocsite))
    rep.check(alloc[0] == cap[0] and cap[1] < alloc[1], 'R15.3', 'fromJSON|capacity<alloc', locstr(parse),
              'allocated V%+d tokens, jsmn_parse capacity V%+d (sentinel %s)' % (alloc[1], cap[1], 'kept' if alloc[0] == cap[0] and cap[1] < alloc[1] else 'LOST: the walker reads t[capacity] past the block when the budget is used up exactly'))
    if calloc is not None and malloc is None:
        rep.ok('R15.3', 'fromJSON|zeroed', 'calloc zero-initialises the buffer')
    elif memset is None:
        rep.fail('R15.3', 'fromJSON|zeroed', locstr(malloc), 'token buffer is not zero-initialised; the walker stops on t[i].end == 0')
    else:
        z = count_of(memset['c'][3])
        rep.check(z == alloc and tab.const_of(memset['c'][2]) == 0, 'R15.3', 'fromJSON|zeroed', locstr(memset),
                  'memset covers V%+d tokens with %s; allocation has V%+d' % ((z or (0, 0))[1], tab.const_of(memset['c'][2]), alloc[1]))

    # ---- R15.5 every token text is unescaped exactly once on its way into an atom / a key
    lambdas = {}
    for n in fj.walk():
        if n['k'] == 'DeclStmt':
            for d in n.get('decls', []):
                if 'init' in d:
                    le = [x for x in sub(d['init']) if x['k'] == 'LambdaExpr']
                    if le:
                        lambdas[d['lid']] = le[0]

    def unescapes(st, depth=0):
        """applications of jsonUnescape when st is executed: direct calls, plus those inside a local lambda or a helper
        with a body that st calls (the definition of a lambda executes nothing)"""
        out = []
        skip = set()
        for x in sub(st):
            if x['k'] == 'LambdaExpr':
                skip |= {y['id'] for y in sub(x)}
        for x in sub(st):
            if x['id'] in skip:
                continue
            q = x.get('callee', {}).get('q', '')
            if q.endswith('jsonUnescape'):
                out.append(x)
            elif x['k'] == 'CXXOperatorCallExpr' and x.get('op') == '()' and len(x.get('c', [])) > 1 and depth < 2:
                for y in sub(x['c'][1]):
                    if y['k'] == 'DeclRefExpr' and y.get('ref', {}).get('lid') in lambdas:
                        out += unescapes(lambdas[y['ref']['lid']]['c'][-1], depth + 1)
            elif x['k'] in ('CallExpr', 'CXXMemberCallExpr') and x.get('callee', {}).get('m') in fb.funcs and depth < 2 and q != 'uscxml::Data::fromJSON':
                hf = fb.funcs[x['callee']['m']]
                if hf.file == fj.file and hf.d.get('body') is not None:
                    out += unescapes(hf.d['body'], depth + 1)
        return out
    sws = [n for n in fj.walk() if n['k'] == 'SwitchStmt']
    if not sws:
        raise AnalysisBroken('R15.5: token-type switch not found in Data::fromJSON')
    tok_sw = [w for w in sws if any('JSMN_PRIMITIVE' in (a_['names'] or []) for a_ in tab.switch_arms(w))]
    if not tok_sw:
        raise AnalysisBroken('R15.5: token-type switch not found in Data::fromJSON')
    arms = tab.switch_arms(tok_sw[0])
    for a in arms:
        if not any(nm in ('JSMN_STRING', 'JSMN_PRIMITIVE') for nm in a['names'] if nm):
            continue
        sets_atom = any(s_['k'] == 'MemberExpr' and s_['ref'].get('name') == 'atom' for st in a['eff'] for s_ in sub(st))
        if not sets_atom:
            continue
        calls = [x for st in a['stmts'] for x in unescapes(st)]
        if 'JSMN_PRIMITIVE' in [nm for nm in a['names'] if nm]:
            rep.check(len(calls) == 1, 'R15.5', 'fromJSON|value unescaped once', locstr(a['node']), 'the value arm applies jsonUnescape %d time(s) to the token text before storing it as atom (a second pass turns \\\\n into a newline)' % len(calls))
    keyifs = [n for n in fj.walk() if n['k'] == 'IfStmt' and any(x['k'] == 'DeclRefExpr' and x['ref'].get('name') == 'JSMN_OBJECT' for x in sub(n['c'][0]))]
    keycalls = [x for n in keyifs for st in n['c'][1:] for x in unescapes(st)]
    rep.check(len(keycalls) == 1, 'R15.5', 'fromJSON|key unescaped once', fj.where(), 'the key path applies jsonUnescape %d time(s)' % len(keycalls))

    # ---- R15.6 one sentinel slot allows one step of the cursor between two end tests
    rep.rule('R15.6', 'the token cursor never runs past the sentinel: in the tree-building loop of Data::fromJSON no CFG path leads from one increment of the cursor to the next without an end test in between (t[cursor].end == 0 on the zeroed sentinel, or cursor against the parser\'s token count); the buffer has exactly one slot behind the parsed tokens')
    g6 = cfgm.CFG(fj)
    curs = {}
    for n in fj.walk():
        if n['k'] in ('UnaryOperator', 'CompoundAssignOperator') and n.get('op') in ('++', '+=') and n['id'] in g6.pos:
            l = strip(n['c'][0])
            if l is not None and l['k'] == 'DeclRefExpr' and 'lid' in l.get('ref', {}):
                curs.setdefault(l['ref']['lid'], []).append(n)
    # the cursor: the variable that subscripts the token array inside a loop and is incremented there
    tok_lids = {}
    for n in fj.walk():
        if n['k'] == 'ArraySubscriptExpr' and 'jsmntok' in ((strip(n['c'][0]) or {}).get('t') or ''):
            i_ = strip(n['c'][1])
            if i_ is not None and i_['k'] == 'DeclRefExpr' and i_.get('ref', {}).get('lid') in curs:
                tok_lids.setdefault(i_['ref']['lid'], []).append(n)
    if not tok_lids:
        raise AnalysisBroken('Data::fromJSON: token cursor not found')
    cur = max(tok_lids, key=lambda k_: len(tok_lids[k_]))
    incs = [n for n in curs[cur] if any(a_['k'] in ('DoStmt', 'WhileStmt', 'ForStmt') for a_ in fj.ancestors(n))]
    tests = []
    for bid, blk in g6.blocks.items():
        c = blk.get('cond')
        if c is None or c not in fj.nodes:
            continue
        cn = strip(fj.nodes[c])
        mentions_cur = any(x['k'] == 'DeclRefExpr' and x.get('ref', {}).get('lid') == cur for x in sub(cn))
        is_end = any(x['k'] == 'MemberExpr' and x['ref'].get('name') == 'end' for x in sub(cn)) and cn['k'] == 'BinaryOperator' and cn.get('op') in ('==', '!=') and tab.const_of(cn['c'][1]) == 0
        is_bound = cn['k'] == 'BinaryOperator' and cn.get('op') in ('<', '<=', '>', '>=') and any(x['k'] == 'MemberExpr' and x['ref'].get('name') in ('toknext', 'toksuper') or (
            x['k'] == 'DeclRefExpr' and x.get('ref', {}).get('name') in ('rv', 'nrTokens')) for x in sub(cn))
        if mentions_cur and (is_end or is_bound):
            tests += [x['id'] for x in sub(cn) if x['id'] in g6.pos]
    rep.minimum('R15.6', len(incs), 2, 'increments of the token cursor in the tree-building loop')
    if not tests:
        raise AnalysisBroken('Data::fromJSON: no end test of the token cursor found')
    for i_ in incs:
        w = g6.can_reach(g6.pos[i_['id']], [x['id'] for x in incs], avoid=tests)
        rep.check(w is None, 'R15.6', 'fromJSON|increment at line %d' % i_['loc'][1], locstr(i_), 'after this step of the cursor the next step %s' % (
            'is always preceded by an end test' if w is None else 'can follow WITHOUT an end test: two steps pass the single sentinel slot, the walker then reads t[cursor] behind the buffer (text ending in a key, {"a"}, with the token budget used up exactly) and may never terminate'))

    # ---- R15.7 Event::fromData does not take the first entry of a map that may be empty
    rep.rule('R15.7', 'clean failure of the text -> Data -> Event path: in Event::fromData every dereference of begin() of a container taken from the Data argument is under a non-emptiness test of that container (a "params" element that is not a one-entry map is skipped or rejected, not dereferenced)')
    efd = fb.fn('uscxml::Event::fromData', required=False)
    if efd is None:
        fb7 = facts.FactBase(['src/uscxml/messages/Event.cpp'])
        efd = fb7.fn('uscxml::Event::fromData')
    else:
        fb7 = fb
    from .C08 import edge_dominates
    g7 = cfgm.CFG(efd)
    nder = 0
    for n in efd.walk():
        if n['k'] != 'CXXMemberCallExpr' or n.get('callee', {}).get('q', '').split('::')[-1] not in ('begin', 'cbegin', 'front', 'back') or not n['c'][0].get('c'):
            continue
        par = efd.parent(n)
        while par is not None and par['k'] in facts.TRANSPARENT + ('MaterializeTemporaryExpr', 'CXXBindTemporaryExpr'):
            par = efd.parent(par)
        deref = n['callee']['q'].split('::')[-1] in ('front', 'back') or (par is not None and (par['k'] == 'CXXOperatorCallExpr' and par.get('op') in ('->', '*') or par['k'] == 'UnaryOperator' and par.get('op') == '*'))
        if not deref:
            continue
        nder += 1
        base = ' '.join(fb7.text(n['c'][0]['c'][0]).split())
        ok = False
        if n['id'] in g7.pos or (par is not None and par['id'] in g7.pos):
            tb = g7.pos.get(n['id'], g7.pos.get(par['id']))[0]
            for bid, blk in g7.blocks.items():
                c = blk.get('cond')
                if c is None or c not in efd.nodes or bid == tb:
                    continue
                cn = efd.nodes[c]
                tests_base = any(x['k'] == 'CXXMemberCallExpr' and x.get('callee', {}).get('q', '').split('::')[-1] in ('empty', 'size') and x['c'][0].get('c') and
                                 ' '.join(fb7.text(x['c'][0]['c'][0]).split()) == base for x in sub(cn))
                if tests_base and (edge_dominates(g7, bid, True, tb) or edge_dominates(g7, bid, False, tb)):
                    ok = True
        rep.check(ok, 'R15.7', 'Event::fromData|%s.%s()' % (base, n['callee']['q'].split('::')[-1]), locstr(n), 'the first entry of `%s` is taken %s' % (base,
                  'under a non-emptiness test' if ok else 'WITHOUT a non-emptiness test: {"name":"foo","params":[1]} dereferences begin() of an empty map (std::bad_alloc / SIGABRT in the deserialize path of the event queues)'))
    rep.minimum('R15.7', nder, 1, 'first-entry dereferences in Event::fromData')

    # ---- R15.8 / R15.9 the writer's spellings all have a reader
    rep.rule('R15.8', 'no raw control character in emitted JSON: jsonEscape has an arm for the bytes below 0x20 that the named escapes do not cover (a range test), and jsonUnescape an arm for the \\u form it produces')
    esc = fb.fn('uscxml::Data::jsonEscape')
    unesc = fb.fn('uscxml::Data::jsonUnescape')
    rng = [n for n in esc.walk() if n['k'] == 'BinaryOperator' and n.get('op') in ('<', '<=') and tab.const_of(n['c'][1]) in (0x20, 0x1f, 32, 31)]
    uarm = any(a_ for sw_ in unesc.walk() if sw_['k'] == 'SwitchStmt' for a_ in tab.switch_arms(sw_) if ord('u') in [v for v in a_['values'] if v is not None])
    rep.check(bool(rng), 'R15.8', 'jsonEscape|control characters', esc.where(), 'bytes below 0x20 without a named escape are %s' % ('escaped (range arm)' if rng else 'copied literally: a NUL byte ends the text for the C-string scanner, fromJSON(toJSON(x)) throws'))
    rep.check(uarm, 'R15.8', 'jsonUnescape|\\u arm', unesc.where(), 'the \\uXXXX form is %s' % ('decoded' if uarm else 'NOT decoded: the backslash is dropped and "u0041" remains'))
    rep.rule('R15.9', 'the empty value and the bare atom have a reader: what toJSON writes for an empty Data (null) is mapped back to an empty Data by fromJSON, and a text that toJSON writes for a top-level atom is accepted by fromJSON')
    tj = fb.fn('uscxml::Data::toJSON', required=False) or next((f_ for f_ in fb.funcs.values() if f_.q.endswith('Data::toJSON')), None)
    writes_null = tj is not None and any(x['k'] == 'StringLiteral' and x.get('str') == 'null' for x in tj.walk())
    # the word is mapped back: an equality test of the token with "null" (a mere mention, e.g. in the list of literals that stay INTERPRETED, maps nothing)
    reads_null = any(x['k'] in ('CXXOperatorCallExpr', 'BinaryOperator') and x.get('op') == '==' and any(y['k'] == 'StringLiteral' and y.get('str') == 'null' for y in sub(x)) for x in fj.walk())
    rep.check(reads_null or not writes_null, 'R15.9', 'fromJSON|null', fj.where(), 'toJSON writes an empty Data as null: %s; fromJSON maps the word null back to an empty Data: %s%s' % (
        writes_null, reads_null, '' if reads_null or not writes_null else ' -- {"list": <empty>} comes back with list.atom == "null" and compares unequal; an Event without payload comes back with data "null"'))
    early = [n for n in fj.walk() if n['k'] == 'IfStmt' and (any(x['k'] == 'CharacterLiteral' and x.get('int') in (ord('{'), ord('[')) for x in sub(n['c'][0])) or any(
        x['k'] == 'StringLiteral' and set(x.get('str') or '') == set('{[') for x in sub(n['c'][0]))) and any(x['k'] == 'ReturnStmt' for x in sub(n['c'][1]))]
    rep.check(not early, 'R15.9', 'fromJSON|top-level atom', locstr(early[0]) if early else fj.where(), 'a text that does not start with { or [ %s' % (
        'is parsed' if not early else 'is answered with an empty Data: Data("top") and Data(42) written by toJSON ("top", 42) come back empty'))

    # ---- R15.10 the tree built from arbitrary text has bounded depth
    nesting_bound(rep, fb, 'R15.10')
    payload_atoms_are_data(rep, fb, 'R15.11')
    # ---- R15.14 parsing takes time linear in the text
    rep.rule('R15.14', 'parsing terminates in time proportional to the text: the tokenizer closes a container through the parent link of the current token (jsmn built with JSMN_PARENT_LINKS) instead of walking back over every token parsed so far - `[[],[],..]` of 1.2 MB took 118 s')
    jp = fbj.fn('jsmn_parse') if 'fbj' in dir() else facts.FactBase(['contrib/src/jsmn/jsmn.c']).fn('jsmn_parse')
    links = [n for n in jp.walk() if n['k'] == 'MemberExpr' and n.get('ref', {}).get('name') == 'parent']
    rep.check(bool(links), 'R15.14', 'jsmn_parse|closing a container', jp.where(), 'a closing bracket finds its container %s' % (
        'through the parent links of the tokens (%d uses)' % len(links) if links else 'by scanning all tokens backwards (no parent links compiled in): quadratic in the number of containers'))
    # ---- R15.13 deciding "equal" takes one pass over the value
    rep.rule('R15.13', 'the round trip can be checked: Data\'s comparison visits each node once - the operators do not compare a nested container twice per level (operator!= asking operator< both ways, operator< asking the container for != and then for <: 2^depth, hours at depth 40 while fromJSON accepts 1000 levels)')
    dops = {q_: next((f_ for f_ in fb.funcs.values() if f_.q == 'uscxml::Data::' + q_), None) for q_ in ('operator==', 'operator!=', 'operator<')}
    if any(v is None for v in dops.values()):
        raise AnalysisBroken('Data comparison operators not in the fact base: %s' % sorted(k for k, v in dops.items() if v is None))
    def data_calls(f_, name):
        return [n for n in f_.walk() if n.get('callee', {}).get('q') == 'uscxml::Data::' + name]
    twice = []
    if len(data_calls(dops['operator!='], 'operator<')) >= 2:
        twice.append('operator!= calls operator< %d times' % len(data_calls(dops['operator!='], 'operator<')))
    for m_ in ('array', 'compound'):
        ops_ = {n.get('op') for n in dops['operator<'].walk() if n['k'] == 'CXXOperatorCallExpr' and n.get('op') in ('!=', '<', '==') and sum(
            1 for y in sub(n) if y['k'] == 'MemberExpr' and y.get('ref', {}).get('name') == m_) >= 2}
        if len(ops_) >= 2:
            twice.append('operator< compares `%s` with %s' % (m_, ' and '.join(sorted(ops_))))
    rep.check(not twice, 'R15.13', 'Data|comparison cost', dops['operator<'].where(), 'the comparison operators %s' % (
        'derive from one pass over the value' if not twice else 'descend into a nested container more than once per level (%s): fromJSON(toJSON(x)) == x takes 1.9 s at 26 levels and doubles with every further level' % '; '.join(twice)))
    # ---- R15.12 a refused text leaves nothing behind
    rep.rule('R15.12', 'failing cleanly includes giving the token buffer back: in Data::fromJSON every path from the allocation of the token array to an exit of the function - the throws for refused texts included - passes a free of it (or the allocation is owned by an object)')
    from .. import path as pathm12
    g12 = pathm12.EHCFG(fj) if hasattr(pathm12, 'EHCFG') else cfgm.CFG(fj)
    mallocs12 = [n for n in fj.walk() if n.get('callee', {}).get('q') in ('malloc', 'calloc', 'realloc') and n['id'] in g12.pos]
    frees12 = [n for n in fj.walk() if n.get('callee', {}).get('q') == 'free' and n['id'] in g12.pos]
    if mallocs12:
        rep.minimum('R15.12', len(frees12), 1, 'free() calls in Data::fromJSON')
        def under_null_test(n):
            # the branch taken when the allocation failed holds nothing to free
            return any(a_['k'] == 'IfStmt' and any(y['k'] in ('BinaryOperator', 'CXXOperatorCallExpr') and y.get('op') == '==' and any(
                z['k'] in ('GNUNullExpr', 'CXXNullPtrLiteralExpr') or tab.const_of(z) == 0 for z in sub(y)) for y in sub(a_['c'][0])) and any(z is n for z in sub(a_['c'][1] or {})) for a_ in fj.ancestors(n))
        exits12 = [n['id'] for n in fj.walk() if n['k'] in ('ReturnStmt', 'CXXThrowExpr') and n['id'] in g12.pos and not under_null_test(n)]
        leaks12 = []
        for m in mallocs12:
            for ex_ in exits12:
                w = g12.can_reach(g12.pos[m['id']], [ex_], avoid=[f_['id'] for f_ in frees12] + [m2['id'] for m2 in mallocs12 if m2 is not m])
                if w is not None:
                    leaks12.append(ex_)
        leaks12 = sorted(set(leaks12))
        rep.check(not leaks12, 'R15.12', 'fromJSON|token buffer', locstr(fj.nodes[leaks12[0]]) if leaks12 else fj.where(), 'the token array %s' % (
            'is freed on every path to a return or throw' if not leaks12 else 'is NOT freed on the path to %d exit(s) (first: %s): every refused text leaks its token buffer (2 to 16 bytes per input byte)' % (len(leaks12), locstr(fj.nodes[leaks12[0]]))))
    else:
        rep.ok('R15.12', 'fromJSON|token buffer', 'no raw allocation in Data::fromJSON')


def nesting_bound(rep, fb, rule='R15.10'):
    """Data::fromJSON bounds the depth of the tree it builds (shared by C15 R15.10 and C07 R07.12)"""
    from .C08 import edge_dominates
    fj = fb.fn('uscxml::Data::fromJSON')
    rep.rule(rule, 'clean failure on deep nesting: Data is a recursive type (destroyed, copied and printed recursively), so the builder of a Data tree from text bounds its depth - every push on the stack of open containers in Data::fromJSON happens under a comparison of a stack size with a constant')
    g10 = cfgm.CFG(fj)
    # the stack of open containers: the std::list of tokens (one entry per '[' / '{' not yet closed)
    pushes = [n for n in fj.walk() if n['k'] == 'CXXMemberCallExpr' and n.get('callee', {}).get('q', '').split('::')[-1] in ('push_back', 'emplace_back', 'push_front')
              and 'jsmntok' in n.get('callee', {}).get('q', '') and n['id'] in g10.pos]
    rep.minimum(rule, len(pushes), 1, 'pushes on the open-container stack in Data::fromJSON')
    def size_vs_const(cn):
        for x in sub(cn):
            if x.get('op') in ('<', '<=', '>', '>=') and x['k'] in ('BinaryOperator', 'CXXOperatorCallExpr') and len(x.get('c', [])) >= 2:
                a, b = x['c'][-2], x['c'][-1]
                for s_, c_ in ((a, b), (b, a)):
                    if any(y['k'] == 'CXXMemberCallExpr' and y.get('callee', {}).get('q', '').split('::')[-1] == 'size' and 'std::list' in y['callee']['q'] for y in sub(s_)) and tab.const_of(c_) is not None:
                        return True
        return False
    for n in pushes:
        tb = g10.pos[n['id']][0]
        ok = False
        for bid, blk in g10.blocks.items():
            c = blk.get('cond')
            if c is None or c not in fj.nodes or bid == tb or not size_vs_const(fj.nodes[c]):
                continue
            if edge_dominates(g10, bid, True, tb) or edge_dominates(g10, bid, False, tb):
                ok = True
        if not ok:
            # a test right behind the push bounds the depth as well: no way from this push round to the next one past every size test
            tests = [y['id'] for blk in g10.blocks.values() if blk.get('cond') is not None and blk['cond'] in fj.nodes and size_vs_const(fj.nodes[blk['cond']]) for y in sub(fj.nodes[blk['cond']]) if 'id' in y]
            if tests and g10.can_reach(g10.pos[n['id']], [p_['id'] for p_ in pushes], avoid=tests) is None:
                ok = True
        rep.check(ok, rule, 'fromJSON|nesting bound', locstr(n), 'an open container is pushed %s' % (
            'only below a constant nesting depth' if ok else 'WITHOUT any bound on the nesting: 200000 `[` followed by 200000 `]` parse, and the recursive destructor of the result overflows the stack (SIGSEGV)'))


def payload_atoms_are_data(rep, fb, rule='R15.11'):
    """a token without quotes is INTERPRETED (a datamodel evaluates it) only if it is a JSON literal (C15 R15.11, shared with C16 R16.12)"""
    rep.rule(rule, 'a parsed text is a value, not a program: Data::fromJSON leaves a token without quotes typed INTERPRETED - which the datamodels evaluate - only if it is true, false, null or a number; any other run of characters (jsmn is not strict) becomes VERBATIM text')
    fj = fb.fn('uscxml::Data::fromJSON')
    verb = []
    for n in fj.walk():
        if n['k'] == 'BinaryOperator' and n.get('op') == '=' and any(y['k'] == 'MemberExpr' and y.get('ref', {}).get('name') == 'type' for y in sub(n['c'][0])) and any(
                y['k'] == 'DeclRefExpr' and y.get('ref', {}).get('name') == 'VERBATIM' for y in sub(n['c'][1])):
            verb.append(n)
    rep.minimum(rule, len(verb), 1, 'assignments of VERBATIM in Data::fromJSON')
    guarded = []
    for n in verb:
        for a in fj.ancestors(n):
            if a['k'] == 'IfStmt':
                lits = {y.get('str') for y in sub(a['c'][0]) if y['k'] == 'StringLiteral'}
                if {'true', 'false'} <= lits:
                    guarded.append(n)
    rep.check(bool(guarded), rule, 'fromJSON|primitive tokens', locstr(guarded[0]) if guarded else fj.where(), 'a token without quotes %s' % (
        'is text unless it is one of the JSON literals' if guarded else 'keeps the type INTERPRETED whatever it is: {"a":os.exit(42)} posted to a session with the Lua datamodel is evaluated while the event is dequeued'))
