"""C17 - Promela datamodel: precedence from the shipped LALR tables, evaluated >= parsed, arity, operand order,
fault guards (DESIGN 4/C17)."""
import itertools, os, re
from .. import facts, lr, tab, cfg as cfgm
from ..facts import AnalysisBroken, strip, sub, locstr, REPO

TAB = 'src/uscxml/plugins/datamodel/promela/parser/promela.tab.cpp'
YPP = 'src/uscxml/plugins/datamodel/promela/parser/promela.ypp'
TUS = [TAB, 'src/uscxml/plugins/datamodel/promela/PromelaDataModel.cpp', 'src/uscxml/plugins/datamodel/promela/PromelaParser.cpp']

# reference: Promela / C operator precedence (higher binds tighter), all left-associative
PREC = {'PML_OR': 1, 'PML_AND': 2, 'PML_EQ': 6, 'PML_NE': 6, 'PML_LT': 7, 'PML_LE': 7, 'PML_GT': 7, 'PML_GE': 7,
        'PML_LSHIFT': 8, 'PML_RSHIFT': 8, 'PML_PLUS': 9, 'PML_MINUS': 9, 'PML_TIMES': 10, 'PML_DIVIDE': 10, 'PML_MODULO': 10}
OPS = sorted(PREC, key=lambda o: (PREC[o], o))
SPELL = {'PML_OR': '||', 'PML_AND': '&&', 'PML_EQ': '==', 'PML_NE': '!=', 'PML_LT': '<', 'PML_LE': '<=', 'PML_GT': '>', 'PML_GE': '>=',
         'PML_LSHIFT': '<<', 'PML_RSHIFT': '>>', 'PML_PLUS': '+', 'PML_MINUS': '-', 'PML_TIMES': '*', 'PML_DIVIDE': '/', 'PML_MODULO': '%'}


def ref_tree(ops):
    """reference grouping of c op0 c op1 c ... by precedence climbing (left associative)"""
    toks = ['c']
    for o in ops:
        toks += [o, 'c']
    pos = [0]

    def primary():
        pos[0] += 1
        return 'PML_CONST'

    def expr(minp):
        left = primary()
        while pos[0] < len(toks) and PREC[toks[pos[0]]] >= minp:
            op = toks[pos[0]]
            pos[0] += 1
            right = expr(PREC[op] + 1)
            left = ('bin', op, left, right)
        return left
    return expr(0)


def show(t):
    if isinstance(t, str):
        return 'c'
    if t[0] == 'bin':
        return '(%s %s %s)' % (show(t[2]), SPELL.get(t[1], t[1]), show(t[3]))
    if t[0] == 'un':
        return '(%s%s)' % ({'PML_MINUS': '-', 'PML_NEG': '!'}.get(t[1], t[1]), show(t[2]))
    if t[0] == 'paren':
        return show(t[1])
    return str(t)


def opiter_derefs(n):
    """number of `*opIter` dereferences in a subtree"""
    c = 0
    for s in sub(n):
        if s['k'] == 'CXXOperatorCallExpr' and s.get('op') == '*' and len(s.get('c', [])) == 2:
            if any(x.get('ref', {}).get('name') == 'opIter' for x in sub(s['c'][1])):
                c += 1
    return c


def incs_of(n, var='opIter'):
    return [s for s in sub(n) if s['k'] in ('CXXOperatorCallExpr', 'UnaryOperator') and s.get('op') == '++' and any(
        x.get('ref', {}).get('name') == var for x in sub(s))]


def const_test_edge(cn, lid, value):
    """which outcome of condition cn means `variable lid == value` (value != 0); None if cn is no such test"""
    cn = strip(cn)
    if cn is None:
        return None
    if cn['k'] == 'BinaryOperator' and cn.get('op') in ('==', '!='):
        l, r = strip(cn['c'][0]), strip(cn['c'][1])
        for a, b in ((l, r), (r, l)):
            if a['k'] == 'DeclRefExpr' and a['ref'].get('lid') == lid and tab.const_of(b) == value:
                return cn['op'] == '=='
    if cn['k'] == 'UnaryOperator' and cn.get('op') == '!':
        inner = const_test_edge(cn['c'][0], lid, value)
        return None if inner is None else not inner
    return None


def zero_test_edge(cn, lid):
    """which outcome (True/False) of condition cn means `variable lid is zero`; None if cn is not a zero test of it.
    Idioms: x == 0, 0 == x, x != 0, 0 != x, !x, x (as a condition), x < 1 is not accepted"""
    cn = strip(cn)
    if cn is None:
        return None
    if cn['k'] == 'BinaryOperator' and cn.get('op') in ('==', '!='):
        l, r = strip(cn['c'][0]), strip(cn['c'][1])
        for a, b in ((l, r), (r, l)):
            if a['k'] == 'DeclRefExpr' and a['ref'].get('lid') == lid and tab.const_of(b) == 0:
                return cn['op'] == '=='
        return None
    if cn['k'] == 'UnaryOperator' and cn.get('op') == '!':
        inner = zero_test_edge(cn['c'][0], lid)
        if inner is not None:
            return not inner
        x = strip(cn['c'][0])
        if x['k'] == 'DeclRefExpr' and x['ref'].get('lid') == lid:
            return True
        return None
    if cn['k'] == 'DeclRefExpr' and cn['ref'].get('lid') == lid:
        return False
    return None


def logical_truth_table(fb, ev, arm):
    """exact evaluation of the shared && / || arm of evaluateExpr over (operator, left, right) in {AND, OR} x {T, F}^2:
    {(K, L, R): (returned truth value, right operand evaluated?)}.  Walks the arm's CFG with the bool locals bound; the two
    operands are the nodes fetched first / second from the operand iterator.  Returns None if a construct is not understood."""
    g = cfgm.CFG(ev)
    fetch = []
    for st_ in arm['eff']:
        for x in sub(st_):
            if x['k'] == 'DeclStmt':
                for d_ in x.get('decls', []):
                    if 'init' in d_ and 'PromelaParserNode' in (d_.get('t') or '') and any(y['k'] == 'DeclRefExpr' and y.get('ref', {}).get('name') == 'opIter' for y in sub(d_['init'])):
                        fetch.append(d_['lid'])
    if len(fetch) < 2:
        return None
    first = None
    for st_ in arm['eff']:
        for x in sub(st_):
            if x['id'] in g.pos:
                first = g.pos[x['id']]
                break
        if first:
            break
    if first is None:
        return None

    class Unknown(Exception):
        pass
    out = {}
    for K in ('PML_AND', 'PML_OR'):
        for L in (True, False):
            for R in (True, False):
                res = set()

                def side(n):
                    lids = {y['ref'].get('lid') for y in sub(n) if y['k'] == 'DeclRefExpr' and 'lid' in y.get('ref', {})}
                    return 'L' if fetch[0] in lids else 'R' if fetch[1] in lids else None

                def val(n, env, st):
                    n = strip(n)
                    k = n['k']
                    if k == 'CXXBoolLiteralExpr':
                        return bool(n.get('int', n.get('cval', n.get('val', 0))))
                    if k == 'IntegerLiteral':
                        return bool(n.get('int'))
                    if k == 'DeclRefExpr' and n.get('ref', {}).get('lid') in env:
                        return env[n['ref']['lid']]
                    if k == 'UnaryOperator' and n.get('op') == '!':
                        return not val(n['c'][0], env, st)
                    if k == 'BinaryOperator' and n.get('op') in ('&&', '||'):
                        a_ = val(n['c'][0], env, st)
                        if (n['op'] == '&&' and not a_) or (n['op'] == '||' and a_):
                            return a_
                        return val(n['c'][1], env, st)
                    if k == 'BinaryOperator' and n.get('op') in ('==', '!='):
                        names = {y.get('ref', {}).get('name') for y in sub(n)} | {m[0] for y in sub(n) for m in (y.get('mac') or [])}
                        for kk in ('PML_AND', 'PML_OR'):
                            if kk in names:
                                return (K == kk) == (n['op'] == '==')
                    if k in ('CallExpr', 'CXXMemberCallExpr', 'CXXConstructExpr', 'CXXTemporaryObjectExpr', 'CXXFunctionalCastExpr', 'CXXBindTemporaryExpr', 'MaterializeTemporaryExpr', 'ExprWithCleanups'):
                        calls = [y for y in sub(n) if y.get('callee', {}).get('q', '').endswith('evaluateExpr')]
                        if calls:
                            sd = side(calls[0])
                            if sd == 'R':
                                st['rhs'] = True
                            if sd:
                                return L if sd == 'L' else R
                        inner = [c_ for c_ in n.get('c', []) if c_ is not None]
                        # Data(x) / dataToBool(x): the value of the (last) argument
                        if inner:
                            return val(inner[-1], env, st)
                    if k == 'ConditionalOperator':
                        return val(n['c'][1], env, st) if val(n['c'][0], env, st) else val(n['c'][2], env, st)
                    raise Unknown(k)
                seen = set()
                work = [(first[0], first[1], (), False)]
                try:
                    while work:
                        b, i, envt, rhs = work.pop()
                        if (b, i, envt, rhs) in seen:
                            continue
                        seen.add((b, i, envt, rhs))
                        env = dict(envt)
                        st = {'rhs': rhs}
                        blk = g.blocks[b]
                        done = False
                        for j in range(i, len(blk['el'])):
                            n = ev.nodes.get(blk['el'][j])
                            if n is None:
                                continue
                            if n['k'] == 'ReturnStmt' and n.get('c'):
                                res.add((val(n['c'][0], env, st), st['rhs']))
                                done = True
                                break
                            if n['k'] == 'DeclStmt':
                                for d_ in n.get('decls', []):
                                    if 'init' in d_ and (d_.get('t') or '') in ('bool', '_Bool'):
                                        env[d_['lid']] = val(d_['init'], env, st)
                                    elif 'init' in d_ and 'Data' in (d_.get('t') or '') and any(y.get('callee', {}).get('q', '').endswith('evaluateExpr') for y in sub(d_['init'])):
                                        env[d_['lid']] = val(d_['init'], env, st)
                            if n['k'] == 'BinaryOperator' and n.get('op') == '=':
                                l_ = strip(n['c'][0])
                                if l_['k'] == 'DeclRefExpr' and l_.get('ref', {}).get('lid') in env:
                                    env[l_['ref']['lid']] = val(n['c'][1], env, st)
                        if done:
                            continue
                        succ = g.succ_labeled(b)
                        c = blk.get('cond')
                        if c is not None and c in ev.nodes and any(l is not None for _, l in succ):
                            v = val(ev.nodes[c], env, st)
                            for s_, lab in succ:
                                if lab is None or lab == v:
                                    work.append((s_, 0, tuple(sorted(env.items())), st['rhs']))
                        else:
                            for s_, lab in succ:
                                work.append((s_, 0, tuple(sorted(env.items())), st['rhs']))
                except Unknown:
                    return None
                if len(res) != 1:
                    return None
                out[(K, L, R)] = next(iter(res))
    return out


def check_divisions(rep, fb, rule):
    """every integer / and % in PromelaDataModel::evaluateExpr is dominated by a zero test of its divisor that leaves the arm"""
    ev0 = fb.fn('uscxml::PromelaDataModel::evaluateExpr', params=['void *'])
    # the evaluator and the file-local helpers it calls (an arm may hand its evaluated operands to a checked helper)
    fns = [ev0] + [fb.funcs[n['callee']['m']] for n in ev0.walk() if n['k'] == 'CallExpr' and n.get('callee', {}).get('m') in fb.funcs and
                   fb.funcs[n['callee']['m']].file == ev0.file and fb.funcs[n['callee']['m']].rec is None and fb.funcs[n['callee']['m']].d.get('cfg')]
    seen_f = set()
    all_divs = []
    for ev in fns:
        if ev.m in seen_f:
            continue
        seen_f.add(ev.m)
        all_divs += [(ev, n) for n in ev.walk() if n['k'] == 'BinaryOperator' and n.get('op') in ('/', '%') and 'int' in n.get('t', '')]
    rep.minimum(rule, len(all_divs), 2, 'integer / and % in evaluateExpr and its helpers')
    for ev, d in all_divs:
        g = cfgm.CFG(ev)
        div = strip(d['c'][1])
        lid = div['ref'].get('lid') if div['k'] == 'DeclRefExpr' else None
        ok = False
        if lid is not None:
            for bid, b in g.blocks.items():
                c = b.get('cond')
                if c is None or c not in ev.nodes:
                    continue
                cn = strip(ev.nodes[c])
                zero_edge = zero_test_edge(cn, lid)
                if zero_edge is None:
                    continue
                succ = g.succ_labeled(bid)
                zs = [s for s, lab in succ if lab is zero_edge]
                nz = [s for s, lab in succ if lab is (not zero_edge)]
                if not zs or d['id'] not in g.pos:
                    continue
                # the division is not reachable from the zero edge, and every path to it passes this test
                tgt = g.pos[d['id']][0]
                from_zero = tgt in g.reachable_blocks(zs[0])
                # paths avoiding the test block
                seen = {g.entry}
                work = [g.entry]
                while work:
                    x = work.pop()
                    for s in g.succ(x):
                        if s != bid and s not in seen:
                            seen.add(s)
                            work.append(s)
                if not from_zero and tgt not in seen:
                    ok = True
        rep.check(ok, rule, 'evaluateExpr|%s' % d['op'], locstr(d), 'integer %s with divisor `%s`: zero test that leaves the arm %s' % (d['op'], fb.text(d['c'][1]), 'dominates it' if ok else 'is MISSING (SIGFPE)'))
        # INT_MIN / -1 and INT_MIN % -1 overflow and trap on the targets this is built for: the divisor -1 never reaches the operator
        ok1 = False
        if lid is not None:
            for bid, b in g.blocks.items():
                c = b.get('cond')
                if c is None or c not in ev.nodes:
                    continue
                edge = const_test_edge(ev.nodes[c], lid, -1)
                if edge is None:
                    continue
                succ = g.succ_labeled(bid)
                eq = [s_ for s_, lab in succ if lab is edge]
                if not eq or d['id'] not in g.pos:
                    continue
                tgt = g.pos[d['id']][0]
                seen = {g.entry}
                work = [g.entry]
                while work:
                    x = work.pop()
                    for s_ in g.succ(x):
                        if s_ != bid and s_ not in seen:
                            seen.add(s_)
                            work.append(s_)
                if tgt not in g.reachable_blocks(eq[0]) and tgt not in seen:
                    ok1 = True
        rep.check(ok1, rule, 'evaluateExpr|%s|minus one' % d['op'], locstr(d), 'integer %s with divisor `%s`: the divisor -1 %s' % (d['op'], fb.text(d['c'][1]), 'is handled before the operator' if ok1 else 'REACHES the operator: INT_MIN %s -1 overflows (SIGFPE on x86)' % d['op']))


def check_element_accessor(rep, fb, rule):
    """Data::operator[](size_t), the accessor both array paths end in, returns an element that exists: the growth loop runs while
    size <= index (with `size < index` the walk of `index` steps ends on end() for every index >= size)"""
    acc = None
    for f in fb.funcs.values():
        if f.q == 'uscxml::Data::operator[]' and f.d.get('params') and 'size_t' in (f.d['params'][0].get('t') or '') and f.d.get('body'):
            acc = f
    if acc is None:
        raise AnalysisBroken('Data::operator[](size_t) not found')
    loops = [n for n in acc.walk() if n['k'] == 'WhileStmt' and any(x.get('callee', {}).get('q', '').endswith('::size') for x in sub(n['c'][0]))]
    if not loops:
        # no growth at all: then the walk must be bounded some other way; not an idiom this rule knows
        raise AnalysisBroken('Data::operator[](size_t): growth loop not found')
    for lp in loops:
        c = strip(lp['c'][0])
        ok = False
        why = fb.text(c)
        if c['k'] == 'BinaryOperator' and c.get('op') in ('<', '<=', '>', '>='):
            l, r = strip(c['c'][0]), strip(c['c'][1])
            l_size = any(x.get('callee', {}).get('q', '').endswith('::size') for x in sub(l))
            r_size = any(x.get('callee', {}).get('q', '').endswith('::size') for x in sub(r))
            plus1 = lambda e: e['k'] == 'BinaryOperator' and e.get('op') == '+' and tab.const_of(e['c'][1]) == 1
            if l_size and c['op'] == '<=' and not plus1(r):
                ok = True
            elif l_size and c['op'] == '<' and plus1(r):
                ok = True
            elif r_size and c['op'] == '>=' and not plus1(l):
                ok = True
            elif r_size and c['op'] == '>' and plus1(l):
                ok = True
        rep.check(ok, rule, 'Data::operator[](size_t)|element exists', locstr(lp), 'the list grows while `%s`: afterwards %s' % (
            ' '.join(why.split()), 'size > index, the element exists' if ok else 'only size >= index is known: for index == size the returned reference is *end() (a write corrupts the list, observed as SIGSEGV)'))


def check_index_bounds(rep, fb, rule):
    check_element_accessor(rep, fb, rule)
    """array index computations in PromelaDataModel::get/setVariable are rejected below 0 and from the declared size on"""
    # array index guards
    idx_sites = 0
    for fq in ('uscxml::PromelaDataModel::setVariable', 'uscxml::PromelaDataModel::getVariable'):
      for f in fb.fns(fq):
        for n in f.walk():
            if n['k'] == 'DeclStmt' and n.get('decls') and n['decls'][0]['name'] == 'index' and n['decls'][0]['t'] == 'int':
                lid = n['decls'][0]['lid']
                comp = f.parent(n)
                lower = upper = False
                upper_k = None
                for s in sub(comp):
                    if s['k'] == 'BinaryOperator' and s.get('op') in ('<', '<=', '>', '>='):
                        l, r = strip(s['c'][0]), strip(s['c'][1])
                        li = l['k'] == 'DeclRefExpr' and l['ref'].get('lid') == lid
                        ri = r['k'] == 'DeclRefExpr' and r['ref'].get('lid') == lid
                        if li and tab.const_of(r) == 0 and s['op'] == '<':
                            lower = True
                        if ri and tab.const_of(l) == 0 and s['op'] == '>':
                            lower = True
                        if (ri or li) and tab.const_of(l if ri else r) is None:
                            # error condition in the form  index - SIZE >= k : k must be <= 0 to reject index == SIZE
                            k = None
                            if ri:       # SIZE op index
                                k = {'<=': 0, '<': 1}.get(s['op'])
                            else:        # index op SIZE
                                k = {'>=': 0, '>': 1}.get(s['op'])
                            if k is not None:
                                upper = (k <= 0)
                                upper_k = k
                idx_sites += 1
                rep.check(lower and upper, rule, '%s|index-bounds' % fq, locstr(n), 'array index error test: index - size >= %s (must be <= 0 to reject index == size): %s; index < 0 rejected: %s' % (upper_k, upper, lower))
    rep.minimum(rule, idx_sites, 2, 'array index computations in get/setVariable')


def run(rep, tier):
    rep.rule('R17.1', 'precedence/associativity: for every ordered pair (quick) / triple (thorough) of the 15 binary operators the shipped LALR tables group `c op c op c` like Promela/C; unary -/! bind at least as tight as value-equivalence requires')
    rep.rule('R17.2', 'every operator of the property\'s set that an expr production constructs has an arm in evaluateExpr; every other constructed kind reaches the default arm that raises error.execution')
    rep.rule('R17.3', 'arity agreement: for each node kind, every arity a production constructs is handled by the evaluator arm without dereferencing more operands than exist')
    rep.rule('R17.4', 'operand order: no full-expression in the evaluators increments the operand iterator twice in unsequenced operands')
    rep.rule('R17.6', 'operator table: the arm of each arithmetic / relational / bitwise operator applies exactly that C operator to operands of type int (signed: >> is arithmetic, / % and comparisons are signed), and the logical operators apply && / || / ! to booleans')
    rep.rule('R17.5', 'faults are errors: every integer / and % in evaluateExpr is unreachable with a zero divisor (zero test that throws dominates it); array index uses are guarded below and above')
    rep.assume('numeric results and struct/array read-back values are not decided')
    fb = facts.FactBase(TUS)
    T = lr.Tables(fb, TAB)
    rep.covered(tus=len(TUS), extracted=fb.extracted, lalr_states=len(T.yypact), lalr_rules=len(T.yyr1), table_entries=len(T.yytable))

    # ---- R17.1 pairs
    bad_pairs = set()
    for a, b in itertools.product(OPS, OPS):
        toks = ['PML_CONST', a, 'PML_CONST', b, 'PML_CONST']
        try:
            got = lr.simplify(T.parse(toks))
        except ValueError as e:
            rep.fail('R17.1', '%s,%s' % (a, b), TAB, 'c %s c %s c is rejected by the shipped parser: %s' % (SPELL[a], SPELL[b], e))
            bad_pairs.add((a, b))
            continue
        want = ref_tree([a, b])
        if got != want:
            bad_pairs.add((a, b))
        rep.check(got == want, 'R17.1', '%s,%s' % (a, b), TAB,
                  'c %s c %s c groups as %s; Promela/C: %s' % (SPELL[a], SPELL[b], show(got), show(want)))
    rep.sample({'expr': 'c || c && c', 'tables': show(lr.simplify(T.parse(['PML_CONST', 'PML_OR', 'PML_CONST', 'PML_AND', 'PML_CONST'])))})
    # unary operators
    for u in ('PML_MINUS', 'PML_NEG'):
        for b in OPS:
            got = lr.simplify(T.parse([u, 'PML_CONST', b, 'PML_CONST']))
            tight = isinstance(got, tuple) and got[0] == 'bin' and got[1] == b and isinstance(got[2], tuple) and got[2][0] == 'un'
            # -(a*b), -(a/b), -(a%b) equal (-a)*b, (-a)/b, (-a)%b in C integer arithmetic: value-equivalent grouping
            equiv = u == 'PML_MINUS' and PREC[b] == 10 and isinstance(got, tuple) and got[0] == 'un'
            rep.check(tight or equiv, 'R17.1', 'unary %s,%s' % (u, b), TAB, '%sc %s c groups as %s%s' % (
                '-' if u == 'PML_MINUS' else '!', SPELL[b], show(got), ' (value-equivalent)' if equiv and not tight else ''))
            got2 = lr.simplify(T.parse(['PML_CONST', b, u, 'PML_CONST']))
            ok2 = isinstance(got2, tuple) and got2[0] == 'bin' and got2[1] == b and isinstance(got2[3], tuple) and got2[3][0] == 'un'
            rep.check(ok2, 'R17.1', 'unary-rhs %s,%s' % (b, u), TAB, 'c %s %sc groups as %s' % (SPELL[b], '-' if u == 'PML_MINUS' else '!', show(got2)))
    # a unary minus below another unary operator: the value-equivalence of -(a*b) and (-a)*b does not carry over, !(-(z*2)) is not (!(-z))*2
    for b in [o for o in OPS if PREC[o] == 10]:
        got3 = lr.simplify(T.parse(['PML_NEG', 'PML_MINUS', 'PML_CONST', b, 'PML_CONST']))
        tight3 = isinstance(got3, tuple) and got3[0] == 'bin' and got3[1] == b
        rep.check(tight3, 'R17.1', 'unary !-,%s' % b, TAB, '!-c %s c groups as %s%s' % (SPELL[b], show(got3), '' if tight3 else
                  ': the unary minus has the precedence of the binary one (`PML_MINUS expr %prec PML_MINUS`), so the product ends up below the !; with z == 0, !-z*2 evaluates to 1, Promela / C give 2'))
    # parentheses override
    got = lr.simplify(T.parse(['PML_CONST', 'PML_TIMES', "'('", 'PML_CONST', 'PML_PLUS', 'PML_CONST', "')'"]))
    rep.check(got == ('bin', 'PML_TIMES', 'PML_CONST', ('paren', ('bin', 'PML_PLUS', 'PML_CONST', 'PML_CONST'))), 'R17.1', 'parentheses', TAB, 'c * (c + c) groups as %s' % show(got))
    if tier == 'thorough':
        # an LALR(1) precedence parser decides pairwise: with `x` on the stack and `y` as look-ahead it reduces iff `c x c y c` groups to
        # the left.  The triples therefore add nothing to the pairs unless the tables are inconsistent: every triple must group as the
        # pairwise decisions predict; deviations from Promela/C that follow from a reported pair are not reported again.
        left = {}
        for a, b in itertools.product(OPS, OPS):
            t = lr.simplify(T.parse(['PML_CONST', a, 'PML_CONST', b, 'PML_CONST']))
            left[(a, b)] = isinstance(t, tuple) and t[0] == 'bin' and t[1] == b

        def predicted(ops):
            out, stack = ['PML_CONST'], []
            def reduce_():
                op = stack.pop()
                r = out.pop()
                l = out.pop()
                out.append(('bin', op, l, r))
            for o in ops:
                while stack and left[(stack[-1], o)]:
                    reduce_()
                stack.append(o)
                out.append('PML_CONST')
            while stack:
                reduce_()
            return out[0]
        n3 = 0
        for a, b, c in itertools.product(OPS, OPS, OPS):
            n3 += 1
            got = lr.simplify(T.parse(['PML_CONST', a, 'PML_CONST', b, 'PML_CONST', c, 'PML_CONST']))
            pred = predicted([a, b, c])
            if got != pred:
                rep.fail('R17.1', '%s,%s,%s' % (a, b, c), TAB, 'c %s c %s c %s c groups as %s, which the pairwise decisions of the same tables do not predict (%s)' % (SPELL[a], SPELL[b], SPELL[c], show(got), show(pred)))
                continue
            want = ref_tree([a, b, c])
            if got != want and not bad_pairs:
                rep.fail('R17.1', '%s,%s,%s' % (a, b, c), TAB, 'c %s c %s c %s c groups as %s; Promela/C: %s' % (SPELL[a], SPELL[b], SPELL[c], show(got), show(want)))
        rep.ok('R17.1', 'triples', '%d operator triples group as the pairwise decisions predict' % n3)
        rep.covered(triples=n3)
    # grammar source vs shipped tables (drift is reported as note: the build compiles the tables, not the .ypp)
    try:
        levels = []
        for line in open(os.path.join(REPO, YPP), errors='replace'):
            m = re.match(r'\s*%(left|right|nonassoc)\s+(.*)', line)
            if m:
                levels.append((m.group(1), m.group(2).split()))
        prec_y = {}
        for i, (assoc, names) in enumerate(levels):
            for nme in names:
                prec_y[nme] = (i, assoc)
        drift = []
        for a, b in itertools.product(OPS, OPS):
            if a in prec_y and b in prec_y:
                pa, pb = prec_y[a], prec_y[b]
                right = pb[0] > pa[0] or (pb[0] == pa[0] and pa[1] == 'right')
                got = lr.simplify(T.parse(['PML_CONST', a, 'PML_CONST', b, 'PML_CONST']))
                got_right = isinstance(got[3], tuple)
                if right != got_right:
                    drift.append((a, b))
        if drift:
            rep.note('R17.1: promela.ypp precedence lines and the shipped tables disagree for %d pairs (tables are what is compiled): %s' % (len(drift), drift[:5]))
        else:
            rep.note('R17.1: promela.ypp %left/%right lines agree with the shipped tables on all 225 pairs')
    except OSError:
        rep.note('R17.1: promela.ypp not readable; drift comparison skipped')

    # ---- R17.2 / R17.3: constructed kinds and arities per expr production
    pp = fb.fn('promela_parse')
    sw = None
    for n in pp.walk():
        if n['k'] == 'SwitchStmt':
            arms = tab.switch_arms(n)
            if len(arms) > 40:
                sw = arms
    if sw is None:
        raise AnalysisBroken('reduce switch of promela_parse not found')
    expr_syms = {'expr', 'varref', 'pfld', 'cmpnd', 'sfld'}
    constructed = {}    # kind -> set(arity)
    for a in sw:
        for rule in a['values']:
            if rule is None or rule >= len(T.yyr1):
                continue
            lhs = T.yytname[T.yyr1[rule]]
            if lhs not in expr_syms:
                continue
            for st in a['stmts']:
                for s in sub(st):
                    q = s.get('callee', {}).get('q', '')
                    if q in ('uscxml::PromelaParser::node', 'uscxml::PromelaParser::value') and len(s.get('c', [])) >= 2:
                        kind = tab.enum_name(s['c'][1])
                        if kind is None:
                            continue
                        ar = tab.const_of(s['c'][2]) if q.endswith('::node') and len(s['c']) > 2 else 0
                        constructed.setdefault(kind, set()).add(ar)
    rep.minimum('R17.2', len(constructed), 20, 'node kinds constructed by expr productions')
    ev = fb.fn('uscxml::PromelaDataModel::evaluateExpr', params=['void *'])
    esw = None
    for n in ev.walk():
        if n['k'] == 'SwitchStmt':
            esw = n
            break
    if esw is None:
        raise AnalysisBroken('evaluateExpr: switch over node->type not found')
    earms = tab.switch_arms(esw)
    arm_of = {}
    default_throws = False
    for a in earms:
        for nme in a['names']:
            if nme:
                arm_of[nme] = a
        if a['default']:
            default_throws = any(s['k'] == 'CXXThrowExpr' for st in a['eff'] for s in sub(st))
    rep.minimum('R17.2', len(arm_of), 15, 'evaluator arms')
    for kind in sorted(constructed):
        if kind in PREC or kind in ('PML_NEG',):
            rep.check(kind in arm_of, 'R17.2', kind, ev.where(), 'operator %s is parsed (arity %s) and %s' % (
                SPELL.get(kind, kind), sorted(constructed[kind]), 'evaluated' if kind in arm_of else 'has NO evaluator arm (raises "not implemented")'))
        elif kind not in arm_of:
            rep.check(default_throws, 'R17.2', kind + '|default', ev.where(), 'kind %s (outside the property\'s operator set) has no arm; default arm raises error.execution: %s' % (kind, default_throws))
    # arity
    for kind in sorted(constructed):
        if kind not in arm_of:
            continue
        a = arm_of[kind]
        # shared arms (case A: case B:) are fine; find arity dispatch
        dispatch = {}
        rest_stmts = []
        for st in a['eff']:
            for s in ([st] if st['k'] != 'CompoundStmt' else st.get('c', [])):
                if s['k'] == 'IfStmt':
                    c = strip(s['c'][0])
                    if c['k'] == 'BinaryOperator' and c.get('op') == '==' and any(x.get('ref', {}).get('name') == 'operands' for x in sub(c['c'][0])) and tab.const_of(c['c'][1]) is not None and tab.ends_control([s['c'][1]]):
                        dispatch[tab.const_of(c['c'][1])] = s['c'][1]
                        continue
                rest_stmts.append(s)
        rest = sum(opiter_derefs(s) for s in rest_stmts)
        for ar in sorted(constructed[kind]):
            if ar in dispatch:
                need = opiter_derefs(dispatch[ar])
            else:
                need = rest
            rep.check(need <= ar, 'R17.3', '%s/%d' % (kind, ar), locstr(a['node']),
                      '%s constructed with %d operand(s); evaluator arm dereferences %d on that path' % (kind, ar, need))

    # ---- R17.4
    n_full = 0
    for fq in ('uscxml::PromelaDataModel::evaluateExpr', 'uscxml::PromelaDataModel::evaluateStmnt', 'uscxml::PromelaDataModel::evaluateDecl',
               'uscxml::PromelaDataModel::setVariable', 'uscxml::PromelaDataModel::getVariable'):
        for f in fb.fns(fq):
          for n in f.walk():
            if n['k'] == 'BinaryOperator' and n.get('op') not in ('&&', '||', ',', '=') or n['k'] in ('CallExpr', 'CXXConstructExpr', 'CXXMemberCallExpr'):
                kids = [c for c in n.get('c', [])]
                with_inc = [k for k in kids if incs_of(k)]
                n_full += 1
                if len(with_inc) >= 2:
                    rep.fail('R17.4', '%s|%s' % (fq, n.get('op') or n.get('callee', {}).get('q', '?')), locstr(n),
                             'two operands of one expression both advance the operand iterator (unsequenced): %s' % fb.text(n)[:90])
    rep.ok('R17.4', 'evaluators', '%d operator/call expressions inspected' % n_full)

    # ---- R17.5
    # ---- R17.6
    WANT = {'PML_PLUS': '+', 'PML_MINUS': '-', 'PML_TIMES': '*', 'PML_DIVIDE': '/', 'PML_MODULO': '%', 'PML_LSHIFT': '<<', 'PML_RSHIFT': '>>',
            'PML_BITAND': '&', 'PML_BITOR': '|', 'PML_BITXOR': '^', 'PML_LT': '<', 'PML_LE': '<=', 'PML_GT': '>', 'PML_GE': '>=', 'PML_AND': '&&', 'PML_OR': '||'}
    nops = 0
    for kind, cop in sorted(WANT.items()):
        if kind not in arm_of:
            continue
        a = arm_of[kind]
        if len([x for x in a['names'] if x]) > 1 and cop in ('&&', '||') and {'PML_AND', 'PML_OR'} == {nm for nm in a['names'] if nm}:
            # the logical arm: exact truth table of what it returns (if-form, operator form and short-circuit forms alike)
            tt = logical_truth_table(fb, ev, a)
            if tt is None:
                raise AnalysisBroken('evaluateExpr: the shared && / || arm could not be evaluated symbolically')
            nops += 1
            wrong = [(k_, tt[k_][0]) for k_ in sorted(tt) if k_[0] == kind and tt[k_][0] != ((k_[1] and k_[2]) if kind == 'PML_AND' else (k_[1] or k_[2]))]
            rep.check(not wrong, 'R17.6', kind, locstr(a['node']), 'truth table of the %s arm over (left, right): %s%s' % (cop, {(k_[1], k_[2]): tt[k_][0] for k_ in tt if k_[0] == kind},
                      '' if not wrong else ' -- WRONG for %s' % [(k_[1], k_[2]) for k_, _ in wrong]))
            continue
        if len([x for x in a['names'] if x]) > 1:
            # shared arm: the operator of `kind` must be applied to the two evaluated operands under the test of node->type
            # for `kind` (nested switch, if-chain or conditional), or as the one unguarded remainder of such a chain
            evald = set()
            for st in a['eff']:
                for x in sub(st):
                    if x['k'] == 'DeclStmt':
                        for d_ in x.get('decls', []):
                            if 'init' in d_ and any(y.get('callee', {}).get('q', '').endswith(('dataToInt', 'evaluateExpr', 'dataToBool')) for y in sub(d_['init'])):
                                evald.add(d_['lid'])
            kinds_here = {nm for nm in a['names'] if nm}

            def kinds_guarding(x):
                ks = set()
                child = x
                for anc in ev.ancestors(x):
                    if anc is a['node'] or anc['k'] == 'SwitchStmt' and any(y is a['node'] for y in sub(anc)):
                        break
                    if anc['k'] in ('IfStmt', 'ConditionalOperator') and len(anc.get('c', [])) > 1 and any(y is x for y in sub(anc['c'][1])):
                        ks |= {y['ref'].get('name') for y in sub(anc['c'][0]) if y['k'] == 'DeclRefExpr' and y.get('ref', {}).get('name') in kinds_here}
                    if anc['k'] == 'SwitchStmt':
                        for a2 in tab.switch_arms(anc):
                            if any(y is x for st2 in a2['stmts'] for y in sub(st2)):
                                ks |= {nm for nm in a2['names'] if nm in kinds_here}
                return ks
            apps = []
            for st in a['eff']:
                for x in sub(st):
                    if x['k'] == 'BinaryOperator' and x.get('op') == cop and len(x.get('c', [])) == 2:
                        opnds = [strip(k_) for k_ in x['c']]
                        if all(o and o['k'] == 'DeclRefExpr' and o.get('ref', {}).get('lid') in evald and (o.get('t') or '').replace('const ', '') in (('bool', '_Bool') if cop in ('&&', '||') else ('int',)) for o in opnds) and \
                                opnds[0]['ref']['lid'] != opnds[1]['ref']['lid']:
                            g_ = kinds_guarding(x)
                            if g_ == {kind} or not g_:
                                apps.append((x, g_))
            nops += 1
            rep.check(bool(apps), 'R17.6', kind, locstr(a['node']), 'shared arm of %s: `%s` %s' % (sorted(kinds_here), cop,
                      'is applied to the two evaluated operands under the test for %s' % kind if apps else
                      'is NOT applied to the two evaluated operands under the test for %s (a derived quantity such as left - right overflows for operands of opposite sign)' % kind))
            continue
        bins = []
        for st in a['eff']:
            for x in sub(st):
                if x['k'] == 'BinaryOperator' and x.get('op') in set(WANT.values()) | {'==', '!='} and len(x.get('c', [])) == 2:
                    ts = [((strip(k_) or {}).get('t') or '').replace('const ', '') for k_ in x['c']]
                    # the operator that combines the two evaluated operands (not the zero test `right == 0`)
                    if any(strip(k_)['k'] == 'IntegerLiteral' for k_ in x['c'] if strip(k_)):
                        continue
                    if x['op'] in ('==', '!=') and any(y['k'] == 'MemberExpr' for k_ in x['c'] for y in sub(k_)):
                        continue
                    bins.append((x, ts))
        if not bins:
            # the arm hands its evaluated operands to a file-local helper: the operator application is looked up there
            for st in a['eff']:
                for c_ in sub(st):
                    if c_['k'] == 'CallExpr' and c_.get('callee', {}).get('m') in fb.funcs and fb.funcs[c_['callee']['m']].file == ev.file and fb.funcs[c_['callee']['m']].rec is None:
                        hf = fb.funcs[c_['callee']['m']]
                        plids = [p_['lid'] for p_ in hf.d.get('params', [])]
                        for x in hf.walk():
                            if x['k'] == 'BinaryOperator' and x.get('op') in set(WANT.values()) and len(x.get('c', [])) == 2:
                                os_ = [strip(k_) for k_ in x['c']]
                                if all(o_ is not None and o_['k'] == 'DeclRefExpr' and o_.get('ref', {}).get('lid') in plids for o_ in os_) and \
                                        [o_['ref']['lid'] for o_ in os_] == plids[:2]:
                                    bins.append((x, [(o_.get('t') or '').replace('const ', '') for o_ in os_]))
        if not bins:
            raise AnalysisBroken('evaluateExpr: no operator application found in the arm of %s' % kind)
        nops += 1
        x, ts = bins[-1]
        logical = cop in ('&&', '||')
        # + - * << give the same bits on unsigned operands (mod 2^32); signedness decides the result of >> / % < <= > >=
        want_t = ('bool', '_Bool') if logical else ('int',) if cop in ('>>', '/', '%', '<', '<=', '>', '>=') else ('int', 'unsigned int')
        # operands of integral promotions: look through the implicit casts clang inserts (bool -> int for &&/|| operands is not inserted)
        raw = []
        for k_ in x['c']:
            y = k_
            while y and y['k'] == 'ImplicitCastExpr' and y.get('ck') in ('IntegralCast', 'LValueToRValue', 'NoOp', 'IntegralToBoolean') and y.get('c'):
                if y.get('ck') == 'IntegralCast':
                    inner = strip(y['c'][0])
                    raw.append(((inner or {}).get('t') or '').replace('const ', ''))
                    break
                y = y['c'][0]
            else:
                raw.append(((strip(k_) or {}).get('t') or '').replace('const ', ''))
        ok = x['op'] == cop and all(t in want_t for t in raw)
        rep.check(ok, 'R17.6', kind, locstr(x), 'the arm of %s applies `%s` to operands of type %s (expected `%s` on %s)' % (kind, x['op'], raw, cop, '/'.join(want_t)))
    rep.minimum('R17.6', nops, 11, 'one-operator evaluator arms')

    check_divisions(rep, fb, 'R17.5')
    check_index_bounds(rep, fb, 'R17.5')

    # ---- R17.7 .. R17.10 (audit round)
    rep.rule('R17.7', 'a declaration without initialiser keeps its zero default: PromelaDataModel::init stores the initial value only under a non-emptiness test of that value (<data id="u" type="int"/> hands an empty Data, which otherwise wipes the 0 that evaluateDecl stored)')
    ini = fb.fn('uscxml::PromelaDataModel::init')
    gi = cfgm.CFG(ini)
    from .C08 import edge_dominates
    dpar = [p_['lid'] for p_ in ini.d.get('params', []) if 'Data' in (p_.get('t') or '')]
    stores = [n for n in ini.walk() if n.get('callee', {}).get('q', '').endswith('PromelaDataModel::setVariable') and n['id'] in gi.pos]
    rep.minimum('R17.7', len(stores), 1, 'setVariable calls in PromelaDataModel::init')
    for st in stores:
        raw = len(st.get('c', [])) > 2 and strip(st['c'][2]) is not None and strip(st['c'][2])['k'] == 'DeclRefExpr' and strip(st['c'][2]).get('ref', {}).get('lid') in dpar
        if not raw:
            continue          # stores a value computed from a non-empty atom
        tb = gi.pos[st['id']][0]
        guarded = False
        for bid, blk in gi.blocks.items():
            c = blk.get('cond')
            if c is None or c not in ini.nodes or bid == tb:
                continue
            cn = ini.nodes[c]
            if any(x.get('callee', {}).get('q', '').split('::')[-1] == 'empty' and x['c'][0].get('c') and strip(x['c'][0]['c'][0]).get('ref', {}).get('lid') in dpar for x in sub(cn) if x['k'] == 'CXXMemberCallExpr'):
                if edge_dominates(gi, bid, False, tb) or edge_dominates(gi, bid, True, tb):
                    guarded = True
        rep.check(guarded, 'R17.7', 'init|store of the given value', locstr(st), 'the value handed to init() is stored %s' % (
            'only if it is not empty' if guarded else 'also when it is EMPTY: a declared variable or array without initialiser reads as "" instead of 0 (u + 1 raises "Operand is not integer", cond="u" and cond="!u" are both true)'))

    rep.rule('R17.8', 'logical operators short-circuit: the arm of && / || evaluates its right operand only under a test of the left operand\'s value (x != 0 && 10 / x > 1 is 0 in Promela and C, not a division by zero)')
    for kind in ('PML_AND', 'PML_OR'):
        if kind not in arm_of:
            continue
        a = arm_of[kind]
        tt = logical_truth_table(fb, ev, a)
        if tt is None:
            raise AnalysisBroken('evaluateExpr: the %s arm could not be evaluated symbolically' % kind)
        # the right operand is needed iff the left one does not decide: AND with left true, OR with left false
        eager = [(k_[1], k_[2]) for k_ in sorted(tt) if k_[0] == kind and tt[k_][1] and not ((kind == 'PML_AND') == k_[1])]
        rep.check(not eager, 'R17.8', kind, locstr(a['node']), 'the right operand of %s is evaluated %s' % (SPELL.get(kind, kind), 'only when the left operand does not decide the result' if not eager else
                  'ALSO when the left operand decides (left, right = %s): a guard such as `x != 0 && 10 / x > 1` or `i < 3 && a[i] == 0` raises error.execution where Promela yields 0' % eager))

    rep.rule('R17.9', 'integer constants are converted with a range check: the PML_CONST arm does not hand the digits to an unchecked strTo<int> (2147483648 saturates to INT_MAX, 4294967297 too, `skip` reads as 0)')
    ca = arm_of.get('PML_CONST')
    if ca is None:
        raise AnalysisBroken('evaluateExpr: no arm for PML_CONST')
    unchecked = [x for st_ in ca['stmts'] for x in sub(st_) if x.get('callee', {}).get('q', '') == 'uscxml::strTo' and (x.get('t') or '') in ('int', 'long', 'unsigned int')]
    helper_checked = any(x.get('callee', {}).get('q', '').split('::')[-1] in ('strtoll', 'strtol', 'stoll', 'stol') or 'ConstantToInt' in x.get('callee', {}).get('q', '') for st_ in ca['stmts'] for x in sub(st_))
    rep.check(not unchecked or helper_checked, 'R17.9', 'PML_CONST', locstr(ca['node']), 'the constant arm converts %s' % ('with a checked conversion' if not unchecked or helper_checked else 'with strTo<int> and never looks at the stream state: out-of-range literals silently become INT_MAX (2147483648 == 2147483647 is true)'))

    rep.rule('R17.10', 'struct paths keep their array index: the walk over the components of a compound name (s.arr[i]) in setVariable / getVariable distinguishes array components (PML_VAR_ARRAY) from plain names')
    for q_ in ('uscxml::PromelaDataModel::setVariable', 'uscxml::PromelaDataModel::getVariable'):
        fv = fb.fn(q_)
        sw_ = [n for n in fv.walk() if n['k'] == 'SwitchStmt']
        cm = None
        for w_ in sw_:
            for a_ in tab.switch_arms(w_):
                if 'PML_CMPND' in [nm for nm in a_['names'] if nm]:
                    cm = a_
        if cm is None:
            raise AnalysisBroken('%s: no arm for PML_CMPND' % q_)
        loops = [x for st_ in cm['stmts'] for x in sub(st_) if x['k'] in ('WhileStmt', 'ForStmt', 'DoStmt', 'CXXForRangeStmt')]
        aware = any(y['k'] == 'DeclRefExpr' and y.get('ref', {}).get('name') == 'PML_VAR_ARRAY' for l_ in loops for y in sub(l_))
        rep.check(aware or not loops, 'R17.10', q_.split('::')[-1] + '|compound path', locstr(cm['node']), 'the walk over the components of a compound name %s' % (
            'handles array components' if aware or not loops else 'uses node->value for every component: an array component has an empty value, so every s.arr[i] is the one hidden field "" (s.arr[1] = 5; s.arr[2] = 7 leaves s.arr[1] == 7 and s.arr unchanged)'))

    # ---- R17.11 / R17.12 (second audit)
    rep.rule('R17.11', 'every well-formed statement is evaluated: the entry <script> goes through (evalAsData) hands the AST to the evaluator for what the parser recognised - evaluateStmnt for statement sequences, ++ and --, evaluateDecl for declarations - not everything to evaluateExpr, which has no arm for them')
    ead = fb.fn('uscxml::PromelaDataModel::evalAsData')
    called11 = {x.get('callee', {}).get('q', '').split('::')[-1] for x in ead.walk() if x.get('callee')}
    rep.check({'evaluateStmnt', 'evaluateDecl', 'evaluateExpr'} <= called11, 'R17.11', 'evalAsData|dispatch', ead.where(), 'evalAsData calls %s%s' % (
        sorted(called11 & {'evaluateStmnt', 'evaluateDecl', 'evaluateExpr'}), '' if {'evaluateStmnt', 'evaluateDecl'} <= called11 else
        ': `x = 2; y = 3`, `x++`, `a[1]--` and `int q = 4` in a <script> raise error.execution ("Support for STMNT expressions not implemented") and leave the store untouched'))
    rep.rule('R17.12', 'a variable holds values of its declared type: every store of a value into a declared variable (initialiser, scalar and array-element assignment) passes through a reduction that reads the declared type (bit/bool, byte, short wrap like Promela / C); the model emitted by the transpiler declares the same widths')
    stores = []
    for q12 in ('uscxml::PromelaDataModel::setVariable', 'uscxml::PromelaDataModel::evaluateDecl'):
        for f12 in [f_ for f_ in fb.funcs.values() if f_.q == q12]:
            for n in f12.walk():
                if n['k'] in ('CXXOperatorCallExpr', 'BinaryOperator') and n.get('op') == '=' and len(n.get('c', [])) >= 2:
                    lhs, rhs = n['c'][-2], n['c'][-1]
                    if not any(y['k'] == 'StringLiteral' and y.get('str') == 'value' for y in sub(lhs)) or not any(y.get('ref', {}).get('name') in ('_variables', 'variable') for y in sub(lhs)):
                        continue
                    # stores of a run-time value: the parameter `value` or an evaluated expression
                    if not any((y['k'] == 'DeclRefExpr' and y.get('ref', {}).get('name') == 'value') or y.get('callee', {}).get('q', '').endswith('::evaluateExpr') for y in sub(rhs)):
                        continue
                    typed = any(y['k'] == 'StringLiteral' and y.get('str') == 'type' for y in sub(rhs)) or any(y['k'] == 'MemberExpr' and y.get('ref', {}).get('name') == 'value' and any(
                        z.get('ref', {}).get('name') == 'type' for z in sub(y)) for y in sub(rhs))
                    stores.append((f12, n, typed))
    rep.minimum('R17.12', len(stores), 3, 'stores of run-time values into declared variables (setVariable, evaluateDecl)')
    for f12, n, typed in stores:
        rep.check(typed, 'R17.12', '%s|store#%d' % (f12.q.split('::')[-1], [x for x in stores if x[0] is f12].index((f12, n, typed))), locstr(n), 'the store `%s` %s' % (
            ' '.join(fb.text(n).split())[:70], 'reduces the value to the declared type' if typed else 'keeps the int as it is: byte b = 255; b = b + 1 reads back 256 (spin: 0) while the emitted model declares `byte`'))
