"""C16 - values survive the trip through the Lua datamodel: marshalling tables, protected names (DESIGN 4/C16)."""
import re
from .. import facts, path, cfg as cfgm, tab
from ..facts import AnalysisBroken, strip, sub, locstr

TUS = ['src/uscxml/plugins/datamodel/lua/LuaDataModel.cpp', 'src/uscxml/interpreter/BasicContentExecutor.cpp', 'src/uscxml/util/Convenience.cpp']
LUA_TAGS = {'nil': ('isNil',), 'boolean': ('LUA_TBOOLEAN', 'isBoolean'), 'lightuserdata': ('isLightUserdata',), 'number': ('isNumber',), 'string': ('isString',),
            'table': ('isTable',), 'function': ('isFunction',), 'userdata': ('isUserdata',), 'thread': ('isThread',)}
SYSTEM_VARS = {'_event', '_sessionid', '_name', '_ioprocessors', '_invokers'}


def cond_tags(cond):
    found = set()
    names = {s['callee']['q'].split('::')[-1] for s in sub(cond) if s.get('callee')}
    macs = {m[0] for s in sub(cond) for m in (s.get('mac') or [])}
    for tag, keys in LUA_TAGS.items():
        if any(k in names or k in macs for k in keys):
            found.add(tag)
    return found


def assigned_type(then):
    for s in sub(then):
        if s['k'] == 'BinaryOperator' and s.get('op') == '=' and any(x['k'] == 'MemberExpr' and x['ref'].get('name') == 'type' for x in sub(s['c'][0])):
            n = tab.enum_name(s['c'][1])
            if n:
                return n
    return None


def expr_evaluated_at_execution(rep, fb):
    """R16.9: <content expr> is evaluated by the element that is executed, not by whoever receives the event"""
    from .C08 import edge_dominates
    rep.rule('R16.9', 'expressions are evaluated where they are executed: a member of the content executor that stores elementAsData(<content>) into an event evaluates the expr form itself (evalAsData under a test of the expr attribute or of the INTERPRETED tag); an unevaluated expression that travels in the event is evaluated by the receiving session, later and possibly in another data model instance')
    n_sites = 0
    for f in fb.funcs.values():
        if f.rec != 'uscxml::BasicContentExecutor' or not f.d.get('cfg'):
            continue
        stores = []
        for n in f.walk():
            if n['k'] == 'CXXOperatorCallExpr' and n.get('op') == '=' and len(n.get('c', [])) > 2:
                l = strip(n['c'][1])
                if l is not None and l['k'] == 'MemberExpr' and l['ref'].get('name') == 'data' and 'Event' in (l['ref'].get('rec') or ''):
                    if any(x.get('callee', {}).get('q', '').endswith('BasicContentExecutor::elementAsData') for x in sub(n['c'][2])):
                        stores.append(n)
            if n['k'] == 'DeclStmt':
                for d in n.get('decls', []):
                    if 'init' in d and 'Data' in (d.get('t') or '') and any(x.get('callee', {}).get('q', '').endswith('BasicContentExecutor::elementAsData') for x in sub(d['init'])):
                        # Data d = elementAsData(..) later stored into an event
                        if any(x['k'] == 'CXXOperatorCallExpr' and x.get('op') == '=' and strip(x['c'][1]).get('ref', {}).get('name') == 'data' and 'Event' in (strip(x['c'][1]).get('ref', {}).get('rec') or '') and
                               any(y['k'] == 'DeclRefExpr' and y.get('ref', {}).get('lid') == d['lid'] for y in sub(x['c'][2])) for x in f.walk() if x['k'] == 'CXXOperatorCallExpr' and len(x.get('c', [])) > 2):
                            stores.append(n)
        if not stores:
            continue
        g = cfgm.CFG(f)
        evals = [n for n in f.walk() if n.get('callee', {}).get('q', '').endswith('::evalAsData') and n['id'] in g.pos]
        for st in stores:
            n_sites += 1
            ok = False
            for e in evals:
                tb = g.pos[e['id']][0]
                for bid, blk in g.blocks.items():
                    c = blk.get('cond')
                    if c is None or c not in f.nodes or bid == tb:
                        continue
                    cn = f.nodes[c]
                    mentions_expr = any(x['k'] == 'DeclRefExpr' and x.get('ref', {}).get('name') == 'kXMLCharExpr' for x in sub(cn)) or any(
                        x['k'] == 'DeclRefExpr' and x.get('ref', {}).get('name') == 'INTERPRETED' for x in sub(cn))
                    if mentions_expr and (edge_dominates(g, bid, True, tb) or edge_dominates(g, bid, False, tb)):
                        # ... and the evaluation feeds an event's data in this function
                        par = f.parent(e)
                        while par is not None and par['k'] in facts.TRANSPARENT + ('CXXBindTemporaryExpr', 'MaterializeTemporaryExpr'):
                            par = f.parent(par)
                        if par is not None and par['k'] == 'CXXOperatorCallExpr' and par.get('op') == '=':
                            l = strip(par['c'][1])
                            if l is not None and l['k'] == 'MemberExpr' and l['ref'].get('name') == 'data':
                                ok = True
            rep.check(ok, 'R16.9', '%s|content expr' % f.q.split('::')[-1], locstr(st), '%s stores the <content> of the element into the event; the expr form %s' % (
                f.q.split('::')[-1], 'is evaluated here first' if ok else 'is NOT evaluated here: the expression text travels in the event and is evaluated when the receiver converts the payload (with the values its variables have then, in its own data model)'))
    rep.minimum('R16.9', n_sites, 3, 'members of the content executor that store <content> into an event')


def numeric_predicates(rep, fb):
    """R16.7: what the marshalling treats as "numeric" / "integer" is decided by a whole-string syntax test"""
    rep.rule('R16.7', 'numeric predicates test the syntax of the whole string: isNumeric / isInteger (on which getDataAsLua and the key ordering rely) are not character-class tests - a sign is accepted at the first position only, at most one decimal point, at least one digit ("10-3", "2024-01-05", "" are not numbers)')
    found = 0
    for name in ('uscxml::isNumeric', 'uscxml::isInteger'):
        f = fb.fn(name, required=False)
        if f is None:
            continue
        found += 1
        cls = []
        for n in f.walk():
            q = n.get('callee', {}).get('q', '').split('::')[-1]
            if q in ('find_first_not_of', 'strspn', 'find_last_not_of'):
                cls.append(n)
        # the character set of such a test: literals reachable from its argument (through locals)
        defs = path.local_defs(f)
        bad = None
        for n in cls:
            parts = list(n.get('c', [])[1:])
            seen = set()
            for _ in range(3):
                for pn in list(parts):
                    for x in sub(pn):
                        lid = x.get('ref', {}).get('lid') if x['k'] == 'DeclRefExpr' else None
                        if lid is not None and lid not in seen and lid in defs:
                            seen.add(lid)
                            parts += [i for i in defs[lid] if i is not None]
            lits = ''.join(x.get('str', '') for pn in parts for x in sub(pn) if x['k'] == 'StringLiteral')
            if '-' in lits or '.' in lits:
                bad = (n, lits)
        rep.check(bad is None, 'R16.7', name.split('::')[-1], locstr(bad[0]) if bad else f.where(), '%s %s' % (name.split('::')[-1],
                  'constrains the position of sign and decimal point' if bad is None else
                  'accepts every string over the character set "%s" (sign / point at any position, any number of times, also the empty string): "10-3" and "2024-01-05" count as numbers and are converted with strTo' % bad[1][:24]))
    rep.minimum('R16.7', found, 2, 'numeric predicates (isNumeric, isInteger)')


def protected_everywhere(rep, fb):
    """R16.8: every chart-controlled name that becomes a write into the Lua globals passes the protected-name test"""
    rep.rule('R16.8', 'every entry that writes a chart-controlled location tests it against the system variables: assign() (and init() through it) on the NORMALISED location (trimmed, first path component), setForeach() for its item and index names')
    asg = fb.fn('uscxml::LuaDataModel::assign', params=['string', 'Data', 'map'])

    def closure(f):
        out = [f]
        for n in f.walk():
            m = n.get('callee', {}).get('m')
            if m in fb.funcs and fb.funcs[m].file == f.file and fb.funcs[m].rec is None and fb.funcs[m] not in out:
                out.append(fb.funcs[m])
        return out

    def name_tests(f):
        return [(g_, n) for g_ in closure(f) for n in g_.walk() if n['k'] in ('CXXMemberCallExpr', 'CXXOperatorCallExpr') and (
            n.get('callee', {}).get('q', '').endswith('::compare') or n.get('op') == '==') and any(x['k'] == 'StringLiteral' and x.get('str') in SYSTEM_VARS for x in sub(n))]
    # 1. normalisation before the comparison: what is compared with the names is not a parameter as it came in
    cmps = name_tests(asg)
    if not cmps:
        raise AnalysisBroken('LuaDataModel::assign: protected-name comparisons not found')
    raw = [(g_, n) for g_, n in cmps if any(x['k'] == 'DeclRefExpr' and x.get('ref', {}).get('lid') in [p_['lid'] for p_ in g_.d.get('params', [])] for x in sub(n))]
    rep.check(not raw, 'R16.8', 'assign|normalised location', locstr(cmps[0][1]), 'the protected-name tests compare %s' % (
        'the variable the location starts with (a normalised copy)' if not raw else 'the RAW location string with the exact names: " _name", "_event.name" or "_event[1]" are other spellings of the same variable and pass'))
    # 2. foreach
    sf = fb.fn('uscxml::LuaDataModel::setForeach', required=False)
    if sf is None:
        raise AnalysisBroken('LuaDataModel::setForeach not found')
    tests = name_tests(sf)
    rep.check(bool(tests), 'R16.8', 'setForeach|item and index', sf.where(), 'setForeach writes the globals named by item / index %s' % (
        'after the protected-name test' if tests else 'WITHOUT the protected-name test: <foreach item="_sessionid"> overwrites the system variable'))
    # 3. the variables themselves: plain Lua globals can be written by any chunk the chart supplies (<script>, _G.x = ..)
    guards = [n for f in fb.funcs.values() if f.file.endswith('LuaDataModel.cpp') for n in f.walk() if n['k'] == 'StringLiteral' and n.get('str') in ('__newindex', '__metatable')] + [
        n for f in fb.funcs.values() if f.file.endswith('LuaDataModel.cpp') for n in f.walk() if n.get('callee', {}).get('q', '') in ('lua_setmetatable', 'luaL_setmetatable')]
    rep.check(bool(guards), 'R16.8', 'globals|write guard inside Lua', fb.fn('uscxml::LuaDataModel::setup', required=False).where() if fb.fn('uscxml::LuaDataModel::setup', required=False) else asg.where(),
              'the system variables are %s' % ('guarded inside Lua (metatable)' if guards else 'plain Lua globals without a write guard (no metatable / __newindex): <script>_ioprocessors = 42</script> and location="_G._invokers" change them without an error'))


def kind_before_size(rep, fb, d2l):
    """R16.10: getDataAsLua decides the kind of a value before its size"""
    rep.rule('R16.10', 'the kind of a value is decided before its size: getDataAsLua returns a Lua string for every VERBATIM atom, also the empty one (a test of atom.size() that comes first turns "" into nil, and nil appended to a table shifts the following elements)')
    g = cfgm.CFG(d2l)
    verb = [n for n in d2l.walk() if n['k'] in ('BinaryOperator', 'CXXOperatorCallExpr') and n.get('op') == '=' and any(
        x['k'] == 'MemberExpr' and x['ref'].get('name') == 'atom' for x in sub(n['c'][-1]))]
    if not verb:
        raise AnalysisBroken('getDataAsLua: the assignment of the verbatim atom was not found')
    from .C08 import edge_dominates
    st = verb[0]
    tb = g.pos[st['id']][0] if st['id'] in g.pos else None
    sized = None
    for bid, blk in g.blocks.items():
        c = blk.get('cond')
        if c is None or c not in d2l.nodes or tb is None or bid == tb:
            continue
        cn = strip(d2l.nodes[c])
        if any(x['k'] == 'MemberExpr' and x['ref'].get('name') == 'atom' for x in sub(cn)) and any(x.get('callee', {}).get('q', '').split('::')[-1] in ('size', 'length', 'empty') for x in sub(cn)):
            only_size = not any(x['k'] == 'DeclRefExpr' and x.get('ref', {}).get('name') == 'VERBATIM' for x in sub(cn))
            if only_size and (edge_dominates(g, bid, True, tb) or edge_dominates(g, bid, False, tb)):
                sized = cn
    # ... and an empty table is distinguishable from nil: the table arm of getLuaAsData leaves a mark when there is no item
    l2d = fb.fn('uscxml::getLuaAsData')
    arm = None
    for n in l2d.walk():
        if n['k'] == 'IfStmt' and 'table' in cond_tags(n['c'][0]) and arm is None:
            arm = n['c'][1]
    if arm is None:
        raise AnalysisBroken('getLuaAsData: table arm not found')
    marks = [x for x in sub(arm) if x['k'] in ('BinaryOperator', 'CXXOperatorCallExpr') and x.get('op') == '=' and any(
        y['k'] == 'MemberExpr' and y['ref'].get('name') in ('atom', 'type') and y['ref'].get('rec', '').endswith('Data') for y in sub(x['c'][0] if x['k'] == 'BinaryOperator' else x['c'][1])) and not any(
        a_['k'] in ('ForStmt', 'CXXForRangeStmt', 'WhileStmt') for a_ in l2d.ancestors(x) if any(z is a_ for z in sub(arm)))]
    rep.check(bool(marks), 'R16.10', 'getLuaAsData|empty table', locstr(arm), 'an empty Lua table %s' % (
        'is marked in the Data it becomes' if marks else 'becomes a Data without any content, which getDataAsLua (and toJSON) cannot tell from nil: {} comes back as nil, {{},{1}} as {{1}}'))
    # ... and integers keep their value: Lua 5.3 numbers have an integer subtype with 64 bits, a double has 53
    narm = None
    for n in l2d.walk():
        if n['k'] == 'IfStmt' and 'number' in cond_tags(n['c'][0]) and narm is None:
            narm = n['c'][1]
    if narm is None:
        raise AnalysisBroken('getLuaAsData: number arm not found')
    via_double = any(x.get('callee', {}).get('q', '').startswith('luabridge::LuaRef::cast') and 'double' in (x.get('t') or '') for x in sub(narm))
    int_aware = any(x.get('callee', {}).get('q', '') in ('lua_isinteger', 'lua_tointegerx') or 'long long' in (x.get('t') or '') for x in sub(narm))
    rep.check(int_aware or not via_double, 'R16.10', 'getLuaAsData|integer subtype', locstr(narm), 'a Lua number is read %s' % (
        'with its integer subtype' if int_aware or not via_double else 'as a double whatever its subtype: integers beyond 2^53 (9007199254740993, 1234567890123456789) come back as another value'))
    rep.check(sized is None, 'R16.10', 'getDataAsLua|verbatim atom', locstr(st), 'a VERBATIM atom becomes a Lua string %s' % (
        'whatever its length' if sized is None else 'only if `%s`: the empty string falls through to nil' % ' '.join(fb.text(sized).split())[:50]))


def run(rep, tier):
    rep.rule('R16.1', 'tag table round trip: getLuaAsData maps string -> VERBATIM and number/boolean/nil/function -> INTERPRETED; getDataAsLua assigns VERBATIM atoms as Lua strings without evaluating them and evaluates INTERPRETED atoms (numeric literal or Lua expression): the composition is the identity on string, number, boolean, nil')
    rep.rule('R16.2', 'dispatch exhaustive: getLuaAsData has an arm for each of Lua\'s 9 type tags; the switch over Data::type in getDataAsLua covers the enumeration')
    rep.rule('R16.3', 'protected names: every system variable the data model publishes (setGlobal literal starting with a single underscore) is rejected by assign(); init() does not touch the location before that check')
    rep.rule('R16.4', 'Data crosses through the one pair: params and namelist are merged into the event data before the single getDataAsLua conversion that becomes _event.data; every Data read back comes from getLuaAsData')
    rep.rule('R16.5', 'array order: table items that are emitted as an array are ordered by their numeric index (a container keyed by the decimal string orders "10" before "2")')
    rep.rule('R16.6', 'map keys keep their kind: a compound key is turned into a numeric table index only under a whole-string integer test (isInteger/isNumeric); a prefix-parsing conversion alone (strTo, atoi, strtol accept "3rd", "10.0.0.1") does not decide it')
    rep.assume('value equality for nested values depends on run-time shapes (empty tables, numeric-key maps): not decided')
    fb = facts.FactBase(TUS)
    # the marshalling fault that belongs to this property's values too: a map with a key of another type (C07 R07.10)
    from ..report import Renamed
    from . import C07
    C07.lua_marshalling_faults(Renamed(rep, {'R07.10': 'R16.11'}), fb)
    from . import C15
    C15.payload_atoms_are_data(rep, facts.FactBase(['src/uscxml/messages/Data.cpp']), 'R16.12')
    # ---- R16.14 / R16.15 (second audit)
    rep.rule('R16.14', 'an array keeps its indices: getDataAsLua stores the i-th element under the key i (LuaRef::append is luaL_ref-like and drops nil, everything behind a hole moves down), and getLuaAsData calls a table an array only if it is a sequence')
    gdl = fb.fn('uscxml::getDataAsLua', required=False) or next((f_ for f_ in fb.funcs.values() if f_.q.endswith('getDataAsLua')), None)
    if gdl is None:
        raise AnalysisBroken('getDataAsLua not found')
    appends = [y for y in gdl.walk() if y.get('callee', {}).get('q', '').split('::')[-1] == 'append' and 'LuaRef' in y.get('callee', {}).get('q', '')]
    rep.check(not appends, 'R16.14', 'getDataAsLua|array elements', locstr(appends[0]) if appends else gdl.where(), 'array elements are %s' % (
        'stored under their index' if not appends else 'APPENDED (LuaRef::append): {\'a\', nil, \'c\'} arrives as {\'a\', \'c\'}, JSON [1,null,3] as {1,3}; a sparse table {[1]=.., [5000000]=..} is expanded element by element on the way out (3.4 GB)'))
    # and the way out: a table is an array only if it is a sequence 1..n
    gld14 = next((f_ for f_ in fb.funcs.values() if f_.q.endswith('getLuaAsData')), None)
    if gld14 is None:
        raise AnalysisBroken('getLuaAsData not found')
    seq_test = [x for x in gld14.walk() if x['k'] in ('BinaryOperator', 'CXXOperatorCallExpr') and x.get('op') in ('!=', '==', '<', '>') and any(
        y.get('callee', {}).get('q', '').split('::')[-1] == 'size' for y in sub(x)) and any(y.get('callee', {}).get('q', '').split('::')[-1] in ('rbegin', 'back', 'crbegin') or y.get('ref', {}).get('name') in ('maxIndex', 'largestIndex', 'lastKey') for y in sub(x))]
    rep.check(bool(seq_test), 'R16.14', 'getLuaAsData|array means sequence', locstr(seq_test[0]) if seq_test else gld14.where(), 'a table with positive integer keys %s' % (
        'is an array only if its largest key equals the number of entries' if seq_test else 'is always an array: one filler element is pushed per missing index ({[1]=.., [5000000]=..} -> 3.4 GB), holes are filled with nil atoms that the way back drops'))
    rep.rule('R16.15', 'a number keeps its value: getLuaAsData writes a Lua number with enough digits to read the same double back (17 significant digits) and spells non-finite values so that Lua reads them')
    gld = next((f_ for f_ in fb.funcs.values() if f_.q.endswith('getLuaAsData')), None)
    if gld is None:
        raise AnalysisBroken('getLuaAsData not found')
    tostr_d = [y for y in gld.walk() if y.get('callee', {}).get('q', '') == 'uscxml::toStr' and y.get('c') and len(y['c']) > 1 and (strip(y['c'][1]).get('t') or '') == 'double'
               and any(a_['k'] in ('BinaryOperator', 'CXXOperatorCallExpr') and a_.get('op') == '=' and any(z['k'] == 'MemberExpr' and z.get('ref', {}).get('name') == 'atom' for z in sub(a_['c'][-2])) for a_ in gld.ancestors(y))]
    rep.check(not tostr_d, 'R16.15', 'getLuaAsData|number text', locstr(tostr_d[0]) if tostr_d else gld.where(), 'the text of a Lua number %s' % (
        'is written with round-trip precision' if not tostr_d else 'is toStr(double): 16 significant digits and the stream spellings inf / nan - 0.1+0.2 is received as 0.3, math.huge as nil, -math.huge and 0/0 raise error.execution in the receiver'))
    nil_is_null(rep, fb, 'R16.16')
    # ---- R16.13 an array payload read back through <foreach>: the array attribute is a value expression
    rep.rule('R16.13', 'an array that arrived as payload is iterated like any other: LuaDataModel::setForeach evaluates the array attribute as an expression (as getLength does) and does not look its text up as the name of a global (array="_event.data.list" names no global: item and index were never assigned, the body ran over nothing)')
    sf = fb.fn('uscxml::LuaDataModel::setForeach')
    arr_p = [p_['lid'] for p_ in sf.d.get('params', []) if p_.get('name') == 'array']
    if not arr_p:
        raise AnalysisBroken('LuaDataModel::setForeach: parameter `array` not found')
    by_name = [n for n in sf.walk() if n.get('callee', {}).get('q', '').split('<')[0] in ('luabridge::getGlobal', 'lua_getglobal') and any(
        y['k'] == 'DeclRefExpr' and y.get('ref', {}).get('lid') == arr_p[0] for y in sub(n))]
    evals = [n for n in sf.walk() if n.get('callee', {}).get('q', '').endswith('luaEval') and any(y['k'] == 'DeclRefExpr' and y.get('ref', {}).get('lid') == arr_p[0] for y in sub(n))]
    rep.check(not by_name and bool(evals), 'R16.13', 'setForeach|array expression', locstr(by_name[0]) if by_name else sf.where(), 'the array attribute %s' % (
        'is evaluated as an expression (%d evaluations)' % len(evals) if not by_name else 'is looked up with getGlobal(array): only a bare global name is found, _event.data.list / box.items / {10,20} give nil and the assignment of item and index is skipped silently'))
    rep.covered(tus=len(TUS), extracted=fb.extracted, functions=len(fb.funcs))
    l2d = fb.fn('uscxml::getLuaAsData')
    d2l = fb.fn('uscxml::getDataAsLua')

    # ---- R16.1 / R16.2
    chain = None
    for n in l2d.walk():
        if n['k'] == 'IfStmt':
            ch, els = tab.if_chain(n)
            if len(ch) >= 6:
                chain = ch
                break
    if chain is None:
        raise AnalysisBroken('getLuaAsData: type dispatch if-chain not found')
    table = {}
    for cond, then in chain:
        for tag in cond_tags(cond):
            table[tag] = (assigned_type(then), then, cond)
    rep.sample({'getLuaAsData': {k: v[0] for k, v in table.items()}})
    missing = sorted(set(LUA_TAGS) - set(table))
    rep.check(not missing, 'R16.2', 'getLuaAsData|tags', l2d.where(), 'arms for Lua type tags %s; missing: %s' % (sorted(table), missing))
    # nil is the empty Data (no atom, no type assigned): toJSON writes null, getDataAsLua returns nil for a Data without content (R16.16)
    want = {'string': 'VERBATIM', 'number': 'INTERPRETED', 'boolean': 'INTERPRETED', 'nil': None, 'function': 'INTERPRETED'}
    for tag, ty in want.items():
        got = table.get(tag, (None, None, None))[0]
        rep.check(got == ty, 'R16.1', 'getLuaAsData|%s' % tag, locstr(table[tag][2]) if tag in table else l2d.where(), 'a Lua %s becomes a Data atom of type %s (expected %s)' % (tag, got, ty))
    # boolean / nil literals
    for tag, lits in (('boolean', {'true', 'false'}), ('nil', set())):
        if tag in table:
            got = {s['str'] for s in sub(table[tag][1]) if s['k'] == 'StringLiteral' and 'str' in s}
            rep.check(got == lits, 'R16.1', 'getLuaAsData|%s literals' % tag, locstr(table[tag][2]), '%s is written as %s' % (tag, sorted(got)))
    sw = None
    for n in d2l.walk():
        if n['k'] == 'SwitchStmt':
            sw = n
    if sw is None:
        raise AnalysisBroken('getDataAsLua: switch over data.type not found')
    arms = tab.switch_arms(sw)
    by = {}
    for a in arms:
        for nm in a['names']:
            if nm:
                by[nm] = a
    enum_vals = sorted({s['ref']['name'] for f in fb.funcs.values() for s in f.walk() if s['k'] == 'DeclRefExpr' and s['ref'].get('dk') == 'EnumConstant' and s['ref'].get('q', '').startswith('uscxml::Data::') and s['ref']['t'].endswith('Data::Type')})
    rep.check(set(by) >= {'VERBATIM', 'INTERPRETED'} and set(enum_vals) <= set(by) | {'VERBATIM', 'INTERPRETED'}, 'R16.2', 'getDataAsLua|Data::type', locstr(sw), 'switch arms %s cover Data::Type %s' % (sorted(by), enum_vals))
    if 'VERBATIM' in by:
        evals = [s for st in by['VERBATIM']['stmts'] for s in sub(st) if s.get('callee', {}).get('q', '').endswith('luaEval') or s.get('callee', {}).get('q') in ('luaL_loadstring', 'luaL_dostring')]
        rep.check(not evals, 'R16.1', 'getDataAsLua|VERBATIM not evaluated', locstr(by['VERBATIM']['node']), 'a string atom is handed to Lua as a string, never evaluated as code: %s' % (not evals))
    if 'INTERPRETED' in by:
        st = by['INTERPRETED']['eff']
        has_num = any(s.get('callee', {}).get('q', '').endswith('isNumeric') for x in st for s in sub(x))
        has_eval = any(s.get('callee', {}).get('q', '').endswith('luaEval') for x in st for s in sub(x))
        wraps = any(s['k'] == 'StringLiteral' and s.get('str', '').startswith('return') for x in st for s in sub(x))
        rep.check(has_num and has_eval and wraps, 'R16.1', 'getDataAsLua|INTERPRETED', locstr(by['INTERPRETED']['node']), 'interpreted atoms: numeric literal test %s, otherwise evaluated as `return(<atom>)` %s' % (has_num, has_eval and wraps))

    # ---- R16.6
    nidx = 0
    for n in d2l.walk():
        if n['k'] == 'CXXOperatorCallExpr' and n.get('op') == '[]' and 'LuaRef' in n.get('callee', {}).get('q', '') and len(n.get('c', [])) > 2:
            it = (strip(n['c'][2]) or {}).get('t', '')
            if it.replace('const ', '').strip() not in ('long', 'int', 'unsigned long', 'unsigned int', 'size_t', 'long long', 'uint32_t', 'int32_t', 'int64_t'):
                continue
            # the index is a key turned into a number (a conversion call or the key itself), not the running position of an array element
            idx_nodes = list(sub(n['c'][2]))
            for y in list(idx_nodes):
                if y['k'] == 'DeclRefExpr' and 'lid' in y.get('ref', {}):
                    dcl = next((d_ for s_ in d2l.walk() if s_['k'] == 'DeclStmt' for d_ in s_.get('decls', []) if d_.get('lid') == y['ref']['lid'] and isinstance(d_.get('init'), dict)), None)
                    if dcl is not None:
                        idx_nodes += list(sub(dcl['init']))     # `long index = strTo<long>(key); .. luaData[index]`
            if not any(y['k'] in ('CallExpr', 'CXXMemberCallExpr') or (y['k'] == 'MemberExpr' and y.get('ref', {}).get('name') == 'first') for y in idx_nodes):
                continue
            nidx += 1
            guarded = False
            child = n
            for a in d2l.ancestors(n):
                if a['k'] == 'IfStmt':
                    kids = [c for c in a['c'] if c is not None]
                    in_then = len(kids) > 1 and any(x.get('id') == n['id'] for x in sub(kids[1]))
                    if in_then:
                        conj = []
                        st = [strip(kids[0])]
                        while st:
                            x = strip(st.pop())
                            if x['k'] == 'BinaryOperator' and x.get('op') == '&&':
                                st += [x['c'][0], x['c'][1]]
                            else:
                                conj.append(x)
                        if any(c_['k'] in ('CallExpr',) and c_.get('callee', {}).get('q', '').split('::')[-1] in ('isInteger', 'isNumeric') for c_ in conj):
                            guarded = True
            rep.check(guarded, 'R16.6', 'getDataAsLua|numeric index#%d' % nidx, locstr(n), 'the store `%s` with a numeric index is %s' % (
                fb.text(n)[:50], 'made only for keys that pass a whole-string integer test' if guarded else 'NOT guarded by isInteger/isNumeric: keys such as "3rd" or "10.0.0.1" become array indices'))
    rep.minimum('R16.6', nidx, 1, 'numeric-index stores in getDataAsLua')

    # ---- R16.3
    published = set()
    for f in fb.funcs.values():
        if not f.file.endswith('LuaDataModel.cpp'):
            continue
        for n in f.walk():
            if n.get('callee', {}).get('q', '').startswith('luabridge::setGlobal'):
                lits = [s['str'] for s in sub(n['c'][-1]) if s['k'] == 'StringLiteral' and 'str' in s]
                for l in lits:
                    if l.startswith('_') and not l.startswith('__'):
                        published.add(l)
    asg = fb.fn('uscxml::LuaDataModel::assign')
    rejected = set()
    for n in asg.walk():
        if n['k'] == 'IfStmt' and any(s['k'] == 'CXXThrowExpr' for s in sub(n['c'][1])):
            for s in sub(n['c'][0]):
                if s['k'] == 'StringLiteral' and 'str' in s:
                    rejected.add(s['str'])
    helper_rejected = set()
    for n in asg.walk():
        for t in fb.targets(n) if n.get('callee') else []:
            if t.file.endswith('LuaDataModel.cpp'):
                for m in t.walk():
                    if m['k'] == 'IfStmt' and any(s['k'] == 'CXXThrowExpr' for s in sub(m['c'][1])):
                        helper_rejected |= {s['str'] for s in sub(m['c'][0]) if s['k'] == 'StringLiteral' and 'str' in s}
    rejected |= helper_rejected
    rep.minimum('R16.3', len(published), 5, 'system variables published with setGlobal')
    rep.check(published <= rejected and SYSTEM_VARS <= rejected, 'R16.3', 'assign|protected names', asg.where(), 'published system variables %s; assign() rejects %s' % (sorted(published), sorted(rejected)))
    # every use of `location` that reaches the Lua state is dominated by every rejecting test (or by the helper that holds it)
    ga = cfgm.CFG(asg)
    loc_param = None
    for n in asg.walk():
        if n['k'] == 'DeclRefExpr' and n['ref'].get('name') == 'location' and n['ref'].get('kind', 'ParmVar') in ('ParmVar', 'ParmVarDecl'):
            loc_param = n['ref'].get('lid', n['ref'].get('id'))
            break
    guards = []       # (name, node that must dominate)
    for n in asg.walk():
        if n['k'] == 'IfStmt' and any(s_['k'] == 'CXXThrowExpr' for s_ in sub(n['c'][1])):
            names = [s_['str'] for s_ in sub(n['c'][0]) if s_['k'] == 'StringLiteral' and 'str' in s_ and s_['str'].startswith('_')]
            calls = [s_ for s_ in sub(n['c'][0]) if s_['k'] in ('CXXMemberCallExpr', 'CXXOperatorCallExpr', 'CallExpr') and s_['id'] in ga.pos]
            for nm in names:
                if calls:
                    guards.append((nm, calls[0]))
    for n in asg.walk():
        if n.get('callee'):
            for t in fb.targets(n):
                if t.file.endswith('LuaDataModel.cpp') and t.q != asg.q:
                    for m in t.walk():
                        if m['k'] == 'IfStmt' and any(s_['k'] == 'CXXThrowExpr' for s_ in sub(m['c'][1])):
                            for s_ in sub(m['c'][0]):
                                if s_['k'] == 'StringLiteral' and s_.get('str', '').startswith('_') and n['id'] in ga.pos:
                                    guards.append((s_['str'], n))
    uses = []
    for n in asg.walk():
        q = n.get('callee', {}).get('q', '')
        if n['k'] in ('CXXMemberCallExpr', 'CallExpr') and n['id'] in ga.pos and q.split('::')[-1] in ('eval', 'luaEval', 'evalAsData', 'luaL_dostring', 'luaL_loadstring', 'setGlobal', 'lua_setglobal', 'lua_setfield'):
            if any(s_['k'] == 'DeclRefExpr' and s_['ref'].get('name') == 'location' for a_ in n.get('c', [])[1:] for s_ in sub(a_)):
                uses.append(n)
    if not uses:
        raise AnalysisBroken('LuaDataModel::assign: no statement that writes the location found')
    domt = ga.dominators()
    for u in uses:
        missing = sorted({nm for nm, g in guards} - {nm for nm, g in guards if ga.dominates(g['id'], u['id'], domt)})
        missing = sorted(set(missing) | (SYSTEM_VARS - {nm for nm, g in guards}))
        rep.check(not missing, 'R16.3', 'assign|write#%d dominated by the protected-name tests' % sum(1 for u2 in uses if u2['loc'][1] < u['loc'][1]), locstr(u),
                  'the write `%s` is %s' % (fb.text(u)[:50], 'reached only after all protected-name tests' if not missing else 'reachable WITHOUT the test(s) for %s: that system variable can be overwritten through this path' % missing))
    ini = fb.fn('uscxml::LuaDataModel::init')
    gi = cfgm.CFG(ini)
    touches = [n for n in ini.walk() if (n.get('callee', {}).get('q', '').startswith('luabridge::setGlobal') or n.get('callee', {}).get('q', '').endswith('::eval')) and not any(
        s['k'] == 'StringLiteral' for s in sub(n['c'][-1]))]
    checks = [n for n in ini.walk() if n.get('callee', {}).get('q', '') in ('uscxml::LuaDataModel::assign',) or (n.get('callee') and any(
        t.file.endswith('LuaDataModel.cpp') and any(m['k'] == 'CXXThrowExpr' for m in t.walk()) and t.q != 'uscxml::LuaDataModel::init' for t in fb.targets(n)))]
    # ... and any statement executed on the location parameter itself (eval(location + " = nil"), luaEval ...)
    loc_par = [p_['lid'] for p_ in ini.d.get('params', []) if p_['name'] == 'location']
    for n in ini.walk():
        q_ = n.get('callee', {}).get('q', '')
        if n['k'] in ('CallExpr', 'CXXMemberCallExpr') and (q_.endswith('::eval') or q_.endswith('luaEval') or q_.startswith('luaL_') or q_.startswith('luabridge::setGlobal')) and n not in touches:
            if any(x['k'] == 'DeclRefExpr' and x.get('ref', {}).get('lid') in loc_par for a_ in n.get('c', [])[1:] for x in sub(a_)):
                touches.append(n)
    early = [t for t in touches if not any(gi.dominates(c['id'], t['id']) for c in checks if c['id'] in gi.pos and t['id'] in gi.pos)]
    rep.check(not early, 'R16.3', 'init|check before touching the location', ini.where(), 'init() %s the location before the protected-name check%s' % (
        'does not touch' if not early else 'MODIFIES', '' if not early else ' (%s): <data id="_name"> wipes the system variable and then raises the error' % ', '.join(locstr(x) for x in early)))

    # ---- R16.4
    se = fb.fn('uscxml::LuaDataModel::setEvent')
    gs = cfgm.CFG(se)
    conv = [n for n in se.walk() if n.get('callee', {}).get('q') == 'uscxml::getDataAsLua']
    if len(conv) != 1:
        raise AnalysisBroken('setEvent: expected exactly one getDataAsLua conversion, found %d' % len(conv))
    merges = {}
    for n in se.walk():
        if n['k'] in ('CXXOperatorCallExpr',) and n.get('op') == '=' and any(s['k'] == 'MemberExpr' and s['ref'].get('name') == 'compound' for s in sub(n['c'][1])):
            for src in ('params', 'namelist'):
                loop = None
                for a in se.ancestors(n):
                    if a['k'] in ('WhileStmt', 'ForStmt', 'CXXForRangeStmt'):
                        loop = a
                        break
                if loop is not None and any(s['k'] == 'MemberExpr' and s['ref'].get('name') == src for s in sub(loop)) or any(
                        a['k'] == 'IfStmt' and any(s['k'] == 'MemberExpr' and s['ref'].get('name') == src for s in sub(a['c'][0])) for a in se.ancestors(n)):
                    merges.setdefault(src, n)
    for src in ('params', 'namelist'):
        ok = src in merges and gs.can_reach(gs.pos[conv[0]['id']], [merges[src]['id']]) is None and merges[src]['loc'][1] < conv[0]['loc'][1]
        rep.check(bool(ok), 'R16.4', 'setEvent|%s merged before conversion' % src, locstr(conv[0]), 'event.%s is merged into the data that getDataAsLua converts into _event.data: %s' % (src, bool(ok)))
    ncallers = sum(1 for f in fb.funcs.values() for n in f.walk() if n.get('callee', {}).get('q') in ('uscxml::getDataAsLua', 'uscxml::getLuaAsData'))
    rep.minimum('R16.4', ncallers, 6, 'uses of the getDataAsLua / getLuaAsData pair')
    for q in ('uscxml::LuaDataModel::evalAsData', 'uscxml::LuaDataModel::getAsData'):
        for f in fb.fns(q):
            outs = [n for n in f.walk() if n['k'] == 'ReturnStmt']
            uses = any(n.get('callee', {}).get('q') == 'uscxml::getLuaAsData' for n in f.walk())
            if outs:
                rep.check(uses, 'R16.4', q.split('::')[-1] + '|via getLuaAsData', f.where(), '%s builds its Data result with getLuaAsData: %s' % (q.split('::')[-1], uses))
    # no second conversion path: a member whose result is Data does not read the Lua value with the raw C API (lua_isnumber and
    # lua_isstring are coercing predicates: true for a string that looks like a number and vice versa)
    nret = 0
    for f in fb.funcs.values():
        if f.rec != 'uscxml::LuaDataModel' or not (f.d.get('ret') or '').replace('uscxml::', '').strip() in ('Data', 'class Data'):
            continue
        nret += 1
        raw = [n for n in f.walk() if n['k'] == 'CallExpr' and re.match(r'lua_(is(number|string|integer)|to(number|integer|lstring|boolean|numberx|integerx))$', n.get('callee', {}).get('q', ''))]
        rep.check(not raw, 'R16.4', f.q.split('::')[-1] + '|no raw conversion', locstr(raw[0]) if raw else f.where(),
                  '%s (result: Data) %s' % (f.q.split('::')[-1], 'reads Lua values only through getLuaAsData' if not raw else
                                            'converts a Lua value with %s beside getLuaAsData: the kind of the value (string vs number) is decided by a coercing API' % raw[0]['callee']['q']))
    rep.minimum('R16.4', nret, 2, 'members of LuaDataModel whose result is Data')

    # ---- R16.5
    arr_loop = None
    for n in l2d.walk():
        if n['k'] == 'CXXForRangeStmt' and any(s['k'] == 'MemberExpr' and s['ref'].get('name') == 'array' for s in sub(n['c'][-1])):
            arr_loop = n
    if arr_loop is None:
        raise AnalysisBroken('getLuaAsData: loop emitting array elements not found')
    rng_t = None
    for c_ in arr_loop.get('c', []):
        if c_ and c_['k'] == 'DeclStmt':
            for d in c_.get('decls', []):
                if d['name'].startswith('__range'):
                    rng_t = d['t']
    if rng_t is None:
        raise AnalysisBroken('getLuaAsData: type of the ordering container not found')
    m = re.match(r'std::map<(.*)>\s*&?$', rng_t.strip())
    args = []
    if m:
        depth, cur = 0, ''
        for ch in m.group(1):
            if ch == '<':
                depth += 1
            if ch == '>':
                depth -= 1
            if ch == ',' and depth == 0:
                args.append(cur.strip())
                cur = ''
            else:
                cur += ch
        args.append(cur.strip())
    key_is_string = bool(args) and 'basic_string' in args[0] or (bool(args) and args[0] in ('std::string',))
    has_cmp = len(args) >= 3
    numeric_parse = any(s.get('callee', {}).get('q', '').startswith('uscxml::strTo') for s in sub(arr_loop['c'][-1]))
    ok = (not key_is_string) or has_cmp or not numeric_parse
    rep.check(ok, 'R16.5', 'getLuaAsData|array order', locstr(arr_loop), 'array elements are emitted by iterating %s; keys are parsed as numbers: %s; %s' % (
        rng_t[:90], numeric_parse, 'ordered numerically' if ok else 'ordered LEXICOGRAPHICALLY ("10" < "2"): arrays with ten or more elements come back scrambled'))

    # ---- R16.7 .. R16.10
    numeric_predicates(rep, fb)
    protected_everywhere(rep, fb)
    expr_evaluated_at_execution(rep, fb)
    kind_before_size(rep, fb, d2l)



def nil_is_null(rep, fb, rule='R16.16'):
    """the Data written for Lua nil is read back as nil: no atom, or an atom that is a JSON literal (C16 R16.16, shared with C14 R14.12)"""
    rep.rule(rule, 'no value stays no value across JSON: getLuaAsData represents nil by something Data::fromJSON reads back as a value the datamodel turns into nil - the empty Data (written as null) or a JSON literal - not by the bare word `nil`, which fromJSON reads as text (a resumed session found the string "nil" in every value-less <data>)')
    gld = next((f_ for f_ in fb.funcs.values() if f_.q.endswith('getLuaAsData')), None)
    if gld is None:
        raise AnalysisBroken('getLuaAsData not found')
    arms = [n for n in gld.walk() if n['k'] == 'IfStmt' and any(y.get('callee', {}).get('q', '').split('::')[-1] == 'isNil' for y in sub(n['c'][0])) and not any(
        y.get('op') == '!' and y['k'] == 'UnaryOperator' for y in sub(n['c'][0]))]
    rep.minimum(rule, len(arms), 1, 'nil arms in getLuaAsData')
    for a in arms:
        then = a['c'][1]
        words = [y.get('str') for y in sub(then or {}) if y['k'] == 'StringLiteral' and any(
            p_['k'] in ('CXXOperatorCallExpr', 'BinaryOperator') and p_.get('op') == '=' and any(z['k'] == 'MemberExpr' and z.get('ref', {}).get('name') == 'atom' for z in sub(p_['c'][-2])) for p_ in gld.ancestors(y))]
        bad = [w for w in words if w not in ('null', 'true', 'false')]
        rep.check(not bad, rule, 'getLuaAsData|nil', locstr(a), 'nil becomes %s' % ('the empty Data / a JSON literal' if not bad else 'the atom `%s`, which is no JSON literal: toJSON writes it bare, fromJSON reads it back as the string "%s"' % (bad[0], bad[0])))


def bare_words(rep, fb, rule):
    """what getLuaAsData writes into an INTERPRETED atom ends up bare in the state string: words that are no JSON literal come back as text
    (C14 R14.12, second instance)"""
    gld = next((f_ for f_ in fb.funcs.values() if f_.q.endswith('getLuaAsData')), None)
    if gld is None:
        raise AnalysisBroken('getLuaAsData not found')
    words = []
    for n in gld.walk():
        if n['k'] in ('CXXOperatorCallExpr', 'BinaryOperator') and n.get('op') == '=' and any(z['k'] == 'MemberExpr' and z.get('ref', {}).get('name') == 'atom' for z in sub(n['c'][-2])):
            for y in sub(n['c'][-1]):
                if y['k'] == 'StringLiteral' and isinstance(y.get('str'), str) and y['str'] not in ('true', 'false', 'null') and re.search(r'[A-Za-z(]', y['str']):
                    words.append((y['str'], n))
    rep.check(not words, rule, 'getLuaAsData|bare words', locstr(words[0][1]) if words else gld.where(), 'interpreted atoms written for Lua values %s' % (
        'are JSON literals or numerals' if not words else 'include the words %s, which toJSON writes bare and fromJSON reads back as text: a non-finite number resumes as a string' % sorted({w for w, _ in words})))
