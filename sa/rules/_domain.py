"""Shape of the transition-domain / LCCA helpers (shared by C05: Predicates.cpp, C01/C03: the engines' own copies).

W3C: the transition domain of an internal transition whose source is compound and whose targets are ALL descendants of the
source is the source; otherwise it is the least common COMPOUND ancestor: the NEAREST ancestor that is compound (or <scxml>)
and contains ALL of source and targets.  Decided with A-QUANT: no result site is reachable after a failed membership test,
the accepted ancestor has passed the compound test in the same iteration, the first acceptance ends the walk.
"""
from .. import quant, cfg as cfgm
from ..facts import strip, sub, locstr, AnalysisBroken

LOOPS = ('ForStmt', 'WhileStmt', 'CXXForRangeStmt', 'DoStmt')


QUANTIFIERS = {'std::all_of': 'all', 'std::any_of': 'any', 'std::none_of': 'none'}


def quantifier_call(n):
    """for  std::all_of / any_of / none_of(range, lambda)  whose lambda returns a membership test: +1 if the call is true only when
    EVERY element is a member, -1 if true means some / every element is NOT a member, 2 if it is the existential "some element
    is a member" (says nothing about all); 0 if n is not such a call"""
    if n['k'] != 'CallExpr' or n.get('callee', {}).get('q', '') not in QUANTIFIERS:
        return 0
    lam = [x for x in sub(n) if x['k'] == 'LambdaExpr']
    if not lam:
        return 0
    rets = [x for x in sub(lam[0]) if x['k'] == 'ReturnStmt' and x.get('c')]
    if len(rets) != 1:
        return 0
    e = strip(rets[0]['c'][0])
    neg = False
    while e is not None and e['k'] == 'UnaryOperator' and e.get('op') == '!':
        neg = not neg
        e = strip(e['c'][0])
    pol = _member_plain(e) if e is not None else 0
    if not pol:
        return 0
    if neg:
        pol = -pol
    kind_ = QUANTIFIERS[n['callee']['q']]
    if kind_ == 'all':
        return 1 if pol > 0 else -1
    if kind_ == 'none':
        return 1 if pol < 0 else -1
    return -1 if pol < 0 else 2


def member(n):
    qc = quantifier_call(n)
    if qc:
        return qc
    return _member_plain(n)


def _member_plain(n):
    k = n['k']
    q = n.get('callee', {}).get('q', '')
    if k in ('CallExpr', 'CXXMemberCallExpr') and q.endswith('DOMUtils::isDescendant'):
        return 1
    if k in ('BinaryOperator', 'CXXOperatorCallExpr') and n.get('op') in ('==', '!='):
        kids = n['c'] if k == 'BinaryOperator' else n['c'][1:]
        if len(kids) == 2:
            qs = [x.get('callee', {}).get('q', '') for kid in kids for x in [strip(kid)] if x]
            has_find = any(q_.endswith('::find') for kid in kids for x in sub(kid) for q_ in [x.get('callee', {}).get('q', '')])
            has_end = any(q_.endswith('::end') for kid in kids for x in sub(kid) for q_ in [x.get('callee', {}).get('q', '')])
            if has_find and has_end:
                return -1 if n['op'] == '==' else 1
    if k == 'CXXOperatorCallExpr' and n.get('op') == '[]' and 'dynamic_bitset' in q:
        if any(x['k'] == 'MemberExpr' and x.get('ref', {}).get('name') == 'ancestors' for x in sub(n['c'][1])):
            return 1
    return 0


def kind(n):
    k = n['k']
    q = n.get('callee', {}).get('q', '')
    if k in ('CallExpr', 'CXXMemberCallExpr') and q.endswith('isCompound'):
        return 1
    if k == 'BinaryOperator' and n.get('op') in ('==', '!='):
        if any(any(m[0] == 'USCXML_STATE_COMPOUND' for m in (x.get('mac') or [])) for x in sub(n)):
            return 1 if n['op'] == '==' else -1
    return 0


def has_member_test(n):
    return any(_member_plain(x) for x in sub(n))


def check(rep, rule, fb, funcs, tag):
    """funcs: the function(s) that together implement getTransitionDomain (+ findLCCA when it is separate)"""
    n_short = n_accept = 0
    for f in funcs:
        name = f.q.split('::')[-1]
        # ---- acceptance sites of the LCCA walk: assignments, inside a loop, to the local the function returns
        returned = set()
        for n in f.walk():
            if n['k'] == 'ReturnStmt' and n.get('c'):
                r = strip(n['c'][0])
                if r and r['k'] == 'DeclRefExpr' and 'lid' in r.get('ref', {}):
                    returned.add(r['ref']['lid'])
        accept = []
        for n in f.walk():
            if n['k'] in ('BinaryOperator', 'CXXOperatorCallExpr') and n.get('op') == '=':
                l = strip(n['c'][0] if n['k'] == 'BinaryOperator' else n['c'][1])
                if l and l['k'] == 'DeclRefExpr' and l.get('ref', {}).get('lid') in returned:
                    loops = [a for a in f.ancestors(n) if a['k'] in LOOPS]
                    if loops and has_member_test(loops[-1]):
                        accept.append((n, loops))
        # ---- shortcut sites: return statements inside an if whose then-branch holds a loop with a membership test
        short, early = [], []
        for n in f.walk():
            if n['k'] == 'IfStmt':
                kids = [c for c in n['c'] if c is not None]
                then = kids[1] if len(kids) > 1 else None
                if then is None:
                    continue
                lps = [x for x in sub(then) if (x['k'] in LOOPS and has_member_test(x)) or quantifier_call(x)]
                if not lps:
                    continue
                if any(a['k'] in LOOPS for a in f.ancestors(n)):
                    continue
                then_ids = {x['id'] for x in sub(then)}
                for r in sub(then):
                    if r['k'] == 'ReturnStmt':
                        inloop = any(a['k'] in LOOPS for a in f.ancestors(r) if a['id'] in then_ids)
                        (early if inloop else short).append((r, n, lps))
        if not accept and not short and not early:
            continue
        # reset: header parts (everything but the body) of the outermost candidate loop of each acceptance site
        reset_ids = set()
        for a, loops in accept:
            outer = loops[-1] if len(loops) > 1 else loops[0]
            # the candidate loop is the outermost loop around the acceptance that itself contains the membership loop
            body = outer['c'][-1]
            body_ids = {x['id'] for x in sub(body)}
            for x in sub(outer):
                if x['id'] not in body_ids and x is not outer:
                    reset_ids.add(x['id'])
        spec = quant.Spec(member, kind, lambda n: n['id'] in reset_ids)
        qa = quant.Quant(f, spec)
        # 1. shortcut
        for r, ifs, lps in short:
            n_short += 1
            bad = [b for b in qa.run([r['id']], need_kind=False)]
            cond = [c for c in ifs['c'] if c is not None][0]
            feats = {'internal': any((x['k'] == 'StringLiteral' and x.get('str') == 'internal') or (x['k'] == 'DeclRefExpr' and x.get('ref', {}).get('name') == 'internal') for x in sub(cond)),
                     'compound': any(kind(x) > 0 for x in sub(cond))}
            conj = strip(cond)
            is_conj = conj['k'] == 'BinaryOperator' and conj.get('op') == '&&'
            ok = not bad and feats['internal'] and feats['compound'] and is_conj
            rep.check(ok, rule, '%s|%s|source is the domain only if internal, compound and all targets inside' % (tag, name), locstr(r),
                      'the shortcut `%s` is %s; guard mentions internal: %s, compound source: %s, as a conjunction: %s' % (
                          fb.text(r)[:40], 'reached only when no target failed the descendant test' if not bad else 'REACHABLE after a target failed the descendant test (%s)' % bad[0][1],
                          feats['internal'], feats['compound'], is_conj), path=bad[0][2] if bad else None)
        for r, ifs, lps in early:
            n_short += 1
            bad = qa.run([r['id']], only_after_failure=True)
            rep.check(not bad, rule, '%s|%s|no result before every target was examined' % (tag, name), locstr(r),
                      'the return inside the target loop `%s` is %s' % (fb.text(r)[:40], 'only a failure exit' if not bad else 'REACHABLE although ' + bad[0][1] + ': one matching target decides instead of all'),
                      path=bad[0][2] if bad else None)
        # 2. acceptance
        for a, loops in accept:
            n_accept += 1
            bad = qa.run([a['id']], need_kind=True)
            rep.check(not bad, rule, '%s|%s|accepted ancestor is compound and contains all states' % (tag, name), locstr(a),
                      'the acceptance `%s` is %s' % (fb.text(a)[:40], 'reached only for a compound candidate that passed every membership test' if not bad else 'REACHABLE although ' + bad[0][1]),
                      path=bad[0][2] if bad else None)
            # first acceptance ends the walk: from the acceptance no path leads back to an acceptance
            g = qa.g
            again = g.can_reach(g.pos[a['id']], [x['id'] for x, _ in accept]) if a['id'] in g.pos else None
            rep.check(again is None, rule, '%s|%s|nearest candidate wins' % (tag, name), locstr(a),
                      'after the acceptance the walk %s' % ('stops (least common ancestor)' if again is None else 'CONTINUES: a farther ancestor can overwrite the nearest one'))
    return n_short, n_accept
