"""C12 - event descriptor matching: one matcher, scanner-loop guards, copy agreement, normalisation at
static resolution sites (DESIGN 4/C12)."""
from .. import cfg as cfgm, facts, tab, cg
from ..facts import AnalysisBroken, strip, sub, locstr

QUICK = ['src/uscxml/util/String.cpp', 'src/uscxml/interpreter/InterpreterImpl.cpp', 'src/uscxml/debug/Breakpoint.cpp',
         'src/uscxml/debug/InterpreterIssue.cpp', 'src/uscxml/transform/ChartToPromela.cpp', 'src/uscxml/transform/ChartToVHDL.cpp',
         'src/uscxml/transform/Trie.cpp', 'src/uscxml/transform/promela/PromelaCodeAnalyzer.cpp', 'test/src/test-gen-c.cpp',
         'src/uscxml/interpreter/LargeMicroStep.cpp', 'src/uscxml/interpreter/FastMicroStep.cpp']


def lid_of(n):
    n = strip(n)
    if n and n['k'] == 'DeclRefExpr' and 'lid' in n.get('ref', {}):
        return n['ref']['lid']
    return None


def linear(n):
    """{lid: coeff, None: const} for +,- expressions over local variables and integer constants, else None"""
    n = strip(n)
    if n is None:
        return None
    l = lid_of(n)
    if l is not None:
        return {l: 1}
    c = tab.const_of(n)
    if c is not None:
        return {None: c}
    if n['k'] == 'BinaryOperator' and n.get('op') in ('+', '-'):
        a, b = linear(n['c'][0]), linear(n['c'][1])
        if a is None or b is None:
            return None
        s = 1 if n['op'] == '+' else -1
        r = dict(a)
        for k, v in b.items():
            r[k] = r.get(k, 0) + s * v
        return r
    return None


def scanner_features(fb, f):
    """decision features of a whitespace/separator splitting loop `for (i..) { if (sep) {guard; skip; start=..} [else] if (last) }`"""
    loops = [n for n in f.walk() if n['k'] == 'ForStmt']
    for loop in loops:
        # loop variable
        init = loop['c'][0] if loop.get('c') else None
        ivar = None
        if init and init['k'] == 'DeclStmt' and init.get('decls'):
            ivar = init['decls'][0]['lid']
        if ivar is None:
            continue
        body = loop['c'][-1]
        subs = [n for n in sub(body) if n['k'] == 'CXXMemberCallExpr' and n.get('callee', {}).get('q', '').endswith('::substr') and len(n.get('c', [])) == 3]
        mid = last = None
        for s in subs:
            S, E = linear(s['c'][1]), linear(s['c'][2])
            if not S or not E or len([k for k in S if k is not None]) != 1:
                continue
            svar = [k for k in S if k is not None][0]
            if E.get(ivar) == 1 and E.get(svar) == -1:
                c = E.get(None, 0)
                if c == 0 and mid is None:
                    mid = (s, svar)
                elif c == 1 and last is None:
                    last = (s, svar)
        if not mid or not last:
            continue
        svar = mid[1]
        feats = {'loop': locstr(loop)}
        # guard of the mid-token substr: conjuncts comparing start and i
        k = None
        guard_node = None
        for a in f.ancestors(mid[0]):
            if a is body:
                break
            if a['k'] == 'IfStmt':
                for c in conjuncts(a['c'][0]):
                    c = strip(c)
                    if c['k'] == 'BinaryOperator' and c.get('op') in ('<', '>', '!=', '<=', '>='):
                        l, r = linear(c['c'][0]), linear(c['c'][1])
                        if l is None or r is None:
                            continue
                        d = {}
                        for kk, v in l.items():
                            d[kk] = d.get(kk, 0) + v
                        for kk, v in r.items():
                            d[kk] = d.get(kk, 0) - v
                        # d = lhs - rhs ; want form  start - i  OP  const
                        if d.get(svar, 0) == 1 and d.get(ivar, 0) == -1 and c['op'] in ('<', '<=', '!='):
                            # start - i + c0 OP 0   ->  start < i - c0 (for <)
                            c0 = d.get(None, 0)
                            k = -c0 if c['op'] != '<=' else -c0 + 1
                            if c['op'] == '!=':
                                k = 0 if c0 == 0 else None
                            guard_node = c
                        elif d.get(svar, 0) == -1 and d.get(ivar, 0) == 1 and c['op'] in ('>', '>='):
                            c0 = d.get(None, 0)
                            k = c0 if c['op'] == '>' else c0 + 1
                            guard_node = c
        feats['guard_k'] = k     # token taken iff start < i + k
        feats['guard_at'] = locstr(guard_node) if guard_node else None
        # separator branch = the IfStmt (direct child chain of loop body) containing mid
        sep_if = None
        for a in f.ancestors(mid[0]):
            if a['k'] == 'IfStmt' and f.parent(a) is body:
                sep_if = a
        if sep_if is None:
            continue
        then = sep_if['c'][1]
        skip = None
        for w in sub(then):
            if w['k'] == 'WhileStmt':
                cond = w['c'][0]
                wbody = w['c'][-1]
                preinc = any(u['k'] == 'UnaryOperator' and u.get('op') == '++' and not u.get('postfix') and lid_of(u['c'][0]) == ivar for u in sub(cond))
                look = any((linear(u) or {}).get(ivar) == 1 and (linear(u) or {}).get(None) == 1 for u in sub(cond) if u['k'] == 'BinaryOperator')
                bodyinc = any(u['k'] == 'UnaryOperator' and u.get('op') == '++' and lid_of(u['c'][0]) == ivar for u in sub(wbody))
                if preinc:
                    skip = 'preinc'       # while (sep(x[++i]));       leaves i ON the next token's first char
                elif look and bodyinc:
                    skip = 'lookahead'    # while (sep(x[i+1])) i++;   leaves i on the last separator
                elif bodyinc:
                    skip = 'post'         # while (sep(x[i])) i++;     leaves i ON the next token's first char
        feats['skip'] = skip
        st = None
        for a in sub(then):
            if a['k'] == 'BinaryOperator' and a.get('op') == '=' and lid_of(a['c'][0]) == svar:
                r = linear(a['c'][1])
                if r and r.get(ivar) == 1:
                    st = r.get(None, 0)
        feats['start_off'] = st
        # last-token test: else-branch of sep_if, or separate statement of the loop body
        lt = None
        for a in f.ancestors(last[0]):
            if a['k'] == 'IfStmt':
                p = f.parent(a)
                if lt is not None:
                    break
                if p is sep_if:
                    lt = 'else'
                elif p is body and a is not sep_if:
                    lt = 'sep'
        feats['last'] = lt
        return feats
    return None


def conjuncts(n):
    n = strip(n)
    if n['k'] == 'BinaryOperator' and n.get('op') == '&&':
        return conjuncts(n['c'][0]) + conjuncts(n['c'][1])
    return [n]


GOOD = {('post', 0, 'sep'), ('lookahead', 1, 'else'), ('lookahead', 1, 'sep')}
BAD = {('preinc', 0, 'else'): 'skip leaves the index on the first character of the next token and the loop increment steps over it: a final one-character token is never emitted (hand-confirmed: "foo b" loses "b")',
       ('post', 0, 'else'): 'skip leaves the index on the first character of the next token and the loop increment steps over it: a final one-character token is never emitted'}


def matcher_features(fb, f):
    """decision features of a nameMatch implementation beyond the scanner loop"""
    feats = {}
    strips = []
    for n in f.walk():
        if n['k'] == 'CXXMemberCallExpr' and n.get('callee', {}).get('q', '').endswith('::find'):
            lits = [s['str'] for s in sub(n) if s['k'] == 'StringLiteral' and 'str' in s]
            arg2 = n['c'][2] if len(n.get('c', [])) > 2 else None
            uses_size_minus_1 = arg2 is not None and any(s['k'] == 'BinaryOperator' and s.get('op') == '-' for s in sub(arg2))
            if lits and uses_size_minus_1:
                strips.append(lits[0])
    feats['strips'] = strips
    feats['empty_matches_all'] = False
    feats['returns_true'] = 0
    for n in f.walk():
        if n['k'] == 'IfStmt':
            c = strip(n['c'][0])
            then = n['c'][1]
            rt = any(s['k'] == 'ReturnStmt' and s.get('c') and tab.const_of(s['c'][0]) == 1 for s in sub(then))
            if c['k'] == 'BinaryOperator' and c.get('op') == '==' and tab.const_of(c['c'][1]) == 0 and rt and any(
                    s.get('callee', {}).get('q', '').endswith('::size') for s in sub(c['c'][0])):
                feats['empty_matches_all'] = True
    feats['equality'] = sorted({s['callee']['q'].split('::')[-1] for s in f.walk() if s.get('callee') and s['callee']['q'].split('::')[-1] in ('iequals', 'equals', 'operator==')})
    # prefix test: name.find(desc) == 0  and name.find(".", desc.size()) == desc.size()
    pref = dot = False
    for n in f.walk():
        if n['k'] == 'BinaryOperator' and n.get('op') == '==':
            l, r = strip(n['c'][0]), strip(n['c'][1])
            if l['k'] == 'CXXMemberCallExpr' and l.get('callee', {}).get('q', '').endswith('::find'):
                lits = [s['str'] for s in sub(l) if s['k'] == 'StringLiteral' and 'str' in s]
                if tab.const_of(r) == 0 and not lits:
                    pref = True
                if lits == ['.'] and r['k'] == 'CXXMemberCallExpr' and r['callee']['q'].endswith('::size'):
                    dot = True
    feats['prefix_test'] = pref
    feats['dot_boundary'] = dot
    # order of the per-descriptor steps (by position): strip suffixes, empty -> match all, length guard, equality, prefix
    steps = []
    for n in f.walk():
        if n['k'] == 'CXXMemberCallExpr' and n.get('callee', {}).get('q', '').endswith('::find'):
            lits = [s['str'] for s in sub(n) if s['k'] == 'StringLiteral' and 'str' in s]
            arg2 = n['c'][2] if len(n.get('c', [])) > 2 else None
            if lits and arg2 is not None and any(s['k'] == 'BinaryOperator' and s.get('op') == '-' for s in sub(arg2)):
                steps.append((n['loc'][1], n['loc'][2], 'strip'))
        if n['k'] == 'IfStmt':
            c = strip(n['c'][0])
            # `if (desc.size() > name.size()) skip` and `if (desc.size() <= name.size()) { compare }` are the same guard
            if c['k'] == 'BinaryOperator' and c.get('op') in ('>', '<=', '<', '>=') and all(any(x.get('callee', {}).get('q', '').endswith('::size') for x in sub(side)) for side in c['c']):
                steps.append((n['loc'][1], n['loc'][2], 'length-guard'))
            if c['k'] == 'BinaryOperator' and c.get('op') == '==' and tab.const_of(c['c'][1]) == 0 and any(x.get('callee', {}).get('q', '').endswith('::size') for x in sub(c['c'][0])):
                steps.append((n['loc'][1], n['loc'][2], 'empty-matches'))
    loop_line = min([s_[0] for s_ in steps] or [0])
    feats['step_order'] = [k for _, _, k in sorted(steps)]
    return feats


def fingerprint(n):
    """structure of a body with identifiers' qualification removed (for copy comparison)"""
    out = []
    for s in sub(n):
        item = [s['k'], s.get('op')]
        if 'callee' in s:
            item.append(s['callee']['q'].split('::')[-1])
        if 'str' in s:
            item.append(s['str'])
        if 'int' in s:
            item.append(s['int'])
        if s['k'] in facts.TRANSPARENT or s['k'] in ('CXXConstructExpr', 'CXXOperatorCallExpr', 'DeclRefExpr', 'MemberExpr', 'UnresolvedLookupExpr', 'CXXDefaultArgExpr'):
            continue
        out.append(tuple(item))
    return out


def eventless_by_type_bit(rep, rule):
    """both engines decide 'eventless' from the SPONTANEOUS type bit (shared by C12 R12.9 and C03 R03.15)"""
    n9 = 0
    fb9 = facts.FactBase(['src/uscxml/interpreter/LargeMicroStep.cpp', 'src/uscxml/interpreter/FastMicroStep.cpp'])
    for eq in ('uscxml::LargeMicroStep::step', 'uscxml::FastMicroStep::step'):
        f9 = fb9.fn(eq)
        by_size = []
        for n in f9.walk():
            if n['k'] == 'BinaryOperator' and n.get('op') in ('==', '!=', '>') and tab.const_of(n['c'][1]) == 0:
                l = strip(n['c'][0])
                if l is not None and l['k'] == 'CXXMemberCallExpr' and l.get('callee', {}).get('q', '').split('::')[-1] in ('size', 'length', 'empty') and any(
                        x['k'] == 'MemberExpr' and x['ref'].get('name') == 'event' and 'Transition' in (x['ref'].get('rec') or '') for x in sub(l)):
                    by_size.append(n)
        by_bit = [n for n in f9.walk() if any(m[0] == 'USCXML_TRANS_SPONTANEOUS' for m in (n.get('mac') or []))]
        n9 += 1
        rep.check(not by_size and bool(by_bit), rule, eq.split('::')[1] + '|eventless test', locstr(by_size[0]) if by_size else f9.where(), 'the selection classifies a transition as eventless %s' % (
            'by the SPONTANEOUS type bit' if not by_size and by_bit else 'by the LENGTH of its descriptor string (%d tests): <transition event=""> is taken as an eventless transition (and loops forever when targetless), the generated C and Promela never enable it' % len(by_size)))
    rep.minimum(rule, n9, 2, 'engines')


def trie_rules(rep, fb, r5, r6):
    """word registration and subtree collection of the prefix trie (shared with C06: static event-descriptor resolution)"""
    # ---- R12.5
    aw = fb.fn('uscxml::Trie::addWord')
    marks = [n for n in aw.walk() if n['k'] == 'BinaryOperator' and n.get('op') == '=' and any(s['k'] == 'MemberExpr' and s['ref'].get('name') == 'hasWord' for s in sub(n['c'][0])) and tab.const_of(n['c'][1]) == 1]
    if not marks:
        raise AnalysisBroken('Trie::addWord no longer marks word nodes (hasWord = true)')
    for mk in marks:
        conds = [a_['c'][0] for a_ in aw.ancestors(mk) if a_['k'] == 'IfStmt']
        extra = []
        for cnd in conds:
            names = {s['ref']['name'] for s in sub(cnd) if s['k'] in ('MemberExpr', 'DeclRefExpr') and 'name' in s.get('ref', {})}
            if not ({'hasWord'} & names):
                extra.append(fb.text(cnd)[:60])
        rep.check(not extra, r5, 'Trie::addWord|word registration', locstr(mk), 'a word is registered whenever its node is not a word yet%s' % ('' if not extra else '; but here it additionally depends on `%s`: a word whose path already exists (prefix of a longer word) is never registered' % extra[0]))

    # ---- R12.6
    from . import _skel
    gw = fb.fn('uscxml::Trie::getChildsWithWords')
    gg = cfgm.CFG(gw)
    rec = [n for n in gw.walk() if n['k'] in ('CXXMemberCallExpr', 'CallExpr') and n.get('callee', {}).get('q', '').endswith('Trie::getChildsWithWords')]
    own = [n for n in gw.walk() if n['k'] == 'CXXMemberCallExpr' and n.get('callee', {}).get('q', '').endswith('::push_back')]
    if not rec:
        raise AnalysisBroken('Trie::getChildsWithWords: recursive descent not found')
    in_loop = [n for n in rec if any(a['k'] in ('WhileStmt', 'ForStmt', 'CXXForRangeStmt') for a in gw.ancestors(n))]
    cut = [n for n in in_loop if _skel.guarded_by(gw, gg, n, ('hasWord',))]
    rep.check(bool(in_loop) and not cut, r6, 'Trie::getChildsWithWords|descends into every child', locstr(rec[0]),
              'the recursive descent %s' % ('is unconditional for every child' if in_loop and not cut else 'DEPENDS on the child\'s hasWord flag: names below another name (error.comm.timeout below error.comm) are not found by a prefix lookup'))
    rep.check(any(_skel.guarded_by(gw, gg, n, ('hasWord',)) for n in own), r6, 'Trie::getChildsWithWords|own word', gw.where(), 'the node itself is added when it is a word: %s' % any(_skel.guarded_by(gw, gg, n, ('hasWord',)) for n in own))


def lookup_normalisation(rep, fb, rule, min_sites=2):
    """every statically resolved descriptor token is normalised like nameMatch before the trie lookup (C12 R12.4; shared with C06)"""
    sites = 0
    for f in fb.funcs.values():
        for n in f.walk():
            if n.get('callee', {}).get('q') != 'uscxml::Trie::getWordsWithPrefix':
                continue
            arg = n['c'][1]
            if all(s['k'] != 'DeclRefExpr' or 'lid' not in s.get('ref', {}) for s in sub(arg)):
                continue   # literal prefix (enumeration of all words)
            # does the argument derive from an event-attribute token?  the enclosing loops iterate tokenize(ATTR(.., event))
            loops = [a for a in f.ancestors(n) if a['k'] in ('ForStmt', 'CXXForRangeStmt', 'WhileStmt')]
            fn_src = ' '.join(fb.text(l)[:0] for l in loops)
            from_event = False
            from .. import path as pathm2
            defs_f = pathm2.local_defs(f)
            for s in f.walk():
                if s.get('callee', {}).get('q') == 'uscxml::tokenize':
                    if any(x.get('ref', {}).get('name') == 'kXMLCharEvent' for x in sub(s)):
                        from_event = True
                    for x in sub(s):
                        if x['k'] == 'DeclRefExpr' and x.get('ref', {}).get('lid') in defs_f and any(
                                y.get('ref', {}).get('name') == 'kXMLCharEvent' for d_ in defs_f[x['ref']['lid']] for y in sub(d_)):
                            from_event = True
            if not from_event or not loops:
                continue
            sites += 1
            inner = loops[0]
            feats = set()
            # the loop body plus the bodies of repository helpers called in it (an extracted `descriptorToPrefix(token)`)
            scan = list(sub(inner))
            for s in list(scan):
                c_ = s.get('callee')
                if c_ and not c_.get('ext') and c_['m'] in fb.funcs and c_['q'] not in ('uscxml::Trie::getWordsWithPrefix', 'uscxml::tokenize') and not c_['q'].startswith(('uscxml::X::', 'uscxml::DOMUtils::')):
                    cf_ = fb.funcs[c_['m']]
                    if cf_.file == f.file or cf_.file.startswith('src/uscxml/util/'):
                        scan += list(cf_.walk())
            for s in scan:
                q = s.get('callee', {}).get('q', '')
                if q.startswith('boost::algorithm::ends_with') or q.startswith('boost::ends_with'):
                    for x in sub(s):
                        if x['k'] == 'StringLiteral' and 'str' in x:
                            feats.add('ends:' + x['str'])
                if s['k'] in ('CXXOperatorCallExpr', 'BinaryOperator') and s.get('op') == '==':
                    for x in sub(s):
                        if x['k'] == 'StringLiteral' and 'str' in x:
                            feats.add('eq:' + x['str'])
            # like nameMatch: ONE trailing "*" is dropped, then one trailing "."; stripping only ".*" leaves the token "*" (a wildcard
            # among several descriptors) to be looked up literally, where it matches nothing
            star = 'ends:*' in feats
            dot = 'ends:.' in feats
            sig = '%s|getWordsWithPrefix' % f.q
            rep.check(star and dot, rule, sig, locstr(n),
                      'descriptor normalisation before the trie lookup: features %s -> a trailing "*" %s, trailing "." %s' % (
                          sorted(feats), 'is stripped from every token' if star else 'is NOT stripped per token (only ".*" / the whole attribute being "*"): event="foo *" resolves to `false || _event == FOO`, the interpreter matches everything', 'stripped' if dot else 'NOT stripped'))
    rep.minimum(rule, sites, min_sites, 'trie lookups of event-attribute tokens (Promela, VHDL)')



def vhdl_names(rep, rule):
    """escapeMacro and toBinStr keep event names / codes apart (C12 R12.10; shared with C18)"""
    rep.rule(rule, 'statically resolved matches keep event names apart: escapeMacro (signal names) writes every character of the name in place, appending strings or characters only (an integer appended to a std::string is narrowed to one byte), and toBinStr (event codes) emits the digits 0 and 1 only and pads to the full margin')
    fbS = facts.FactBase(['src/uscxml/util/String.cpp'])
    em = fbS.fn('uscxml::escapeMacro')
    narrowed = [n for n in em.walk() if n['k'] == 'CXXOperatorCallExpr' and n.get('op') == '+=' and len(n['c']) > 2 and n['c'][2]['k'] == 'ImplicitCastExpr' and n['c'][2].get('ck') == 'IntegralCast' and
                (n['c'][2].get('t') or '') == 'char']
    rets = {x['ref'].get('lid') for n in em.walk() if n['k'] == 'ReturnStmt' and n.get('c') for x in sub(n['c'][0]) if x['k'] == 'DeclRefExpr' and 'lid' in x.get('ref', {})}
    aside = []
    for lp in em.walk():
        if lp['k'] in ('ForStmt', 'CXXForRangeStmt', 'WhileStmt'):
            for n in sub(lp['c'][-1]):
                if n['k'] == 'CXXOperatorCallExpr' and n.get('op') == '+=' and strip(n['c'][1]) is not None and strip(n['c'][1])['k'] == 'DeclRefExpr' and strip(n['c'][1])['ref'].get('lid') not in rets and 'string' in (strip(n['c'][1]).get('t') or ''):
                    aside.append(n)
    rep.check(not narrowed and not aside, rule, 'escapeMacro', locstr((narrowed or aside or [em.d['body']])[0]) if (narrowed or aside) else em.where(), 'escapeMacro %s' % (
        'writes every character in place' if not narrowed and not aside else 'collects the special characters aside%s: "a.bc" and "ab.c" become the same signal name, names with two dots get a control byte inside the identifier' % (
            ' and appends an INTEGER (narrowed to one byte) to the name' if narrowed else '')))
    tb_ = fbS.fn('uscxml::toBinStr')
    bad_digit = []
    for n in tb_.walk():
        if n['k'] == 'BinaryOperator' and n.get('op') == '+' and any(x['k'] == 'CharacterLiteral' and x.get('int') == ord('0') for x in sub(n)):
            other = [c_ for c_ in n['c'] if not any(x['k'] == 'CharacterLiteral' for x in sub(c_))]
            for o in other:
                inner = [x for x in sub(o) if x['k'] == 'BinaryOperator' and x.get('op') == '&']
                if inner and not any(tab.const_of(x['c'][1]) == 1 for x in inner) and not any(x['k'] == 'BinaryOperator' and x.get('op') in ('!=', '==', '>') for x in sub(o)):
                    bad_digit.append(n)
    pad_loops = [lp for lp in tb_.walk() if lp['k'] in ('ForStmt', 'WhileStmt') and any(x.get('callee', {}).get('q', '').split('::')[-1] == 'size' for x in sub(lp['c'][2] if lp['k'] == 'ForStmt' and len(lp['c']) > 2 and lp['c'][2] is not None else lp['c'][0])) and any(
        x['k'] == 'CXXOperatorCallExpr' and x.get('op') in ('=', '+=') for x in sub(lp['c'][-1]))]
    rep.check(not bad_digit and not pad_loops, rule, 'toBinStr', locstr((bad_digit or pad_loops)[0]) if (bad_digit or pad_loops) else tb_.where(), 'toBinStr %s' % (
        'emits binary digits and pads to the margin' if not bad_digit and not pad_loops else 'adds the masked VALUE (2, 4, 8 ..) to the character 0 and pads in a loop whose bound shrinks as the string grows: with three or more events the codes are "020", "0400" - no bit strings'))


def run(rep, tier):
    rep.rule('R12.1', 'one matcher: the interpreter, the validator and the debugger decide descriptor matches by calling uscxml::nameMatch; no second matcher is defined in src/')
    rep.rule('R12.2', 'scanner loops (tokenize, spaceNormalize, nameMatch and the copies shipped for generated C) take every non-empty token: guard normal form start < i, and a skip/start/last-token combination from the confirmed-correct table')
    rep.rule('R12.7', 'closed set of reasons to accept: every `return true` of the matcher (and of its shipped copy) is reached only with the descriptor empty after stripping (wildcard), with descriptor and name equal, or with the descriptor a prefix of the name AND the name having "." exactly at position descriptor.size()')
    rep.rule('R12.8', 'token matching is case sensitive: no accepting return of the matcher (or of its shipped copy) is reached through a case-insensitive comparison (iequals, strcasecmp, ...)')
    rep.rule('R12.3', 'copy agreement: StateMachine::nameMatch (test-gen-c.cpp scaffolding) has the same decision features as uscxml::nameMatch')
    rep.rule('R12.6', 'static resolution finds every event name below a prefix: Trie::getChildsWithWords adds the node\'s own word and descends into EVERY child, whether or not that child is itself a word (a.b and a.b.c are both names)')
    rep.rule('R12.5', 'static resolution registers every event name: Trie::addWord marks the final node as a word under no other condition than that it is not one yet')
    rep.rule('R12.4', 'static resolution sites normalise descriptors alike: every non-literal argument of Trie::getWordsWithPrefix derived from an event-attribute token is stripped of a trailing "*"/".*" and a trailing "."')
    rep.assume('the relation nameMatch computes on all strings is not decided here (needs execution or a solver)')
    tus = QUICK if tier == 'quick' else facts.library_tus()
    fb = facts.FactBase(tus)
    rep.covered(tus=len(tus), extracted=fb.extracted, functions=len(fb.funcs))

    # ---- R12.1
    nm = fb.fn('uscxml::nameMatch')
    callers = {}
    for f in fb.funcs.values():
        for n in f.walk():
            if n.get('callee', {}).get('q') == 'uscxml::nameMatch':
                callers.setdefault(f.q, []).append(n)
    ism = fb.fn('uscxml::InterpreterImpl::isMatched')
    calls = callers.get(ism.q, [])
    okm = False
    if calls:
        c = calls[0]
        # arguments: (descriptor parameter, event.name)
        from .. import path as pathm
        defs_m = pathm.local_defs(ism)

        def names_of(e, depth=0):
            out = set()
            for s in sub(e):
                nm = s.get('ref', {}).get('name')
                if nm:
                    out.add(nm)
                if s['k'] == 'DeclRefExpr' and s.get('ref', {}).get('lid') in defs_m and depth < 3:
                    for d_ in defs_m[s['ref']['lid']]:
                        out |= names_of(d_, depth + 1)
            return out
        a0, a1 = names_of(c['c'][1]), names_of(c['c'][2])
        params = [p_['name'] for p_ in ism.d.get('params', [])]
        okm = bool(params) and any(p_ in a0 for p_ in params[1:] or params) and 'name' in a1
        ret = [s for s in ism.walk() if s['k'] == 'ReturnStmt']
        direct = len(ret) == 1 and any(x is c for x in sub(ret[0]))
        # `const bool matched = nameMatch(..); return matched;`
        via_local = False
        if len(ret) == 1 and ret[0].get('c'):
            r0 = strip(ret[0]['c'][0])
            if r0 is not None and r0['k'] == 'DeclRefExpr' and r0.get('ref', {}).get('lid') in defs_m:
                ds = defs_m[r0['ref']['lid']]
                via_local = len(ds) == 1 and strip(ds[0]) is not None and (strip(ds[0]) is c or strip(ds[0]).get('id') == c['id'])
        okm = okm and (direct or via_local)
    rep.check(okm, 'R12.1', 'InterpreterImpl::isMatched', ism.where(), 'isMatched returns nameMatch(descriptor, event.name) unmodified')
    for q in ('uscxml::Breakpoint::matches', 'uscxml::InterpreterIssue::forInterpreter'):
        if fb.fn(q, required=False):
            rep.check(q in callers, 'R12.1', q, fb.fn(q).where(), '%s decides descriptor matches through uscxml::nameMatch' % q)
    # engines decide matches only through the callback
    for eng in ('uscxml::LargeMicroStep::step', 'uscxml::FastMicroStep::step'):
        f = fb.fn(eng)
        n_is = sum(1 for n in f.walk() if n.get('callee', {}).get('q') == 'uscxml::MicroStepCallbacks::isMatched')
        direct = sum(1 for n in f.walk() if n.get('callee', {}).get('q', '').endswith('nameMatch'))
        rep.check(n_is >= 1 and direct == 0, 'R12.1', eng, f.where(), '%d isMatched callback sites, %d direct matcher calls' % (n_is, direct))
    others = [f for f in fb.funcs.values() if f.file.startswith('src/') and f.q != 'uscxml::nameMatch' and ('namematch' in f.q.lower() or 'eventmatch' in f.q.lower())]
    rep.check(not others, 'R12.1', 'no-second-matcher', 'src/', 'other matcher definitions in src/: %s' % [f.q for f in others])

    # ---- R12.2
    scanners = [('uscxml::tokenize', True), ('uscxml::spaceNormalize', True), ('uscxml::nameMatch', True),
                ('StateMachine::nameMatch', True), ('StateMachine::spaceNormalize', False)]
    found = 0
    feats_by = {}
    for q, req in scanners:
        f = fb.fn(q, required=False)
        if f is None:
            if req:
                raise AnalysisBroken('scanner %s not found' % q)
            continue
        ft = scanner_features(fb, f)
        if ft is None:
            raise AnalysisBroken('scanner loop idiom not recognised in %s (%s)' % (q, f.where()))
        found += 1
        feats_by[q] = ft
        rep.sample({'scanner': q, 'features': ft})
        k = ft['guard_k']
        if k is None:
            raise AnalysisBroken('token guard of %s not in linear form start < i + k (%s)' % (q, ft['loop']))
        rep.check(k >= 0, 'R12.2', '%s|guard' % q, ft['guard_at'] or ft['loop'],
                  'token substr(start, i-start) is taken iff start < i%+d: %s' % (k, 'admits every non-empty token' if k >= 0 else 'rejects tokens of length <= %d' % (-k)))
        combo = (ft['skip'], ft['start_off'], ft['last'])
        if combo in GOOD:
            rep.ok('R12.2', '%s|combo' % q, 'skip=%s start=i%+d last-token test=%s: confirmed-correct combination' % combo)
        elif combo in BAD:
            rep.fail('R12.2', '%s|combo' % q, ft['loop'], 'skip=%s start=i%+d last-token test=%s: %s' % (combo + (BAD[combo],)))
        else:
            raise AnalysisBroken('scanner %s uses an unconfirmed skip/start/last-token combination %s' % (q, combo))
    rep.minimum('R12.2', found, 4, 'scanner loops')

    # ---- R12.3
    a, b = fb.fn('uscxml::nameMatch'), fb.fn('StateMachine::nameMatch')
    for fn_ in (a, b):
        so = matcher_features(fb, fn_)['step_order']
        core = [x for x in so if x in ('strip', 'length-guard')]
        rep.check(core == ['strip', 'strip', 'length-guard'], 'R12.3', '%s|step order' % fn_.q, fn_.where(), 'per-descriptor steps in order %s: the optional trailing "*" and "." are stripped before the descriptor\'s length is compared with the event name' % so)
    fa, fbp = fingerprint(a.d['body']), fingerprint(b.d['body'])
    if fa == fbp:
        rep.ok('R12.3', 'nameMatch copies', 'structurally identical bodies (%d nodes) modulo identifier qualification' % len(fa))
    else:
        ma, mb = matcher_features(fb, a), matcher_features(fb, b)
        sa_, sb_ = feats_by['uscxml::nameMatch'], feats_by['StateMachine::nameMatch']
        va = dict(ma, guard_k=sa_['guard_k'], skip=sa_['skip'], start_off=sa_['start_off'], last=sa_['last'])
        vb = dict(mb, guard_k=sb_['guard_k'], skip=sb_['skip'], start_off=sb_['start_off'], last=sb_['last'])
        diff = {k: (va[k], vb[k]) for k in va if va[k] != vb[k]}
        if diff:
            rep.fail('R12.3', 'nameMatch copies|' + ','.join(sorted(diff)), b.where(), 'decision features differ between %s and %s: %s' % (a.where(), b.where(), diff))
        else:
            # a refactoring of one copy: what decides a match (guards, skip form, suffix stripping, length guard, prefix and dot test, step order) agrees
            rep.ok('R12.3', 'nameMatch copies', 'bodies differ structurally but every decision feature agrees: %s' % sorted(va))
            rep.note('R12.3: %s and %s are no longer structurally identical; compared on decision features only' % (a.where(), b.where()))

    # ---- R12.7 closed set of reasons to accept
    from .C08 import edge_dominates

    def classify(c):
        c = strip(c)
        calls = [x for x in sub(c) if x.get('callee')]
        names = [x['callee']['q'].split('::')[-1] for x in calls]
        lits = [x.get('str') for x in sub(c) if x['k'] == 'StringLiteral'] + [chr(x['int']) for x in sub(c) if x['k'] == 'CharacterLiteral' and isinstance(x.get('int'), int)]
        if c['k'] == 'BinaryOperator' and c.get('op') == '==':
            l, r = strip(c['c'][0]), strip(c['c'][1])
            lq = (l.get('callee') or {}).get('q', '').split('::')[-1]
            if lq in ('size', 'length') and tab.const_of(r) == 0:
                return 'EMPTY'
            if lq == 'find' and not lits and tab.const_of(r) == 0:
                return 'PREFIX'
            if lq == 'compare' and tab.const_of(r) == 0 and len(l.get('c', [])) >= 4 and tab.const_of(l['c'][1]) == 0:
                return 'PREFIX'
            if lq == 'find' and lits == ['.'] and (r.get('callee') or {}).get('q', '').split('::')[-1] in ('size', 'length'):
                return 'BOUNDARY'
            if lq in ('operator[]', 'at') and lits == ['.'] and any(x.get('callee', {}).get('q', '').split('::')[-1] in ('size', 'length') for x in sub(l)):
                return 'BOUNDARY'
        if 'empty' in names and c['k'] in ('CXXMemberCallExpr',):
            return 'EMPTY'
        if any(nm in ('iequals', 'strcasecmp', 'strncasecmp', 'ilexicographical_compare', 'istarts_with') for nm in names):
            return 'EQUAL-IGNORING-CASE'
        if any(nm in ('equals',) for nm in names) or (c['k'] == 'CXXOperatorCallExpr' and c.get('op') == '==' and not lits):
            return 'EQUAL'
        if any(nm in ('starts_with',) for nm in names):
            return 'PREFIX'
        return None
    n_acc = n_cs = 0
    for fn_ in (a, b):
        g_ = cfgm.CFG(fn_)
        for n in fn_.walk():
            if n['k'] != 'ReturnStmt' or not n.get('c') or tab.const_of(n['c'][0]) != 1 or n['id'] not in g_.pos:
                continue
            tb_ = g_.pos[n['id']][0]
            kinds = set()
            for bid, blk in g_.blocks.items():
                c_ = blk.get('cond')
                if c_ is None or c_ not in fn_.nodes or bid == tb_:
                    continue
                if edge_dominates(g_, bid, True, tb_):
                    k_ = classify(fn_.nodes[c_])
                    if k_:
                        kinds.add(k_)
            n_acc += 1
            ok = 'EMPTY' in kinds or 'EQUAL' in kinds or {'PREFIX', 'BOUNDARY'} <= kinds
            if 'EQUAL-IGNORING-CASE' in kinds:
                rep.fail('R12.8', '%s|accept#%d' % (fn_.q, sum(1 for x in fn_.walk() if x['k'] == 'ReturnStmt' and x['loc'][1] < n['loc'][1])), locstr(n),
                         'a descriptor is accepted here because it equals the name IGNORING CASE: 3.12.1 says "in all cases, the token matching is case sensitive", the prefix test and the statically resolved matches of the transpilers are case sensitive')
                ok = True       # reported under R12.8
            else:
                n_cs += 1
            rep.check(ok, 'R12.7', '%s|accept#%d' % (fn_.q, sum(1 for x in fn_.walk() if x['k'] == 'ReturnStmt' and x['loc'][1] < n['loc'][1])), locstr(n),
                      'a descriptor is accepted here under %s%s' % (sorted(kinds) or 'no recognised reason', '' if ok else
                      ': the only reasons to accept are the wildcard (descriptor empty after stripping), equality with the whole name, or a prefix of the name that ends exactly where the name has a "." (boundary test at position descriptor.size())'))
    rep.minimum('R12.7', n_acc, 6, 'accepting returns in the two matcher copies')
    if n_cs == n_acc:
        rep.ok('R12.8', 'matcher copies', 'no accepting return is reached through a case-insensitive comparison (%d returns)' % n_acc)

    # ---- R12.4
    lookup_normalisation(rep, fb, 'R12.4')

    trie_rules(rep, fb, 'R12.5', 'R12.6')

    # ---- R12.9 eventless means "no event attribute", not "empty event attribute"
    rep.rule('R12.9', 'a transition is eventless iff it has no event attribute: the engines decide it from the type bit set from the attribute\'s presence (as the generated C and the Promela model do), not from the length of the descriptor string (event="" names no event and matches nothing)')
    eventless_by_type_bit(rep, 'R12.9')
    # ---- R12.10 names derived from event names for the VHDL back-end
    vhdl_names(rep, 'R12.10')
    # ---- R12.12 what is ignored at the end of a descriptor: `.*` or `.`, not a bare `*` and not both in a row
    rep.rule('R12.12', 'a descriptor matches only for the reasons the recommendation gives: the normalisation in front of the comparison drops a trailing `.*` or a trailing `.`; a `*` that does not follow a `.` (and is not the whole descriptor) is part of the name ("foo*" does not match "foo"), and "." or ".*" alone are not the wildcard')
    nm12 = fb.fn('uscxml::nameMatch')
    strips = []
    for n in nm12.walk():
        if n['k'] != 'IfStmt' or n['c'][1] is None:
            continue
        lits = [y.get('str') for y in sub(n['c'][0]) if y['k'] == 'StringLiteral']
        shortens = any(y.get('callee', {}).get('q', '').split('::')[-1] in ('substr', 'erase', 'pop_back', 'resize') for y in sub(n['c'][1]))
        if shortens and lits and set(lits) <= {'*', '.', '.*'}:
            strips.append((n, lits))
    rep.minimum('R12.12', len(strips), 1, 'descriptor-shortening steps in nameMatch')
    bare_star = [n for n, lits in strips if lits == ['*']]
    rep.check(not bare_star, 'R12.12', 'nameMatch|trailing star', locstr(bare_star[0]) if bare_star else nm12.where(), 'a trailing `*` %s' % (
        'is dropped only as part of `.*`' if not bare_star else 'is dropped whatever precedes it, and a trailing `.` after that: nameMatch("foo*", "foo"), (".", "foo") and (".*", "foo") are true; the Promela and VHDL resolution copy the same normalisation'))
    # ---- R12.11 names derived from event names for the Promela back-end (C06 R06.7)
    rep.rule('R12.11', 'statically resolved matches keep event names apart in the Promela model too: the macro names the analyzer allocates are unique and stay identifiers (events that differ in case only must not end up with the code of one another)')
    from . import C06
    C06.unique_names(rep, facts.FactBase(C06.TUS + ['src/uscxml/transform/promela/PromelaCodeAnalyzer.cpp']), 'R12.11')
