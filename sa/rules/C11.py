"""C11 - invoked sessions start, communicate and stop as specified (DESIGN 4/C11)."""
import re
from .. import facts, lock, path, cfg as cfgm, tab
from ..facts import AnalysisBroken, strip, sub, locstr
from . import _conc
from .C08 import edge_dominates

ENGINES = ('uscxml::LargeMicroStep::step', 'uscxml::FastMicroStep::step')
INV = 'uscxml::USCXMLInvoker'


def calls(f, suffix):
    return [n for n in f.walk() if n.get('callee', {}).get('q', '').endswith(suffix)]


def run(rep, tier):
    rep.rule('R11.1', 'invoke bookkeeping in both engines: (un)invocation happens only after the internal queue was found empty and before the external dequeue; every invoke site adds its state to _invocations on every path (also when invoke threw), uninvoke sites remove it, invocation is skipped for members, and the completion step uninvokes every member of _invocations independent of the configuration')
    rep.rule('R11.2', 'finalize before match: in InterpreterImpl::dequeueExternal the finalize block and autoforwarding are executed before the event is returned to the micro-stepper, both keyed by the event\'s invokeid')
    rep.rule('R11.3', 'invoker protocol: run() enqueues done.invoke only after the step loop ended with FINISHED and under the _isActive test; stop() clears _isActive, then cancels the child, then joins, on every path with a thread; uninvoke() stops; ParentQueueImpl::enqueue and eventFromSCXML are gated by _isActive')
    rep.rule('R11.4', 'routing table of SCXMLIOProcessor::eventFromSCXML: "" -> enqueueExternal, #_internal -> enqueueInternal, #_parent -> enqueueAtParent, #_scxml_<id> -> that session or, when there is no such session, the invocation of that id, #_<id> -> enqueueAtInvoker, anything else -> error.communication; more specific prefixes are tested first')
    rep.rule('R11.5', 'no lock-order cycle through the invoker thread, the invoker mutex or a child session\'s locks')
    rep.rule('R11.7', 'per-invoke containment: every invoke() call of the engines (macrostep end and deserialize) sits alone in a try with catch(...) inside its loop, so a failing <invoke> does not keep its siblings from being started')
    rep.rule('R11.6', 'invoke-id user datum: every reader of the "invokeid" user data tests it for NULL before use (the engines record a state as invoked even when invoke failed before the id existed)')
    rep.assume('exactly-once statements across thread interleavings beyond what lock and ordering structure gives are not decided')
    c = _conc.Conc()
    fb, la = c.fb, c.la
    rep.covered(tus=len(fb.tus), extracted=fb.extracted, functions=len(fb.funcs))

    from .. import exc as excm0
    from .C07 import INFEASIBLE as INF0
    exflow = excm0.ExcFlow(fb, infeasible=set(INF0))
    # ---- R11.1
    for eq in ENGINES:
        f = fb.fn(eq)
        eng = eq.split('::')[1]
        g = path.EHCFG(f)
        inte = calls(f, 'MicroStepCallbacks::dequeueInternal')[0]
        ext = calls(f, 'MicroStepCallbacks::dequeueExternal')[0]
        inv = calls(f, 'MicroStepCallbacks::invoke')
        uninv = calls(f, 'MicroStepCallbacks::uninvoke')
        rep.minimum('R11.1', len(inv), 1, 'invoke sites in ' + eq)
        rep.minimum('R11.1', len(uninv), 2, 'uninvoke sites in ' + eq)
        from ._skel import result_test_blocks
        ibs = result_test_blocks(f, g, inte)
        int_block = ibs[-1] if ibs else None
        if int_block is None:
            raise AnalysisBroken('%s: dequeueInternal condition not found' % eq)
        # completion-phase uninvoke sites lie inside the before/afterCompletion bracket
        comp = [n for n in f.walk() if n['k'] == 'IfStmt' and n.get('mac') is None and any(s.get('ref', {}).get('name') == '_flags' for s in sub(n['c'][0])) and any(
            tab.const_of(s) == 4 for s in sub(n['c'][0]))]
        comp_ids = set()
        for cb in comp:
            comp_ids |= {s['id'] for s in sub(cb['c'][1]) if 'id' in s}
        for n in inv + [u for u in uninv if u['id'] not in comp_ids]:
            tb = g.pos[n['id']][0]
            ok1 = edge_dominates(g, int_block, False, tb)
            ok2 = g.can_reach(g.pos[ext['id']], [n['id']]) is None or True
            # the external dequeue comes after: no path from dequeueExternal back to this site within one step
            ok2 = g.can_reach(g.pos[ext['id']], [n['id']]) is None
            kind = 'invoke' if n in inv else 'uninvoke'
            ordinal = sum(1 for x in (inv if n in inv else uninv) if x['loc'][1] < n['loc'][1])
            rep.check(ok1 and ok2, 'R11.1', '%s|%s#%d placement' % (eng, kind, ordinal), locstr(n), '%s only after dequeueInternal returned no event: %s; before the external dequeue: %s' % (kind, ok1, ok2))
        # external dequeue only after the invoke loop was passed: every path from the dequeueInternal false edge to
        # dequeueExternal passes the header of the loop that contains the invoke site
        loop = None
        for a in f.ancestors(inv[0]):
            if a['k'] in ('ForStmt', 'CXXForRangeStmt', 'WhileStmt'):
                loop = a      # outermost enclosing loop wins
        if loop is None:
            raise AnalysisBroken('%s: loop around the invoke site not found' % eq)
        header_ids = {s['id'] for s in sub(loop) if 'id' in s and s['id'] in g.pos} - {s['id'] for s in sub(loop['c'][-1]) if 'id' in s}
        fs = [s for s, lab in g.succ_labeled(int_block) if lab is False]
        w = g.can_reach((fs[0], -1), [ext['id']], avoid=header_ids)
        rep.check(w is None, 'R11.1', eng + '|invoke-block-before-external', locstr(ext), 'every path from "no internal event" to dequeueExternal passes the invocation loop: %s' % (w is None))
        # bookkeeping: after an invoke site every path (normal or through its handlers) inserts into _invocations before leaving the loop iteration
        def inv_updates(kind):
            res = []
            for n in f.walk():
                names = {s.get('ref', {}).get('name') for s in sub(n)} if n['k'] in ('CXXMemberCallExpr', 'CXXOperatorCallExpr', 'BinaryOperator') else set()
                if '_invocations' not in names:
                    continue
                q = n.get('callee', {}).get('q', '').split('::')[-1]
                if kind == 'add' and (q in ('insert',) or (n['k'] in ('CXXOperatorCallExpr', 'BinaryOperator') and n.get('op') == '=' and tab.const_of(n['c'][-1]) == 1) or (n['k'] == 'CXXOperatorCallExpr' and n.get('op') == '|=')):
                    res.append(n)
                if kind == 'del' and (q in ('erase', 'clear') or (n['k'] in ('CXXOperatorCallExpr', 'BinaryOperator') and n.get('op') == '=' and tab.const_of(n['c'][-1]) == 0) or (n['k'] == 'CXXOperatorCallExpr' and n.get('op') == '&=')):
                    res.append(n)
            return res
        adds, dels = inv_updates('add'), inv_updates('del')
        rep.minimum('R11.1', len(adds), 1, '_invocations insertions in ' + eq)
        rep.minimum('R11.1', len(dels), 2, '_invocations removals in ' + eq)
        from .. import exc as excm
        from .C07 import INFEASIBLE
        gx = path.EHCFG(f, exflow)
        for n in inv:
            w = gx.can_reach(gx.pos[n['id']], [ext['id'], 'EXIT'], avoid=[a['id'] for a in adds])
            rep.check(w is None, 'R11.1', '%s|invoke recorded' % eng, locstr(n), 'after invoke every path records the state in _invocations before the step goes on: %s' % (w is None))
        for n in uninv:
            w = g.can_reach(g.pos[n['id']], [ext['id'], 'EXIT'], avoid=[d['id'] for d in dels])
            ordinal = sum(1 for x in uninv if x['loc'][1] < n['loc'][1])
            rep.check(w is None, 'R11.1', '%s|uninvoke#%d removes' % (eng, ordinal), locstr(n), 'after uninvoke every path removes the state from _invocations: %s' % (w is None))
        # invocation skipped for members: the invoke site is control dependent on a membership test of _invocations
        guarded = False
        for a in f.ancestors(inv[0]):
            if a['k'] == 'IfStmt' and any(s.get('ref', {}).get('name') == '_invocations' for s in sub(a['c'][0])):
                guarded = True
            if a['k'] == 'CompoundStmt':
                # `if (<member test>) continue;` earlier in the same loop body
                for st in a.get('c', []):
                    if st['loc'][1] >= inv[0]['loc'][1]:
                        break
                    if st['k'] == 'IfStmt' and any(s.get('ref', {}).get('name') == '_invocations' for s in sub(st['c'][0])) and any(s['k'] == 'ContinueStmt' for s in sub(st['c'][1])):
                        guarded = True
        rep.check(guarded, 'R11.1', eng + '|skip-already-invoked', locstr(inv[0]), 'invoke is guarded by a membership test of _invocations: %s' % guarded)
        # completion: uninvoke site in the completion bracket must depend on _invocations only, not on the configuration
        cu = [u for u in uninv if u['id'] in comp_ids]
        rep.minimum('R11.1', len(cu), 1, 'completion-phase uninvoke sites in ' + eq)
        for u in cu:
            conds = []
            for a in f.ancestors(u):
                if a['k'] == 'IfStmt' and a['id'] in comp_ids:
                    conds.append(a['c'][0])
            names = set()
            for cnd in conds:
                names |= {s.get('ref', {}).get('name') for s in sub(cnd) if s['k'] == 'MemberExpr'}
            # the loop that drives it must range over all states
            drv = None
            for a in f.ancestors(u):
                if a['k'] in ('ForStmt', 'WhileStmt', 'CXXForRangeStmt') and a['id'] in comp_ids:
                    drv = a
            drv_names = {s.get('ref', {}).get('name') for s in sub(drv['c'][0])} | {s.get('ref', {}).get('name') for s in sub(drv)} if drv else set()
            over_all = drv is not None and ('_states' in drv_names or any(m[0] == 'USCXML_NUMBER_STATES' for s in sub(drv) for m in (s.get('mac') or [])) or '_invocations' in {s.get('ref', {}).get('name') for s in sub(drv['c'][0] if drv['k'] != 'CXXForRangeStmt' else drv)})
            dep_cfg = '_configuration' in names
            rep.check('_invocations' in names and not dep_cfg and over_all, 'R11.1', eng + '|completion uninvokes all', locstr(u),
                      'completion uninvoke is conditioned on %s and driven by a loop over %s' % (sorted(x for x in names if x), 'all states / the invocation set' if over_all else 'the CONFIGURATION only (states exited by the final transition are skipped)'))

    # ---- R11.2
    dqx = fb.fn('uscxml::InterpreterImpl::dequeueExternal')
    gq = cfgm.CFG(dqx)
    fin = [n for n in dqx.walk() if n.get('callee', {}).get('q', '').endswith('ContentExecutor::process')]
    fwd = [n for n in dqx.walk() if n.get('callee', {}).get('q', '').endswith('Invoker::eventFromSCXML')]
    rets = [n for n in dqx.walk() if n['k'] == 'ReturnStmt']
    if not fin or not fwd or not rets:
        raise AnalysisBroken('dequeueExternal: finalize / autoforward / return not found')
    keyed = any(a['k'] == 'IfStmt' and any(s.get('ref', {}).get('name') == 'invokeid' for s in sub(a['c'][0])) and any(s.get('ref', {}).get('name') == '_finalize' for s in sub(a['c'][0])) for a in dqx.ancestors(fin[0]))
    fkeyed = any(a['k'] == 'IfStmt' and any(s.get('ref', {}).get('name') == '_autoForwarders' for s in sub(a['c'][0])) for a in dqx.ancestors(fwd[0]))
    before = all(gq.can_reach(gq.pos[r['id']], [fin[0]['id'], fwd[0]['id']]) is None for r in rets if r['id'] in gq.pos)
    # every event of the stream is forwarded: the only conditions on the way to the forwarding call are "an event was
    # dequeued" and the membership test in _autoForwarders -- nothing that filters by a property of the event
    filt = []
    for a in dqx.ancestors(fwd[0]):
        if a['k'] == 'IfStmt':
            cnames = [s_['ref']['name'] for s_ in sub(a['c'][0]) if s_['k'] == 'MemberExpr']
            if any(x in ('eventType', 'name', 'origin', 'origintype', 'sendid', 'data', 'invokeid') for x in cnames):
                filt.append(a)
    rep.check(not filt, 'R11.2', 'dequeueExternal|autoforward unfiltered', locstr(fwd[0]), 'autoforwarding is conditioned only on the dequeue and on _autoForwarders: %s%s' % (not filt, '' if not filt else '; extra filter: ' + fb.text(filt[0]['c'][0])[:100]))
    rep.check(keyed and fkeyed and before, 'R11.2', 'dequeueExternal', dqx.where(), 'finalize keyed by the event\'s invokeid: %s; autoforward keyed by _autoForwarders: %s; both before the event is returned: %s' % (keyed, fkeyed, before))

    # ---- R11.3
    run_ = fb.fn(INV + '::run')
    gr = cfgm.CFG(run_)
    loops = [n for n in run_.walk() if n['k'] == 'WhileStmt']
    enq = [n for n in run_.walk() if n.get('callee', {}).get('q', '').endswith('::enqueueExternal')]
    if not loops or not enq:
        raise AnalysisBroken('USCXMLInvoker::run: step loop / done.invoke enqueue not found')
    lp = loops[0]
    cond_fin = any(s.get('ref', {}).get('name') == 'USCXML_FINISHED' for s in sub(lp['c'][0])) and any(s.get('op') == '!=' for s in sub(lp['c'][0]))
    after_loop = not any(x is enq[0] for x in sub(lp))
    from ._skel import guarded_by
    gate = guarded_by(run_, gr, enq[0], ('_isActive',))
    names_done = any(s['k'] == 'StringLiteral' and s.get('str', '').startswith('done.invoke') for s in run_.walk())
    rep.check(cond_fin and after_loop and gate and names_done, 'R11.3', 'run|done.invoke', locstr(enq[0]), 'loop runs until FINISHED: %s; done.invoke enqueued after the loop: %s; under the _isActive test: %s' % (cond_fin, after_loop, gate))
    stop = fb.fn(INV + '::stop')
    gs = cfgm.CFG(stop)
    clr = [n for n in stop.walk() if n['k'] == 'BinaryOperator' and n.get('op') == '=' and any(s.get('ref', {}).get('name') == '_isActive' for s in sub(n['c'][0])) and tab.const_of(n['c'][1]) == 0]
    can = calls(stop, 'Interpreter::cancel')
    joi = calls(stop, 'thread::join')
    if not clr or not can or not joi:
        rep.fail('R11.3', 'stop|order', stop.where(), 'stop() lacks one of: _isActive=false (%d), cancel (%d), join (%d)' % (len(clr), len(can), len(joi)))
    else:
        o1 = gs.dominates(clr[0]['id'], can[0]['id'])
        o2 = gs.dominates(can[0]['id'], joi[0]['id'])
        thr_guard = guarded_by(stop, gs, joi[0], ('_thread',))
        rep.check(o1 and o2 and thr_guard, 'R11.3', 'stop|order', stop.where(), '_isActive=false dominates cancel: %s; cancel dominates join: %s; join under the _thread test: %s' % (o1, o2, thr_guard))
    un = fb.fn(INV + '::uninvoke')
    rep.check(bool(calls(un, 'USCXMLInvoker::stop')), 'R11.3', 'uninvoke->stop', un.where(), 'uninvoke() stops the child')
    for q in (INV + '::ParentQueueImpl::enqueue', INV + '::eventFromSCXML'):
        f = fb.fn(q)
        g = cfgm.CFG(f)
        sinks = [n for n in f.walk() if n.get('callee', {}).get('q', '').endswith(('::eventToSCXML', 'Interpreter::receive'))]
        if not sinks:
            raise AnalysisBroken('%s: forwarding call not found' % q)
        gated = False
        for bid, b in g.blocks.items():
            cnd = b.get('cond')
            if cnd is None or cnd not in f.nodes:
                continue
            cn = strip(f.nodes[cnd])
            neg = False
            while cn['k'] == 'UnaryOperator' and cn.get('op') == '!':
                neg = not neg
                cn = strip(cn['c'][0])
            if any(s.get('ref', {}).get('name') == '_isActive' for s in sub(cn)):
                if edge_dominates(g, bid, not neg, g.pos[sinks[0]['id']][0]):
                    gated = True
        rep.check(gated, 'R11.3', q.split('::')[-2] + '::' + q.split('::')[-1] + '|gated', f.where(), 'forwarding only on the _isActive edge: %s' % gated)

    # ---- R11.4
    io = fb.fn('uscxml::SCXMLIOProcessor::eventFromSCXML')
    top = None
    for n in io.walk():
        if n['k'] == 'IfStmt':
            chain, els = tab.if_chain(n)
            if len(chain) >= 5:
                top = (chain, els)
                break
    if top is None:
        raise AnalysisBroken('SCXMLIOProcessor::eventFromSCXML: routing if-chain not found')
    table = []
    for cond, then in top[0]:
        if tab.const_of(cond) == 0:
            continue
        lits = [s['str'] for s in sub(cond) if s['k'] == 'StringLiteral' and 'str' in s]
        is_len0 = not lits and any(s.get('callee', {}).get('q', '').endswith('::length') for s in sub(cond)) and any(tab.const_of(s) == 0 for s in sub(cond))
        prefix = any(s.get('callee', {}).get('q', '').endswith('::substr') for s in sub(cond))
        sink = sorted({s['callee']['q'].split('::')[-1] for s in sub(then) if s.get('callee') and s['callee']['q'].split('::')[-1].startswith('enqueue')})
        key = '' if is_len0 else (lits[0] + ('*' if prefix else '') if lits else '?')
        table.append((key, sink))
    else_throws = top[1] is not None and any(s['k'] == 'CXXThrowExpr' for s in sub(top[1]))
    expect = [('', ['enqueueExternal']), ('#_internal', ['enqueueInternal']), ('#_parent', ['enqueueAtParent']), ('#_scxml_*', ['enqueueAtInvoker', 'enqueueExternal']), ('#_*', ['enqueueAtInvoker'])]     # an invoke id may start with scxml_: no such session -> the invoke-id rule
    rep.check(table == expect and else_throws, 'R11.4', 'eventFromSCXML|routing', io.where(), 'target -> sink table in test order: %s; unknown targets raise: %s' % (table, else_throws))
    rep.sample({'routing': table})

    # ---- R11.5
    CORE = ('BasicEventQueue::_mutex@', 'InterpreterImpl::', 'USCXMLInvoker::_mutex@', 'CB(timerCallback)', 'T(BasicDelayedEventQueue::run)', 'T(USCXMLInvoker::run)')
    mine = [cy for cy in c.minimal_cycles() if all(n.startswith(CORE) for n in cy) and any('invoker' in n or '@child/' in n or '@parent/' in n or '_parentQueue' in n for n in cy)]
    for cy in mine:
        w = c.witnesses(cy)
        rep.fail('R11.5', ' > '.join(cy), w[0].split(' at ')[-1].split(' ')[0] if w else '?', 'lock-order cycle through the invoker machinery', path=w)
    nodes = {n for e in c.lo.edges for n in e}
    if not any(n.startswith('T(USCXMLInvoker::run)') for n in nodes) or not any('USCXMLInvoker::_mutex@' in n for n in nodes):
        raise AnalysisBroken('invoker nodes missing from the lock-order graph')
    if not mine:
        rep.ok('R11.5', 'acyclic', 'no cycle through T(USCXMLInvoker::run), USCXMLInvoker::_mutex or child/parent session locks (%d edges)' % len(c.lo.edges))

    # ---- R11.12 / R11.13 (second audit)
    rep.rule('R11.12', 'an event that crosses into another session does not point into the sender\'s document: where a child\'s event is copied into the parent\'s queue (ParentQueueImpl::enqueue) the DOM node of its data is detached (cloned / imported) or dropped - the sender\'s document is deleted when the invocation is cancelled')
    pq = fb.fn('uscxml::USCXMLInvoker::ParentQueueImpl::enqueue')
    handles_node = any((y['k'] == 'MemberExpr' and y.get('ref', {}).get('name') == 'node') or y.get('callee', {}).get('q', '').split('::')[-1] in ('importNode', 'cloneNode') for y in pq.walk())
    rep.check(handles_node, 'R11.12', 'ParentQueueImpl::enqueue|data.node', pq.where(), 'the copy of the child\'s event that is handed to the parent %s' % (
        'detaches the DOM node of its data' if handles_node else 'keeps Event::data.node, a raw pointer into the child\'s document: the parent leaves the invoking state, the child and its document are destroyed, the still queued event is processed (<log expr="_event.data"/>) - use after free'))
    rep.rule('R11.13', 'done.invoke.<id> is the event the recommendation specifies: the invoker thread that reports the end of the child puts the donedata of the child\'s top-level final state into the event (returnDoneEvent(s.donedata))')
    rn = fb.fn('uscxml::USCXMLInvoker::run')
    done_lit = [y for y in rn.walk() if y['k'] == 'StringLiteral' and (y.get('str') or '').startswith('done.invoke')]
    rep.minimum('R11.13', len(done_lit), 1, 'done.invoke literals in USCXMLInvoker::run')
    sets_data = any(y['k'] in ('CXXOperatorCallExpr', 'BinaryOperator') and y.get('op') == '=' and any(z['k'] == 'MemberExpr' and z.get('ref', {}).get('name') == 'data' and 'Event' in (z.get('ref', {}).get('rec') or '') for z in sub(y['c'][-2])) for y in rn.walk())
    rep.check(sets_data, 'R11.13', 'USCXMLInvoker::run|donedata', locstr(done_lit[0]) if done_lit else rn.where(), 'the done.invoke event %s' % (
        'carries data' if sets_data else 'is built from name and invokeid only: <final><donedata><param name="x" expr="5"/></donedata></final> in the child gives the parent _event.data == nil'))
    # ---- R11.10 / R11.11 (audit round)
    rep.rule('R11.10', 'a restored child does not run before it is restored: the engines\' deserialize() do not start invocations (which starts the child\'s thread from its initial configuration) before InterpreterImpl::deserialize hands the child its saved state')
    for eq10 in ('uscxml::LargeMicroStep::deserialize', 'uscxml::FastMicroStep::deserialize'):
        f10 = fb.fn(eq10)
        starts = [n for n in f10.walk() if n.get('callee', {}).get('q', '') == 'uscxml::MicroStepCallbacks::invoke']
        rep.check(not starts, 'R11.10', eq10.split('::')[1] + '::deserialize', locstr(starts[0]) if starts else f10.where(), '%s %s' % (eq10.split('::')[1] + '::deserialize',
                  'does not start invocations' if not starts else 'calls invoke(): the child\'s thread starts from scratch and runs until USCXMLInvoker::deserialize overwrites it - a child restored as finished posts done.invoke again, early child events arrive twice'))
    rep.rule('R11.11', 'finalize runs for the events of the invoked child only: the invokeid that selects the finalize block is set where an event crosses from child to parent, not stamped by <send> on every event a session sends')
    ps = fb.fn('uscxml::BasicContentExecutor::processSend')
    stamps = [n for n in ps.walk() if n['k'] in ('CXXOperatorCallExpr', 'BinaryOperator') and n.get('op') == '=' and any(
        x['k'] == 'MemberExpr' and x['ref'].get('name') == 'invokeid' for x in sub(n['c'][1] if n['k'] == 'CXXOperatorCallExpr' else n['c'][0]))]
    if not any(x.get('callee', {}).get('q', '').endswith('getInvokeId') for x in ps.walk()):
        stamps = []
    guarded11 = [n for n in stamps if any(a_['k'] == 'IfStmt' and any(x['k'] == 'StringLiteral' and (x.get('str') or '').startswith('#_parent') for x in sub(a_['c'][0])) for a_ in ps.ancestors(n))]
    rep.check(not stamps or len(guarded11) == len(stamps), 'R11.11', 'processSend|invokeid', locstr(stamps[0]) if stamps else ps.where(), 'processSend %s' % (
        'does not stamp the sender\'s invokeid on every event' if not stamps or len(guarded11) == len(stamps) else 'stamps the sender\'s own invokeid on EVERY event it sends, whatever the target: a session invoked as "sub" that invokes a child "sub" runs that child\'s <finalize> for its own timer events'))

    # ---- R11.9 the invoke bookkeeping of a session is shared with its timer thread
    rep.rule('R11.9', 'the maps a delayed #_<invokeid> send consults (InterpreterImpl::_invokers, _finalize, _autoForwarders) are accessed under one common mutex by the interpreter thread (invoke / uninvoke) and the timer thread (enqueueAtInvoker)')
    impl9 = 'uscxml::InterpreterImpl'
    dq9 = 'uscxml::BasicDelayedEventQueue'
    roots9 = {'api': [fb.fn(q) for q in ('uscxml::Interpreter::step', 'uscxml::Interpreter::receive')], 'timer': [fb.fn(dq9 + '::run'), fb.fn(dq9 + '::timerCallback')]}
    reach9 = {k: set(c.cg.reach(v)) for k, v in roots9.items()}
    n9 = 0
    for name in ('_invokers', '_finalize', '_autoForwarders'):
        acc = [(f, n) for f in fb.funcs.values() if f.file.startswith('src/') and f.q.split('::')[-1] not in ('InterpreterImpl', '~InterpreterImpl') for n in f.walk()
               if n['k'] == 'MemberExpr' and n['ref'].get('name') == name and n['ref'].get('rec') == impl9]
        who = {k for k, r in reach9.items() for f, n in acc if f.m in r}
        if len(who) < 2:
            continue
        n9 += 1
        common = None
        for f, n in acc:
            held = {m for b, m in la.held(f, n)}
            common = held if common is None else common & held
        bad = [(f, n) for f, n in acc if not la.held(f, n)]
        rep.check(bool(common), 'R11.9', 'InterpreterImpl::' + name, locstr(bad[0][1]) if bad else impl9, 'field %s is reached from %s; %s' % (name, sorted(who),
                  'every access holds %s' % sorted(x.split('::')[-1] for x in common) if common else
                  'its accesses share NO mutex (unlocked in %s): a delayed send to #_<invokeid> arriving on the timer thread while the state is un-invoked reads the map entry that ~USCXMLInvoker is tearing down (use after free, SIGSEGV)' % ', '.join(sorted({f.q.split('uscxml::')[-1] for f, n in bad})[:4])))
    rep.minimum('R11.9', n9, 1, 'invoke bookkeeping maps reached from the timer thread')

    # ---- R11.4 (second part): the reserved terms are compared exactly
    io4 = fb.fn('uscxml::SCXMLIOProcessor::eventFromSCXML')
    ci = [n for n in io4.walk() if n['k'] == 'CallExpr' and n.get('callee', {}).get('q', '').split('::')[-1] in ('iequals', 'istarts_with', 'strcasecmp') and any(
        x['k'] == 'StringLiteral' and (x.get('str') or '').startswith('#_') and re.search(r'[A-Za-z]', x.get('str') or '') for x in sub(n))]
    rep.check(not ci, 'R11.4', 'eventFromSCXML|reserved terms compared exactly', locstr(ci[0]) if ci else io4.where(), 'the special targets #_internal, #_parent, #_scxml_ are compared %s' % (
        'exactly' if not ci else 'IGNORING CASE: a send to an invocation whose id is "Parent" or "INTERNAL" is routed to the parent session / the own internal queue'))

    # ---- R11.8 an exited state loses its invocation also when it is re-entered before the macrostep ends
    rep.rule('R11.8', 'cancelled exactly once when the state is exited: a state that leaves the configuration is un-invoked or at least removed from the set of invoked states in the exit phase; deciding at macrostep end from "invoked and not in the configuration" misses a state that was exited and re-entered in between')
    for eq in ENGINES:
        f8 = fb.fn(eq)
        eng8 = eq.split('::')[1]
        # the exit phase: the loop (or straight code) that removes states from the configuration
        cfg_names = ('_configuration',)
        removals = [n for n in f8.walk() if (n['k'] == 'CXXMemberCallExpr' and n.get('callee', {}).get('q', '').split('::')[-1] == 'erase' and n['c'][0].get('c') and any(
            x['k'] == 'MemberExpr' and x['ref'].get('name') in cfg_names for x in sub(n['c'][0]['c'][0]))) or (
            n['k'] in ('CXXOperatorCallExpr', 'BinaryOperator') and n.get('op') == '=' and any(m[0] == 'BIT_CLEAR' for m in (n.get('mac') or [])) and any(
            x['k'] == 'MemberExpr' and x['ref'].get('name') in cfg_names for x in sub(n)))]
        if not removals:
            raise AnalysisBroken('%s: no removal from the configuration found' % eq)
        ok8 = False
        for r_ in removals:
            lp = next((a_ for a_ in f8.ancestors(r_) if a_['k'] in ('ForStmt', 'CXXForRangeStmt', 'WhileStmt', 'DoStmt')), None)
            scope = lp if lp is not None else f8.parent(r_)
            if scope is None:
                continue
            if any(x.get('callee', {}).get('q', '') == 'uscxml::MicroStepCallbacks::uninvoke' for x in sub(scope)) or any(
                    x['k'] == 'MemberExpr' and x['ref'].get('name') == '_invocations' for x in sub(scope)):
                ok8 = True
        rep.check(ok8, 'R11.8', '%s|exit phase' % eng8, locstr(removals[0]), 'the exit phase of %s %s' % (eng8, 'touches the invocations of the states it exits' if ok8 else
                  'does NOT touch _invocations: a state exited and re-entered within one macrostep (transition targeting its own source) keeps its old invocation, which is neither cancelled nor started again'))

    # ---- R11.7
    from .C07 import call_granularity
    call_granularity(rep, fb, 'R11.7', 'uscxml::MicroStepCallbacks::invoke', 'invocations of the state',
                     funcs=ENGINES + ('uscxml::LargeMicroStep::deserialize', 'uscxml::FastMicroStep::deserialize'))

    # ---- R11.6
    readers = []
    for f in fb.funcs.values():
        if not f.file.startswith('src/uscxml/'):
            continue
        for n in f.walk():
            if n.get('callee', {}).get('q', '').endswith('::getUserData') and any(
                    (s['k'] == 'StringLiteral' and s.get('str') == 'invokeid') or s.get('ref', {}).get('name') == 'kXMLCharInvokeId' for s in sub(n)):
                readers.append((f, n))
    rep.minimum('R11.6', len(readers), 4, 'readers of the invokeid user datum')
    for f, n in readers:
        # the value is stored in a local; that local must be tested against NULL before any other use
        decl = None
        for a in f.ancestors(n):
            if a['k'] == 'DeclStmt':
                decl = a
                break
        ok = False
        if decl is not None:
            lid = decl['decls'][0]['lid']
            g = cfgm.CFG(f)
            uses = [s for s in f.walk() if s['k'] == 'DeclRefExpr' and s.get('ref', {}).get('lid') == lid]
            tests = []
            for bid, b in g.blocks.items():
                cnd = b.get('cond')
                if cnd is not None and cnd in f.nodes:
                    cn = f.nodes[cnd]
                    if any(s['k'] == 'DeclRefExpr' and s.get('ref', {}).get('lid') == lid for s in sub(cn)):
                        tests.append((bid, cn))
            test_ids = {s['id'] for _, cn in tests for s in sub(cn) if 'id' in s}
            other = [u for u in uses if u['id'] not in test_ids]
            dom = g.dominators()
            ok = bool(tests) and all(any(bid in dom.get(g.pos.get(_pos(f, g, u), (None,))[0], ()) for bid, _ in tests) for u in other if _pos(f, g, u) is not None)
        rep.check(ok, 'R11.6', '%s|invokeid' % f.q, locstr(n), 'invokeid user datum read in %s is %s' % (f.q.split('uscxml::')[-1], 'tested for NULL before use' if ok else 'used WITHOUT a NULL test'))


def _pos(f, g, n):
    x = n
    while x is not None:
        if x['id'] in g.pos:
            return x['id']
        x = f.parent(x)
    return None
