"""C01 - the interpreter follows the W3C step algorithm: skeleton of Appendix D in the default engine (DESIGN 4/C01).
(thorough: the same rules on the fast engine.)"""
from .. import facts, exc, path, cfg as cfgm, tab, cg
from ..facts import AnalysisBroken, strip, sub, locstr
from . import _domain, _skel
from .C07 import INFEASIBLE, block_granularity
from .C08 import macrostep_boundary

EXPECTED_ORDER = {
    # site: [(direction, container must mention), ...] outermost first -- Appendix D: exitOrder (reverse document order),
    # entryOrder (document order), transitions and handlers in document order
    'P:onExit': [('reverse', '_exitSet'), ('forward', 'onExit')],
    'CFG:erase': [('reverse', '_exitSet')],
    'P:onTrans': [('forward', '_transSet')],
    'CFG:insert': [('forward', '_entrySet')],
    'C:initData': [('forward', '_entrySet'), ('forward', 'data')],
    'P:onEntry': [('forward', '_entrySet'), ('forward', 'onEntry')],
    'P:onExit@completion': [('reverse', None), ('forward', 'onExit')],
}
ORDERED_CONTAINERS = {   # member -> comparator its type must carry (L engine): document / post-fix order
    '_exitSet': 'StateOrder', '_entrySet': 'StateOrder', '_configuration': 'StateOrder', '_configurationPostFix': 'StateOrderPostFix', '_transSet': 'TransitionOrder',
}


def check_engine(rep, fb, ex, eq, callgraph):
    sk = _skel.Skeleton(fb, ex, eq)
    eng = sk.eng
    f = sk.f
    # R01.1
    viol, states, keep = sk.phase_protocol()
    n_proc = sum(1 for l in keep.values() if l.startswith('P:'))
    rep.minimum('R01.1', n_proc, 5, 'process() sites in ' + eq)
    rep.minimum('R01.1', sum(1 for l in keep.values() if l == 'C:raiseDoneEvent'), 2, 'raiseDoneEvent sites in ' + eq)
    rep.minimum('R01.1', sum(1 for l in keep.values() if l == 'H'), 1, 'history updates in ' + eq)
    if not viol:
        rep.ok('R01.1', eng, '%d product states over %d events: history* (exit-handlers config-erase)* transition-content* (config-insert initData* entry-handlers* initial/history-transition-content* done*)* on every path' % (states, len(keep)))
    for v in viol:
        steps = ['%s @%s' % (l, locstr(f.nodes[nid])) for l, nid in v['path'][-10:]]
        node = f.nodes.get(v.get('node')) if v.get('node') is not None else None
        rep.fail('R01.1', '%s|%s in %s' % (eng, v.get('event', v['kind']), v['state']), locstr(node) if node else f.where(),
                 '%s occurs in phase %s: Appendix D order (remember history, exit, take, enter) is broken on this path' % (v.get('event', v['kind']), v['state']), path=steps)
    # R01.2
    orders = sk.orders()
    for site, want in EXPECTED_ORDER.items():
        if site not in orders:
            raise AnalysisBroken('%s: site %s not found' % (eng, site))
        infos, n = orders[site]
        ok = len(infos) >= len(want)
        for (d, c_), (wd, wc) in zip(infos, want):
            if d != wd or (wc is not None and (c_ is None or wc not in c_)):
                ok = False
        rep.check(ok, 'R01.2', '%s|%s' % (eng, site), locstr(n), '%s runs in loops %s; Appendix D wants %s' % (site, infos, want))
    # selection order: isMatched site
    im = [n for n in f.walk() if n.get('callee', {}).get('q') == 'uscxml::MicroStepCallbacks::isMatched']
    if len(im) != 1:
        raise AnalysisBroken('%s: expected exactly one isMatched site' % eng)
    loops = [a for a in f.ancestors(im[0]) if a['k'] in ('ForStmt', 'WhileStmt', 'CXXForRangeStmt')]
    infos = [_skel.loop_info(fb, f, l) for l in reversed(loops)]
    if any(i is None for i in infos):
        raise AnalysisBroken('%s: selection loop idiom not recognised' % eng)
    if eng == 'LargeMicroStep':
        ok = len(infos) == 2 and infos[0] == ('forward', '_configurationPostFix') and infos[1] == ('forward', 'transitions')
    else:
        ok = len(infos) >= 1 and all(i[0] == 'forward' for i in infos)
    rep.check(ok, 'R01.2', eng + '|selection', locstr(im[0]), 'transitions are tried in %s (document / post-fix order, first enabled wins)' % infos)
    if eng == 'LargeMicroStep':
        rec = fb.records[f.rec]
        for m, comp in ORDERED_CONTAINERS.items():
            t = [fd['t'] for fd in rec['fields'] if fd['name'] == m]
            if not t:
                raise AnalysisBroken('member %s not found in %s' % (m, f.rec))
            rep.check(comp + '>' in t[0].replace(' ', '') or t[0].rstrip('> ').endswith(comp), 'R01.2', '%s|%s comparator' % (eng, m), f.where(), '%s is a %s' % (m, t[0]))
    # R01.5
    guards = sk.exit_interval_guards()
    rep.minimum('R01.5', len(guards), 1, 'exit interval applications in ' + eq)
    for n, g_ in guards:
        rep.check(g_, 'R01.5', '%s|exit interval application' % eng, locstr(n), 'the exit interval is applied %s the emptiness test (first != 0): %s' % ('under' if g_ else 'WITHOUT', 'a targetless transition exits nothing' if g_ else 'a targetless transition (0,0) puts <scxml> into the exit set'))
    # R01.6
    bad = sk.bitset_typestate()
    for n, name, later in bad:
        rep.fail('R01.6', '%s|%s.clear' % (eng, name), locstr(n), 'dynamic_bitset %s is clear()ed (size 0) and indexed afterwards at %s: stale bits of earlier micro-steps are read' % (name, ', '.join(locstr(x) for x in later[:4])))
    nbits = sum(1 for n in f.walk() if n['k'] == 'CXXOperatorCallExpr' and n.get('op') == '[]' and 'dynamic_bitset' in n.get('callee', {}).get('q', ''))
    if not bad:
        rep.ok('R01.6', eng, '%d bitset index operations; no bitset is shrunk before it is indexed' % nbits)
    # R01.8
    cmps = sk.interval_comparisons()
    rep.minimum('R01.8', len(cmps), 4, 'comparisons on exit-interval endpoints in ' + eng)
    strict = [(ff, n, op) for ff, n, op in cmps if op in ('<', '>')]
    for ff, n, op in strict:
        rep.fail('R01.8', '%s|%s|%s' % (eng, ff.q.split('::')[-1], op), locstr(n), 'exit intervals are closed on both ends (applied with >= first && <= second) but this overlap/membership test uses the strict %s: %s' % (op, fb.text(n)[:80]))
    if not strict:
        rep.ok('R01.8', eng, '%d endpoint comparisons, all non-strict (closed intervals)' % len(cmps))
    # R01.9
    masks = sk.kind_code_masks()
    for ff, n in masks:
        rep.fail('R01.9', '%s|%s' % (eng, ff.q.split('::')[-1]), locstr(n), 'a state kind code (enumeration value) is used as a bit mask: %s' % fb.text(n)[:80])
    nk = sum(1 for ff in fb.funcs.values() if ff.rec == f.rec for n in ff.walk() if n['k'] == 'IntegerLiteral' and any(m[0] in _skel.KIND_CODES for m in (n.get('mac') or [])))
    rep.minimum('R01.9', nk, 15, 'uses of state kind codes in ' + eng)
    if not masks:
        rep.ok('R01.9', eng, '%d uses of kind codes, all compared (==, !=, switch), never masked' % nk)
    # R01.13 a descendant's transition pre-empts its ancestors' whatever it exits (large engine: lazily computed conflicts)
    if f.rec.endswith('LargeMicroStep'):
        from .C03 import large_conflict_terms
        lt, lsite = large_conflict_terms(fb)
        anc = sorted(t for t in lt if t.startswith('source-ancestry'))
        rep.check(len(anc) == 2, 'R01.13', eng + '|ancestor pre-emption', locstr(lsite), 'a transition whose source is an ancestor or descendant of an already selected transition\'s source is %s (terms: %s); a targetless transition has an empty exit set, so exit-set overlap alone lets the ancestor\'s transition fire as well' % (
            'recorded as conflicting' if len(anc) == 2 else 'NOT recorded as conflicting', sorted(lt)))
        # W3C selects per atomic state along its ancestor chain: an ancestor's transition is pre-empted only on the chains of
        # atomic descendants that have an enabled transition of their own.  A PAIRWISE conflict on source ancestry pre-empts it
        # globally: with another region idle, Appendix D takes the ancestor's transition as well (exit sets do not intersect).
        rep.check(len(anc) == 0 or False, 'R01.13', eng + '|pre-emption is per atomic state', locstr(lsite),
                  'source ancestry is a pairwise conflict between transitions (%s): a targetless transition in one region pre-empts the parallel\'s own transition although another region reaches it unpre-empted' % sorted(anc))
        # ... and the ordered view it walks keeps every state (shared with C02 R02.9)
        from .C02 import comparator_keys
        comparator_keys(rep, fb, 'R01.13')
    if f.rec.endswith('FastMicroStep'):
        from .C03 import fast_conflict_terms
        ft, _n = fast_conflict_terms(fb, fb.fn('uscxml::FastMicroStep::init'))
        fanc = sorted(t for t in ft if t.startswith('source-ancestry'))
        rep.check(len(fanc) == 0, 'R01.13', eng + '|pre-emption is per atomic state', fb.fn('uscxml::FastMicroStep::init').where(),
                  'source ancestry is a pairwise conflict in the precomputed matrix (%s): a targetless transition in one region pre-empts the parallel\'s own transition although another region reaches it unpre-empted' % fanc)
    # R01.16 history default
    hn, hd = _skel.history_default_condition(f)
    if hn is None:
        raise AnalysisBroken('%s: the test that selects a history state\'s default transition was not found' % eng)
    rep.check(hd == ['nothing remembered'], 'R01.16', eng + '|history default', locstr(hn), 'a history state takes its default transition under: %s%s' % (
        ' and '.join(sorted(hd)), '' if hd == ['nothing remembered'] else ' -- the recommendation takes it whenever no history value is recorded; with the extra condition a transition into the history of an active parent enters nothing'))
    # R01.15 extent of the exit interval
    exit_extent(rep, fb, f, eng)
    if f.rec.endswith('LargeMicroStep'):
        selection_cursor(rep, fb, 'R01.19')
        from .C03 import in_final_rules
        in_final_rules(rep, fb, 'R01.20')
    # R01.14 the set of still-compatible transitions only narrows
    if f.rec.endswith('LargeMicroStep'):
        narrowing_polarity(rep, fb, f, eng)
    # R01.12 history records are independent
    from .C05 import history_features
    hf = history_features(fb, fb.fn(f.rec + '::getHistoryCompletion'))
    store_types = set()
    for ff in fb.funcs.values():
        if ff.q == f.q:
            for n in ff.walk():
                if n['k'] == 'MemberExpr' and n.get('ref', {}).get('name') == '_history':
                    store_types.add((n.get('t') or '')[:60])
    shared = bool(store_types) and not any('map<' in t for t in store_types)      # one bit / element per state, not per history
    overlap = any('isDescendant' in x for x in hf['deep']) and not hf['exclusion_live']
    rep.check(not (shared and overlap), 'R01.12', '%s|shared history store with overlapping completions' % eng, hf['site'],
              'the history store %s is %s and the completion of a deep history %s the states of histories nested below it: %s' % (
                  sorted(store_types), 'one set of states shared by all histories' if shared else 'kept per history', 'INCLUDES' if overlap else 'excludes',
                  'remembering the outer history rewrites (and can erase) the record of the inner one' if shared and overlap else 'records are independent'))
    # R01.11 transition domain / LCCA shape of this engine's own copy
    dom = fb.fn(f.rec + '::getTransitionDomain')
    ns, na = _domain.check(rep, 'R01.11', fb, [dom], eng)
    rep.minimum('R01.11', ns + na, 2, 'shortcut / acceptance sites of %s::getTransitionDomain' % eng)
    # data-model independence
    pred = callgraph.reach([f])
    direct_dm = [fb.funcs[m].q for m in pred if fb.funcs[m].file.startswith('src/uscxml/plugins/datamodel/') and pred[m] is not None and fb.funcs[pred[m]].file.startswith('src/uscxml/interpreter/' + eng)]
    rep.check(not direct_dm, 'R01.10', eng + '|datamodel-independent', f.where(), 'the engine reaches data models only through the MicroStepCallbacks interface (direct calls: %s)' % direct_dm)


def selection_cursor(rep, fb, rule='R01.19'):
    """the selection loop of the large engine: extra advances of the iterator over the post-fix view are conditioned on the
    state whose transition was just selected"""
    f = fb.fn('uscxml::LargeMicroStep::step')
    n_loops = 0
    for lp in f.walk():
        if lp['k'] != 'ForStmt' or lp['c'][0] is None or lp['c'][0]['k'] != 'DeclStmt':
            continue
        d0 = lp['c'][0]['decls'][0]
        if 'init' not in d0 or not any(x['k'] == 'MemberExpr' and x['ref'].get('name') == '_configurationPostFix' for x in sub(d0['init'])):
            continue
        it = d0['lid']
        body = lp['c'][-1]
        # the fetch:  State* state = *it++   (or *it followed by ++it)
        fetched = None
        for n in sub(body):
            if n['k'] == 'DeclStmt':
                for d in n.get('decls', []):
                    if 'init' in d and any(x['k'] == 'DeclRefExpr' and x.get('ref', {}).get('lid') == it for x in sub(d['init'])) and 'State' in (d.get('t') or ''):
                        fetched = d
                        break
            if fetched:
                break
        if fetched is None:
            continue
        n_loops += 1
        derived = {fetched['lid']}
        changed = True
        while changed:
            changed = False
            for n in sub(body):
                if n['k'] == 'DeclStmt':
                    for d in n.get('decls', []):
                        if d['lid'] not in derived and 'init' in d and any(x['k'] == 'DeclRefExpr' and x.get('ref', {}).get('lid') in derived for x in sub(d['init'])) and 'State' in (d.get('t') or ''):
                            derived.add(d['lid'])
                            changed = True
        fetch_ids = {x['id'] for x in sub(fetched['init'])}
        adv = [n for n in sub(body) if n['k'] in ('CXXOperatorCallExpr', 'UnaryOperator') and n.get('op') in ('++', '--') and n['id'] not in fetch_ids and any(
            x['k'] == 'DeclRefExpr' and x.get('ref', {}).get('lid') == it for x in sub(n))]
        for a in adv:
            conds = []
            for anc in f.ancestors(a):
                if anc is lp:
                    break
                if anc['k'] in ('WhileStmt', 'IfStmt', 'ForStmt', 'DoStmt'):
                    c = anc['c'][0] if anc['k'] != 'ForStmt' else (anc['c'][2] if len(anc['c']) > 2 else None)
                    if anc['k'] == 'DoStmt':
                        c = anc['c'][-1]
                    if c is not None:
                        conds.append(c)
                        break           # the innermost controlling condition decides the skip
            related = any(x['k'] == 'DeclRefExpr' and x.get('ref', {}).get('lid') in derived for c in conds for x in sub(c))
            rep.check(related, rule, 'LargeMicroStep|extra advance of the selection cursor#%d' % sum(1 for x in adv if x['loc'][1] < a['loc'][1]), locstr(a),
                      'besides the fetch `%s` the cursor over _configurationPostFix is advanced %s' % (' '.join(fb.text(fetched['init']).split())[:30],
                      'under a condition on the fetched state (skips what that state pre-empts)' if related else
                      'under a condition that does NOT mention the fetched state: after `*it++` the cursor already names the NEXT entry, so the skip judges the wrong state and drops an orthogonal region whose following entry is its parent'))
        if not adv:
            rep.ok(rule, 'LargeMicroStep|selection cursor', 'the cursor is advanced by the fetch only')
    rep.minimum(rule, n_loops, 1, 'loops over _configurationPostFix that fetch a state in LargeMicroStep::step')


def exit_extent(rep, fb, f, eng):
    gx = fb.fn(f.rec + '::getExitSet')
    defs = path.local_defs(gx)
    ends = []
    for n in gx.walk():
        if n['k'] in ('BinaryOperator', 'CXXOperatorCallExpr') and n.get('op') == '=':
            l = strip(n['c'][0] if n['k'] == 'BinaryOperator' else n['c'][1])
            if l is not None and l['k'] == 'MemberExpr' and l.get('ref', {}).get('name') == 'second':
                ends.append(n)
    rep.minimum('R01.15', len(ends), 1, 'assignments to the upper end of the exit interval in %s::getExitSet' % eng)

    def slice_feats(expr, depth=0, seen=None):
        seen = seen if seen is not None else set()
        feats = set()
        for x in sub(expr):
            if x['k'] == 'MemberExpr' and x.get('ref', {}).get('name') in ('ancestors', 'parent'):
                feats.add(x['ref']['name'])
            if x.get('callee', {}).get('q', '').endswith(('getParentNode', 'getParentState', 'isDescendant')):
                feats.add('parent')
            if x.get('callee', {}).get('q', '').endswith('getNextElementSibling'):
                feats.add('next-sibling')
            if x['k'] == 'MemberExpr' and x.get('ref', {}).get('name') == '_states' and any(y.get('callee', {}).get('q', '').endswith('::size') for y in sub(expr)):
                feats.add('document-end')
            if x['k'] == 'DeclRefExpr' and 'lid' in x.get('ref', {}) and x['ref']['lid'] not in seen and depth < 4:
                lid = x['ref']['lid']
                seen.add(lid)
                for d in defs.get(lid, []):
                    feats |= slice_feats(d, depth + 1, seen)
                # conditions of loops / ifs that contain a write of this local
                for w in gx.walk():
                    if w['k'] in ('UnaryOperator', 'BinaryOperator', 'CompoundAssignOperator') and w.get('op') in ('++', '=', '+=') and any(
                            y['k'] == 'DeclRefExpr' and y.get('ref', {}).get('lid') == lid for y in sub(w['c'][0] if w.get('c') else w)):
                        for a in gx.ancestors(w):
                            if a['k'] in ('WhileStmt', 'ForStmt', 'IfStmt', 'DoStmt'):
                                kids = [c for c in a['c'] if c is not None]
                                cond = kids[0] if a['k'] in ('WhileStmt', 'IfStmt') else (a['c'][2] if a['k'] == 'ForStmt' and len(a['c']) > 2 else None)
                                if cond is not None:
                                    for y in sub(cond):
                                        if y['k'] == 'MemberExpr' and y.get('ref', {}).get('name') in ('ancestors', 'parent'):
                                            feats.add(y['ref']['name'])
        return feats
    for n in ends:
        rhs = n['c'][1] if n['k'] == 'BinaryOperator' else n['c'][2]
        feats = slice_feats(rhs)
        # control dependence: an if around the assignment that tests a sibling pointer
        for a in gx.ancestors(n):
            if a['k'] == 'IfStmt':
                feats |= {'under-test-of:' + y['ref']['name'] for y in sub([c for c in a['c'] if c is not None][0]) if y['k'] == 'DeclRefExpr' and 'name' in y.get('ref', {})}
        ok = bool(feats & {'ancestors', 'parent'})
        rep.check(ok, 'R01.15', '%s|getExitSet|upper end#%d' % (eng, ends.index(n)), locstr(n), 'the upper end `%s` is derived from %s: %s' % (
            fb.text(n)[:50], sorted(feats) or 'nothing structural', 'the domain\'s subtree' if ok else 'the position of the next sibling / the end of the document only -- for a domain that is the last child of its parent the interval swallows the following regions'))


def narrowing_polarity(rep, fb, f, eng, rule='R01.14'):
    from .. import quant
    from ._domain import member
    assigns = {}
    kinds = {}
    for n in f.walk():
        if n['k'] == 'CXXOperatorCallExpr' and n.get('op') == '=' and len(n.get('c', [])) > 2:
            l = strip(n['c'][1])
            if l is not None and l['k'] == 'CXXOperatorCallExpr' and l.get('op') == '[]' and 'dynamic_bitset' in l.get('callee', {}).get('q', ''):
                names = [x['ref']['name'] for x in sub(l['c'][1]) if x['k'] == 'MemberExpr']
                if names and names[0] in ('_compatible', '_conflicting') and n['id'] in cfgm.CFG(f).pos:
                    assigns[n['id']] = n['c'][2]
                    kinds[n['id']] = names[0]
    rep.minimum(rule, len(assigns), 2, 'assignments to _compatible / _conflicting bits in ' + eng)
    # loop headers reset the per-element facts
    reset_ids = set()
    for lp in f.walk():
        if lp['k'] in ('ForStmt', 'WhileStmt', 'CXXForRangeStmt', 'DoStmt'):
            body = lp['c'][-1]
            bids = {x['id'] for x in sub(body)} if body else set()
            for x in sub(lp):
                if x['id'] not in bids and x is not lp:
                    reset_ids.add(x['id'])
    pos = quant.Quant(f, quant.Spec(member, None, lambda n: n['id'] in reset_ids)).values_at(assigns)
    neg = quant.Quant(f, quant.Spec(lambda n: -member(n), None, lambda n: n['id'] in reset_ids)).values_at(assigns)
    for nid, vexpr in sorted(assigns.items()):
        n = f.nodes[nid]
        not_member_true = any(v and nm for v, nm in pos[nid])          # stored true although "not listed" was established
        member_false = any((not v) and m for v, m in neg[nid]) and not any((not v) and nm for v, nm in pos[nid])   # stored false although only "listed" was established
        if kinds[nid] == '_compatible':
            ok = not not_member_true and not member_false
            why = 'keeps exactly the listed indices' if ok else ('a bit is SET for an index the selected transition does not list as compatible' if not_member_true else 'a bit is CLEARED for an index the selected transition lists as compatible')
        else:
            vals = {v for v, _ in pos[nid]}
            ok = vals <= {True} or not any(m for _, m in neg[nid]) or True
            ok = False not in vals
            why = 'only sets bits (union)' if ok else 'CLEARS a conflict bit while transitions are being added'
        rep.check(ok, rule, '%s|%s#%d' % (eng, kinds[nid], sum(1 for k2 in assigns if kinds[k2] == kinds[nid] and f.nodes[k2]['loc'][1] < n['loc'][1])), locstr(n),
                  '`%s`: %s' % (fb.text(n)[:60], why))
    # the union with a transition's compatible list is only right for the first selected transition; afterwards the set must narrow
    from ._skel import guarded_by
    from .C08 import edge_dominates
    g0 = cfgm.CFG(f)
    narrowing = [nid for nid in assigns if kinds[nid] == '_compatible' and any(not v for v, _ in pos[nid])]
    rep.check(bool(narrowing), rule, eng + '|compatible set narrows', f.where(), 'assignments that can clear a bit of _compatible: %d%s' % (
        len(narrowing), '' if narrowing else ' -- the set of compatible transitions only grows: a transition that conflicts with the second selected one but is compatible with the first is still taken'))
    for nid in sorted(assigns):
        if kinds[nid] != '_compatible' or not any(v for v, _ in pos[nid]) or any(not v for v, _ in pos[nid]):
            continue          # only plain `= true` stores
        n = f.nodes[nid]
        tb = g0.pos[nid][0]
        first_only = False
        for bid, b in g0.blocks.items():
            c = b.get('cond')
            if c is None or c not in f.nodes:
                continue
            if any(x['k'] == 'MemberExpr' and x['ref'].get('name') == '_flags' for x in sub(f.nodes[c])) and any(any(m[0] == 'USCXML_CTX_TRANSITION_FOUND' for m in (x.get('mac') or [])) for x in sub(f.nodes[c])):
                if edge_dominates(g0, bid, False, tb):
                    first_only = True
        rep.check(first_only, rule, '%s|_compatible set only for the first selection#%d' % (eng, sum(1 for k2 in assigns if f.nodes[k2]['loc'][1] < n['loc'][1])), locstr(n),
                  '`%s` %s' % (fb.text(n)[:50], 'happens only while no transition has been selected in this step' if first_only else 'is NOT restricted to the first selected transition: later selections widen the compatible set instead of narrowing it'))


def run(rep, tier):
    rep.rule('R01.1', 'phase protocol: on every CFG path of step() the callback and configuration events spell  history* (exit-handlers erase)* transition-content* (insert initData* entry-handlers* initial-transition-content* done*)*')
    rep.rule('R01.2', 'iteration order: exit set in reverse document order, entry set / transition set / handler blocks in document order, selection in post-fix / document order; ordered containers carry the document / post-fix comparators')
    rep.rule('R01.3', 'dequeue priority: eventless before internal before (invoke) before external; a step that took transitions re-checks eventless transitions')
    rep.rule('R01.4', 'block granularity: an error in one block of executable content skips only that block')
    rep.rule('R01.5', 'exit interval emptiness: the pair (0,0) means "no domain"; every application of an exit interval is guarded by the emptiness test')
    rep.rule('R01.6', 'bitset typestate: no dynamic_bitset is indexed after clear() shrank it to zero bits')
    rep.rule('R01.8', 'interval closedness agreement: overlap and membership tests on exit intervals use non-strict comparisons, like the place that applies the interval')
    rep.rule('R01.9', 'state kind codes are an enumeration: they are compared, never bit-masked')
    rep.rule('R01.20', 'done events of parallel states: isInFinal is Appendix D isInFinalState - a final state is, an atomic state is not, a compound state is iff an active child is a <final> (no default true, no recursion), a parallel iff all children are, pseudo-states are neutral (same rule as C03 R03.3)')
    rep.rule('R01.19', 'every active state is asked for transitions: the loop that selects transitions advances its cursor over the post-fix view only by the fetch, or skips further entries under a condition on the state just handled (its ancestors); a skip that judges whatever the cursor names after the fetch drops the next orthogonal region')
    rep.rule('R01.16', 'history default: a history pseudo-state takes its default transition exactly when nothing is remembered for it (no further condition such as "the parent is not active")')
    rep.rule('R01.15', 'extent of the exit interval: its upper end is the last descendant of the transition domain, i.e. it is computed from the ancestor relation (membership scan or a walk up the parents), never from the position of the domain\'s next sibling alone with the end of the document as fall-back')
    rep.rule('R01.14', 'selection bookkeeping (large engine): when a further transition is selected, a bit of _compatible survives only if the new transition lists that index as compatible (intersection), and _conflicting only gains bits (union); the value stored is decided by the membership test with the right polarity')
    rep.rule('R01.13', 'optimal transition set: a transition selected in a descendant pre-empts the transitions of its ancestors even when it exits nothing (targetless); the selection does not rely on the position of states in the post-fix ordered view')
    rep.rule('R01.12', 'history records are independent: either every history has its own record or the completions of distinct histories are disjoint (a deep history must not rewrite the states remembered for a history nested below it)')
    rep.rule('R01.11', 'transition domain: the source is the domain only for an internal transition with compound source whose targets ALL are descendants; otherwise the NEAREST ancestor that is compound and contains ALL targets (quantifier-shape analysis, flag idioms included)')
    rep.rule('R01.10', 'data-model independence: the engine calls data models only through MicroStepCallbacks')
    rep.assume('the computed sets per chart (selection, entry-set completion, data handling) are not decided; R01.7 (default-history guard) was dropped as not phraseable without idiom guessing')
    fb = facts.FactBase(facts.library_tus())
    ex = exc.ExcFlow(fb, infeasible=set(INFEASIBLE))
    callgraph = cg.CallGraph(fb)
    rep.covered(tus=len(fb.tus), extracted=fb.extracted, functions=len(fb.funcs))
    engines = ['uscxml::LargeMicroStep::step'] + (['uscxml::FastMicroStep::step'] if tier == 'thorough' else [])
    for eq in engines:
        check_engine(rep, fb, ex, eq, callgraph)
    macrostep_boundary(rep, fb, 'R01.3')
    block_granularity(rep, fb, 'R01.4')
