"""C04 - generated ANSI-C machine: template reconstruction, dimension typing of the emitted step function, sizing
and index-width provenance, bit layout, sentinels, skeleton agreement with the fast engine (DESIGN 4/C04)."""
import os, re
from .. import facts, tpl, path, cfg as cfgm, tab
from ..facts import AnalysisBroken, strip, sub, locstr

TUS = ['src/uscxml/transform/ChartToC.cpp']
WRITERS = ['writeIncludes', 'writeMacros', 'writeTypes', 'writeHelpers', 'writeFSM']
SB_N, TB_N = 5, 7          # distinct array sizes substituted for the two sizing macros so that types carry the domain


def reconstruct(fb, rep, index_type):
    """emitted C text of the document-independent writers, with the sizing macros set to SB_N / TB_N"""
    parts = []
    info = {}
    for q in WRITERS:
        f = fb.fn('uscxml::ChartToC::' + q)
        text, nonlit, ctrl = tpl.template(fb, f)
        info[q] = (f, text, nonlit, ctrl)
        if q == 'writeMacros':
            vals = ['uint16_t', 'uint16_t', str(SB_N), str(TB_N)]
            if len(nonlit) != 4:
                raise AnalysisBroken('writeMacros: expected 4 non-literal operands (two types, two sizes), found %d' % len(nonlit))
            for i, v in enumerate(vals):
                text = text.replace('<<?%d>>' % i, v)
        elif q == 'writeFSM':
            if len(nonlit) != 1:
                raise AnalysisBroken('writeFSM: expected exactly one non-literal operand (the index type), found %d' % len(nonlit))
            text = text.replace('<<?0>>', index_type)
        elif nonlit:
            raise AnalysisBroken('%s: unexpected non-literal operands %s' % (q, [fb.text(o)[:40] for o in nonlit]))
        parts.append(text)
    return '\n'.join(parts), info


def arr_domain(t):
    m = re.search(r'unsigned char\s*\[(\d+)\]', t or '')
    if m:
        return {SB_N: 'SB', TB_N: 'TB'}.get(int(m.group(1)))
    if 'uscxml_state' in (t or ''):
        return 'S-table'
    if 'uscxml_transition' in (t or ''):
        return 'T-table'
    return None


class DimTyper:
    def __init__(self, cg, f):
        self.cg, self.f = cg, f
        self.assigns = []   # (line, lid, rhs)
        for n in f.walk():
            if n['k'] == 'BinaryOperator' and n.get('op') == '=' and strip(n['c'][0])['k'] == 'DeclRefExpr' and 'lid' in strip(n['c'][0])['ref']:
                self.assigns.append((n['loc'][1], n['loc'][2], strip(n['c'][0])['ref']['lid'], n['c'][1], n))

    def bound_domain(self, e):
        names = {s['ref']['name'] for s in sub(e) if s['k'] == 'MemberExpr'}
        if 'nr_states' in names:
            return 'S'
        if 'nr_transitions' in names:
            return 'T'
        return None

    def var_domain(self, ref):
        """index domain of loop variable `ref` at its use: from the innermost enclosing loop that bounds it"""
        lid = ref['ref']['lid']
        for a in self.f.ancestors(ref):
            if a['k'] == 'ForStmt':
                cond = a['c'][2] if len(a['c']) > 2 else None
                if cond is not None:
                    c = strip(cond)
                    if c['k'] == 'BinaryOperator' and c.get('op') == '<' and strip(c['c'][0])['k'] == 'DeclRefExpr' and strip(c['c'][0])['ref'].get('lid') == lid:
                        return self.bound_domain(c['c'][1])
            if a['k'] == 'WhileStmt':
                c = strip(a['c'][0])
                if c['k'] == 'BinaryOperator' and c.get('op') == '>' and tab.const_of(c['c'][1]) == 0:
                    l = strip(c['c'][0])
                    if l['k'] == 'UnaryOperator' and l.get('op') == '--' and strip(l['c'][0])['k'] == 'DeclRefExpr' and strip(l['c'][0])['ref'].get('lid') == lid:
                        # nearest preceding assignment to the variable
                        prev = [x for x in self.assigns if x[2] == lid and (x[0], x[1]) < (a['loc'][1], a['loc'][2])]
                        if prev:
                            return self.bound_domain(sorted(prev)[-1][3])
        return None

    def index_domain(self, e):
        e = strip(e)
        if e['k'] == 'BinaryOperator' and e.get('op') == '>>' and tab.const_of(e['c'][1]) == 3:
            d = self.index_domain(e['c'][0])
            return {'S': 'SB', 'T': 'TB'}.get(d, d if d == 'const' else None)
        if e['k'] == 'DeclRefExpr' and 'lid' in e.get('ref', {}):
            return self.var_domain(e)
        if e['k'] == 'MemberExpr':
            nm = e['ref']['name']
            if nm in ('parent', 'source'):
                return 'S'
            return None
        if tab.const_of(e) is not None:
            return 'const'
        if e['k'] == 'BinaryOperator' and e.get('op') in ('+', '-'):
            l = self.index_domain(e['c'][0])
            return l
        return None


def is_running_max(fb, f, s, lid, src_member):
    """is statement node s an update `x = max(x, <something of src_member>)` of local lid?  Idioms: conditional operator picking the
    larger operand, std::max in either argument order, `if (a > x) x = a;`"""
    def is_x(n):
        n = strip(n)
        return n is not None and n['k'] == 'DeclRefExpr' and n['ref'].get('lid') == lid

    def mentions(n):
        return any(x['k'] == 'MemberExpr' and x['ref'].get('name') == src_member for x in sub(n))

    def same(a, b):
        return ' '.join(fb.text(strip(a)).split()) == ' '.join(fb.text(strip(b)).split())
    if s['k'] == 'BinaryOperator' and s.get('op') == '=' and is_x(s['c'][0]):
        r = strip(s['c'][1])
        if r['k'] == 'ConditionalOperator':
            c = strip(r['c'][0])
            if c['k'] == 'BinaryOperator' and c.get('op') in ('>', '>=', '<', '<='):
                e1, e2, t, fl = c['c'][0], c['c'][1], r['c'][1], r['c'][2]
                picks_larger = (same(t, e1) and same(fl, e2)) if c['op'] in ('>', '>=') else (same(t, e2) and same(fl, e1))
                return picks_larger and (is_x(e1) or is_x(e2)) and mentions(r)
            return False
        if r['k'] == 'CallExpr' and r.get('callee', {}).get('q', '').startswith('std::max') and len(r.get('c', [])) == 3:
            a, b = r['c'][1], r['c'][2]
            return (is_x(a) and mentions(b)) or (is_x(b) and mentions(a))
        return False
    if s['k'] == 'IfStmt':
        kids = [c for c in s['c'] if c is not None]
        c = strip(kids[0])
        body = kids[1]['c'][0] if kids[1]['k'] == 'CompoundStmt' and len(kids[1].get('c', [])) == 1 else kids[1]
        body = strip(body)
        if len(kids) == 2 and c['k'] == 'BinaryOperator' and c.get('op') in ('>', '>=', '<', '<=') and body['k'] == 'BinaryOperator' and body.get('op') == '=' and is_x(body['c'][0]):
            e1, e2 = c['c'][0], c['c'][1]
            larger = e1 if c['op'] in ('>', '>=') else e2
            smaller = e2 if c['op'] in ('>', '>=') else e1
            return is_x(smaller) and same(body['c'][1], larger) and mentions(larger)
    return False


def _skel_mod():
    from . import _skel
    return _skel


FAST_NAMES = {'_entrySet': 'entry_set', '_exitSet': 'exit_set', '_tmpStates': 'tmp_states', '_targetSet': 'target_set', '_transSet': 'trans_set', '_conflicts': 'conflicts',
              '_configuration': 'config', '_history': 'history', '_invocations': 'invocations', '_initializedData': 'initialized_data'}
# differences between the fast engine and the C template that are not differences of the algorithm (confirmed by reading)
ACCEPTED_FAST = {
    ('F', 'CLEAR', ('entry_set',)): 'member cleared at the top of step(); the C local is assigned by bit_copy(entry_set, target_set) before its first use',
    ('F', 'CLEAR', ('tmp_states',)): 'member cleared at the top of step(); the C local is assigned by bit_copy before its first use',
    ('C', 'OR', ('exit_set', 'transitions[i].exit_set')): 'the C template ORs the precomputed exit set of the transition; the engine marks the interval of states in a loop',
}


def fast_engine_updates(fb):
    """multiset of whole-set updates (OR / AND / AND_NOT / XOR / COPY / CLEAR) in FastMicroStep::step, operands renamed to the C template's"""
    import collections
    f = fb.fn('uscxml::FastMicroStep::step')

    def name(n):
        n = strip(n)
        t = ' '.join(fb.text(n).split())
        t = re.sub(r'USCXML_GET_STATE\(([^)]*)\)', r'states[\1]', t)
        t = re.sub(r'USCXML_GET_TRANS\(([^)]*)\)', r'transitions[\1]', t)
        for k, v in FAST_NAMES.items():
            t = t.replace(k, v)
        return re.sub(r'\s+', '', t)
    F = collections.Counter()
    site = {}
    for n in f.walk():
        if n['k'] in ('CXXOperatorCallExpr', 'CompoundAssignOperator', 'BinaryOperator') and n.get('op') in ('|=', '&=', '^=', '='):
            kids = n['c'][1:] if n['k'] == 'CXXOperatorCallExpr' else n['c']
            if len(kids) != 2:
                continue
            l, r = strip(kids[0]), strip(kids[1])
            lt = (l.get('t') or '')
            if 'dynamic_bitset' not in lt or 'reference' in lt:
                continue           # single-bit writes (BIT_SET_AT / BIT_CLEAR) are compared by the dimension typing, not here
            neg = False
            rr = r
            if rr['k'] == 'CXXOperatorCallExpr' and rr.get('op') == '~':
                neg, rr = True, strip(rr['c'][1])
            if 'dynamic_bitset' not in (rr.get('t') or ''):
                continue
            op = {'|=': 'OR', '&=': 'AND_NOT' if neg else 'AND', '^=': 'XOR', '=': 'COPY'}[n['op']]
            key = (op, (name(l), name(rr)))
            F[key] += 1
            site.setdefault(key, locstr(n))
        if n['k'] == 'CXXMemberCallExpr' and n.get('callee', {}).get('q', '').split('::')[-1] == 'reset' and 'dynamic_bitset' in n.get('callee', {}).get('q', '') and len(n['c']) == 1 and n['c'][0].get('c'):
            key = ('CLEAR', (name(n['c'][0]['c'][0]),))
            F[key] += 1
            site.setdefault(key, locstr(n))
    return F, site


def run(rep, tier):
    rep.rule('R04.1', 'template reconstruction: writeIncludes/writeMacros/writeTypes/writeHelpers/writeFSM are straight-line writers of a fixed text (no statement other than stream insertions; non-literal operands only the two index types, the two array sizes and the loop-index type); the reconstructed text is accepted by clang as C')
    rep.rule('R04.2', 'dimension typing of the emitted step function: a bit array sized by the states (transitions) macro is only indexed with `e >> 3` where e ranges over states (transitions); the state (transition) table only with a state (transition) index; every bit_* helper call gets arrays and a byte count of one and the same domain')
    rep.rule('R04.3', 'sizing provenance: the emitted array bounds are max(1, ceil(max over all machines of the number of states (transitions) / 8)) and nr_*_bytes is ceil(N/8) of the machine\'s own N')
    rep.rule('R04.4', 'bit layout agreement: writeCharArrayInitList packs bit p into byte p/8, bit p%8 (LSB first) and BIT_HAS/SET/CLEAR read byte idx>>3, bit idx&7')
    rep.rule('R04.5', 'sentinel agreement: tables the emitted code walks up to a sentinel are emitted with a terminating entry')
    rep.rule('R04.6', 'skeleton agreement: the event/phase skeleton of the emitted uscxml_step equals the fast engine\'s (callbacks through on_exit/on_entry/on_transition/invoke/raise_done_event, ctx->config updates)')
    rep.rule('R04.7', 'index width provenance: the type chosen for the loop variables i, j, k can hold both loop bounds of every emitted machine, i.e. it is selected from the same maxima the two *_TYPE macros come from')
    rep.assume('same trace as the interpreter per chart, per-document tables (C05) and the executable-content functions are not decided here')
    rep.rule('R04.17', 'every machine is emitted: the list of machines the writers walk is closed under nesting - a machine created for an <invoke> hands the machines nested inside it on to the top-most machine (or knows its top-most machine before it collects them)')
    rep.rule('R04.16', 'executed content is the same: the script text written for the generated machine is assembled over all text and CDATA children of <script>, like the text the interpreter runs (not the first text node only)')
    rep.rule('R04.15', 'initialisation order: the emitted step function runs the document\'s global script after the root\'s data model was initialised (the engines treat it as entry code of <scxml>)')
    rep.rule('R04.14', 'delays mean the same in the generated machine: the generator converts the delay attribute like the executor does (seconds through a floating type so that fractions survive, the same case rule for the unit)')
    rep.rule('R04.13', 'sibling agreement with the interpreter: every whole-set update (OR / AND / AND_NOT / XOR / COPY / CLEAR with its operands) of FastMicroStep::step, from which the C template was derived, occurs equally often in the emitted C step function (accepted differences are listed with reasons)')
    rep.rule('R04.11', 'sibling agreement: every set test (operands + polarity) and every set update (operation, destination, source) of the emitted C step function occurs equally often in the emitted Promela step (same comparison as C06 R06.2 / R06.4, seen from the C side)')
    rep.rule('R04.10', 'history default: the emitted step function takes a history state\'s default transition exactly when nothing is remembered (like the engines, C01 R01.16)')
    rep.rule('R04.12', 'questions about a whole bit set use the whole set: the emitted step function does not read a state- or transition-sized bit array through a literal byte index (outside the BIT_* macros); "is the root the only ancestor" is asked of the parent index or of all bytes')
    rep.rule('R04.9', 'set-valued completion: the emitted loop that adds the ancestors of a compound\'s deep completion visits every completion member (an initial attribute may name states in several regions), like the interpreter')
    rep.rule('R04.8', 'the tables the emitted machine is driven by are defined like the interpreter\'s: conflict relation with all terms of the definition (same rule as C05 R05.4), history completion like both engines (C05 R05.6), transition domain / LCCA quantifier shape (C05 R05.5)')
    fb = facts.FactBase(TUS)
    rep.covered(tus=len(TUS), extracted=fb.extracted, functions=len(fb.funcs))

    # ---- R04.1
    fsm = fb.fn('uscxml::ChartToC::writeFSM')
    _, nl, _ = tpl.template(fb, fsm)
    alts = []
    if len(nl) == 1:
        o = strip(nl[0])
        if o['k'] == 'ConditionalOperator':
            alts = [s['str'] for s in sub(o) if s['k'] == 'StringLiteral' and 'str' in s]
    if len(alts) != 2:
        raise AnalysisBroken('writeFSM: the index type operand is not a choice between two literals')
    total_lines = 0
    cgs = {}
    for alt in alts:
        text, info = reconstruct(fb, rep, alt)
        for q, (f, t, nonlit, ctrl) in info.items():
            if ctrl:
                # not a verdict about the property: the emitted text is no longer a fixed template, the rules below cannot be evaluated
                raise AnalysisBroken('%s is no longer a straight-line writer (%s at %s): the emitted step function cannot be reconstructed as one fixed text' % (q, ctrl[0]['k'], locstr(ctrl[0])))
        total_lines = len(text.splitlines())
        d = os.path.join(facts._cache_dir(), 'cgen')
        os.makedirs(d, exist_ok=True)
        pth = os.path.join(d, 'cgen_%s.c' % alt)
        open(pth, 'w').write(text)
        cgs[alt] = facts.load_extra(pth, lang='c')     # raises AnalysisBroken if clang rejects the text
    rep.ok('R04.1', 'reconstruction', '%d lines of emitted C reconstructed from %d writers for both index-type alternatives %s; clang accepts them' % (total_lines, len(WRITERS), alts))
    rep.covered(emitted_c_lines=total_lines)

    # ---- R04.2
    for alt, cg in cgs.items():
        step = cg.fn('uscxml_step')
        dt = DimTyper(cg, step)
        nsub = 0
        n_byte_reads = 0
        for n in step.walk():
            if n['k'] != 'ArraySubscriptExpr':
                continue
            arr, idx = strip(n['c'][0]), n['c'][1]
            ad = arr_domain(arr.get('t'))
            if ad is None:
                continue      # donedata / other tables: not bit arrays
            nsub += 1
            idd = dt.index_domain(idx)
            want = {'SB': 'SB', 'TB': 'TB', 'S-table': 'S', 'T-table': 'T'}[ad]
            if idd is None:
                raise AnalysisBroken('emitted step function: index expression of %s at generated line %d has no recognised domain' % (ad, n['loc'][1]))
            ok = idd == want or idd == 'const'
            names = [s['ref']['name'] for s in sub(arr) if 'ref' in s][:2]
            # a bit array read one byte at a time with a literal byte index answers a question about (at most) 8 states only
            if ad in ('SB', 'TB') and strip(idx) is not None and strip(idx)['k'] == 'IntegerLiteral' and alt == alts[0]:
                rep.fail('R04.12', 'byte read|%s[%s]@L%d' % ('.'.join(reversed(names)), strip(idx).get('int'), n['loc'][1]), 'generated uscxml_step line %d' % n['loc'][1],
                         'the bit array %s is read as the single byte [%s]: a test such as `ancestors[0] == 0x01` ("only the root is an ancestor") ignores every state from index 8 on; a nested <final> at index >= 8 is taken for a top-level final' % ('.'.join(reversed(names)), strip(idx).get('int')))
                n_byte_reads += 1
            if alt == alts[0] or not ok:
                rep.check(ok, 'R04.2', 'subscript|%s[%s]@L%d' % ('.'.join(reversed(names)), idd, n['loc'][1]), 'generated uscxml_step line %d' % n['loc'][1],
                          'array of domain %s indexed with an expression of domain %s' % (ad, idd))
        rep.minimum('R04.2', nsub, 100, 'array subscripts in the emitted step function')
        if alt == alts[0] and not n_byte_reads:
            rep.ok('R04.12', 'emitted step', 'no bit array is read through a literal byte index (%d subscripts)' % nsub)
        ncall = 0
        for n in step.walk():
            q = n.get('callee', {}).get('q', '')
            if not q.startswith('bit_'):
                continue
            ncall += 1
            args = n['c'][1:]
            doms = []
            for a in args:
                s = strip(a)
                d = arr_domain(s.get('t'))
                if d is None and s['k'] == 'DeclRefExpr':
                    nm = s['ref']['name']
                    d = {'nr_states_bytes': 'SB', 'nr_trans_bytes': 'TB'}.get(nm)
                if d is None and s['k'] == 'MemberExpr' and arr_domain(s.get('t')):
                    d = arr_domain(s.get('t'))
                doms.append(d)
            if any(d is None for d in doms):
                raise AnalysisBroken('emitted step function: argument of %s at generated line %d has no recognised domain (%s)' % (q, n['loc'][1], doms))
            if alt == alts[0] or len(set(doms)) != 1:
                rep.check(len(set(doms)) == 1, 'R04.2', 'helper|%s@L%d' % (q, n['loc'][1]), 'generated uscxml_step line %d' % n['loc'][1], '%s(%s): all arrays and the byte count belong to one domain' % (q, ', '.join(doms)))
        rep.minimum('R04.2', ncall, 15, 'bit_* helper calls in the emitted step function')
        # byte counts: nr_states_bytes = ceil(NUMBER_STATES / 8)
        for n in step.walk():
            if n['k'] == 'DeclStmt':
                for d in n.get('decls', []):
                    if d['name'] in ('nr_states_bytes', 'nr_trans_bytes') and 'init' in d:
                        dom = dt.bound_domain(d['init'])
                        shape_ok = any(s['k'] == 'BinaryOperator' and s.get('op') == '>>' and tab.const_of(s['c'][1]) == 3 for s in sub(d['init'])) and any(tab.const_of(s) == 7 for s in sub(d['init']))
                        want = 'S' if d['name'] == 'nr_states_bytes' else 'T'
                        if alt == alts[0]:
                            rep.check(dom == want and shape_ok, 'R04.3', 'emitted|' + d['name'], 'generated uscxml_step line %d' % n['loc'][1], '%s = ceil(%s/8): %s' % (d['name'], 'NUMBER_STATES' if want == 'S' else 'NUMBER_TRANS', dom == want and shape_ok))

    # ---- R04.3 sizing provenance in the generator
    prep = None
    for f in fb.funcs.values():
        if f.q.startswith('uscxml::ChartToC::') and any(s['k'] == 'MemberExpr' and s['ref'].get('name') == '_stateCharArraySize' for s in f.walk()) and any(
                s['k'] in ('BinaryOperator', 'CXXOperatorCallExpr') and s.get('op') == '=' and any(x['k'] == 'MemberExpr' and x['ref'].get('name') == '_stateCharArraySize' for x in sub(s['c'][0] if s['k'] == 'BinaryOperator' else s['c'][1])) for s in f.walk()):
            prep = f
    if prep is None:
        raise AnalysisBroken('function assigning _stateCharArraySize not found')
    defs = path.local_defs(prep)
    for member, src_member, maxvar in (('_stateCharArraySize', '_states', None), ('_transCharArraySize', '_transitions', None)):
        asg = [s for s in prep.walk() if s['k'] == 'BinaryOperator' and s.get('op') == '=' and any(x['k'] == 'MemberExpr' and x['ref'].get('name') == member for x in sub(s['c'][0]))]
        if not asg:
            raise AnalysisBroken('%s assignment not found' % member)
        rhs = asg[0]['c'][1]
        is_ceil = any(s.get('callee', {}).get('q') in ('ceil', 'std::ceil', 'ceilf') for s in sub(rhs)) and any(s['k'] == 'BinaryOperator' and s.get('op') == '/' and any(tab.const_of(x) == 8 or x.get('flt') == 8.0 for x in sub(s['c'][1])) for s in sub(rhs))
        org = path.origin_members(prep, rhs, defs)
        # the maximum over all machines: the local is updated in a loop over _allMachines with a max pattern
        loc = [s['ref']['lid'] for s in sub(rhs) if s['k'] == 'DeclRefExpr' and 'lid' in s.get('ref', {})]
        over_all = False
        for lid in loc:
            for s in prep.walk():
                if is_running_max(fb, prep, s, lid, src_member):
                    in_loop = any(a['k'] in ('CXXForRangeStmt', 'ForStmt') and any(x['k'] == 'MemberExpr' and x['ref'].get('name') == '_allMachines' for x in sub(a)) for a in prep.ancestors(s))
                    if in_loop:
                        over_all = True
        rep.check(is_ceil and over_all, 'R04.3', 'generator|' + member, locstr(asg[0]), '%s = ceil(x / 8): %s; x = maximum of %s.size() over all machines: %s' % (member, is_ceil, src_member, over_all))
    wm = fb.fn('uscxml::ChartToC::writeMacros')
    _, nlm, _ = tpl.template(fb, wm)
    for o, member in ((nlm[2], '_stateCharArraySize'), (nlm[3], '_transCharArraySize')):
        uses_max1 = any(s.get('callee', {}).get('q', '').startswith('std::max') for s in sub(o)) and any(tab.const_of(s) == 1 for s in sub(o)) and any(s['k'] == 'MemberExpr' and s['ref'].get('name') == member for s in sub(o))
        rep.check(uses_max1, 'R04.3', 'writeMacros|' + member, locstr(o), 'emitted bound is max(1, %s): %s' % (member, uses_max1))

    # ---- R04.4
    wl = fb.fn('uscxml::ChartToC::writeCharArrayInitList')
    packs = [s for s in wl.walk() if s['k'] == 'CompoundAssignOperator' and s.get('op') == '|=' and any(x['k'] == 'BinaryOperator' and x.get('op') == '<<' and tab.const_of(x['c'][0]) == 1 for x in sub(s['c'][1]))]
    wraps = [s for s in wl.walk() if s['k'] == 'IfStmt' and any(x['k'] == 'BinaryOperator' and x.get('op') == '==' and tab.const_of(x['c'][1]) == 8 for x in sub(s['c'][0]))]
    lsb_first = bool(packs) and bool(wraps)
    if packs:
        sh = [x for x in sub(packs[0]['c'][1]) if x['k'] == 'BinaryOperator' and x.get('op') == '<<'][0]
        amount = strip(sh['c'][1])
        lsb_first = lsb_first and amount['k'] == 'DeclRefExpr'     # 1 << index   (not 7 - index)
    macro_text = None
    mac = fb.fn('uscxml::ChartToC::writeMacros')
    mtext, _, _ = tpl.template(fb, mac)
    rd = {}
    for name in ('BIT_HAS', 'BIT_SET_AT', 'BIT_CLEAR'):
        m = re.search(r'#define %s\(idx, bitset\)\s+(.*)' % name, mtext)
        if not m:
            raise AnalysisBroken('emitted macro %s not found' % name)
        body = m.group(1)
        rd[name] = ('bitset[idx >> 3]' in body, '(1 << (idx & 7))' in body)
    rep.check(lsb_first and all(a and b for a, b in rd.values()), 'R04.4', 'bit layout', wl.where(), 'writer packs `currChar |= 1 << index`, wrapping at 8 (LSB first): %s; reader macros use byte idx>>3 and bit idx&7: %s' % (lsb_first, rd))

    # ---- R04.5
    c_step = cgs[alts[0]].fn('uscxml_step')
    walks = []
    for n in c_step.walk():
        if n['k'] in ('WhileStmt', 'ForStmt'):
            cond = n['c'][0] if n['k'] == 'WhileStmt' else (n['c'][2] if len(n['c']) > 2 else None)
            if cond is None:
                continue
            names = [s['ref']['name'] for s in sub(cond) if s['k'] == 'MemberExpr']
            if any(x in names for x in ('donedata',)) or (any(s['k'] == 'BinaryOperator' and s.get('op') == '!=' for s in sub(cond)) and 'source' in names):
                walks.append(n)
    sentinel_writers = {'writeElementInfo': 0}
    # the donedata table is walked `while (donedata->source != NULL)`: its writer must append a {NULL,...} entry
    wd = [f for f in fb.funcs.values() if f.q.startswith('uscxml::ChartToC::') and any(s['k'] == 'StringLiteral' and '_elem_donedatas[' in s.get('str', '') for s in f.walk())]
    if not wd:
        raise AnalysisBroken('writer of the donedata table not found')
    txt = ' '.join(s.get('str', '') for s in wd[0].walk() if s['k'] == 'StringLiteral')
    has_sentinel = '{ 0, NULL, NULL }' in txt or re.search(r'\{\s*0\s*,\s*NULL', txt) is not None
    rep.check(has_sentinel, 'R04.5', 'donedata sentinel', wd[0].where(), 'the emitted step function walks the donedata table to an entry with source == 0; the writer appends such an entry: %s' % has_sentinel)

    # ---- R04.6 skeleton agreement with the fast engine
    ev = {}
    for n in c_step.walk():
        if n['k'] == 'CallExpr' and 'callee' not in n and n.get('c'):
            callee = strip(n['c'][0])
            if callee['k'] == 'MemberExpr':
                nm = callee['ref']['name']
                lab = {'on_exit': 'P:onExit', 'on_entry': 'P:onEntry', 'on_transition': 'P:onTrans', 'raise_done_event': 'C:raiseDoneEvent',
                       'invoke': 'I:invoke', 'dequeue_internal': 'X:dequeueInternal', 'dequeue_external': 'X:dequeueExternal', 'exec_content_init': 'C:initData'}.get(nm)
                if lab:
                    ev[n['id']] = lab
        if n['k'] in ('CompoundAssignOperator',) and n.get('op') in ('|=', '&=') and any(m[0] in ('BIT_SET_AT', 'BIT_CLEAR') for m in (n.get('mac') or [])):
            if any(s['k'] == 'MemberExpr' and s['ref'].get('name') == 'config' for s in sub(n['c'][0])):
                ev[n['id']] = 'CFG:insert' if n['op'] == '|=' else 'CFG:erase'
    from ._skel import phase_dfa
    gc = path.EHCFG(c_step)
    dfa, acc = phase_dfa()
    keep = {k: v for k, v in ev.items() if v in ('P:onExit', 'CFG:erase', 'P:onTrans', 'CFG:insert', 'P:onEntry', 'C:raiseDoneEvent', 'C:initData')}
    viol, states = path.check_dfa(gc, keep, dfa, 's0', acc)
    rep.minimum('R04.6', len(keep), 8, 'callback / configuration events in the emitted step function')
    rep.check(not viol, 'R04.6', 'emitted step|phase protocol', 'generated uscxml_step', 'the emitted step function spells (exit-handlers erase)* transition-content* (insert entry-handlers initial-transition-content* done*)* on every path (%d product states)%s' % (
        states, '' if not viol else '; offending: %s in %s' % (viol[0].get('event', viol[0]['kind']), viol[0]['state'])))
    # dequeue priority as in the engines
    ext = [k for k, v in ev.items() if v == 'X:dequeueExternal']
    inte = [k for k, v in ev.items() if v == 'X:dequeueInternal']
    if len(ext) != 1 or len(inte) != 1:
        raise AnalysisBroken('emitted step function: dequeue sites not found')
    # the internal dequeue is optional in the C scaffolding (callback may be NULL): what must hold is that the external
    # dequeue is never reached once the internal one delivered an event, and that it does not come first
    blk = None
    for bid, b in gc.blocks.items():
        cnd = b.get('cond')
        if cnd is not None and cnd in c_step.nodes and any(x.get('id') == inte[0] for x in sub(c_step.nodes[cnd])):
            blk = bid
    if blk is None:
        raise AnalysisBroken('emitted step function: condition testing the result of dequeue_internal not found')
    ts = [s_ for s_, lab in gc.succ_labeled(blk) if lab is True]
    # looping back to DEQUEUE_EVENT re-asks the internal queue first.  On such a path the callback pointer is known to be
    # non-NULL (it just returned an event), so the `ctx->dequeue_internal != NULL` test cannot take its false edge
    nullcheck = set()
    for bid, b in gc.blocks.items():
        cnd = b.get('cond')
        if cnd is not None and cnd in c_step.nodes:
            cn = strip(c_step.nodes[cnd])
            if cn['k'] == 'BinaryOperator' and cn.get('op') == '!=' and any(x['k'] == 'MemberExpr' and x['ref'].get('name') == 'dequeue_internal' for x in sub(cn['c'][0])) and not any(x['k'] == 'CallExpr' for x in sub(cn)):
                nullcheck.add(bid)
    def reach_ext(start):
        seen, work = {start}, [start]
        while work:
            b_ = work.pop()
            els = gc.blocks[b_]['el']
            if inte[0] in els:
                continue
            if ext[0] in els:
                return True
            for s_, lab in gc.succ_labeled(b_):
                if b_ in nullcheck and lab is False:
                    continue
                if s_ not in seen:
                    seen.add(s_)
                    work.append(s_)
        return False
    after_event = any(reach_ext(t0) for t0 in ts)
    rep.check(not after_event, 'R04.6', 'emitted step|internal before external', 'generated uscxml_step',
              'after dequeue_internal returned an event, dequeue_external is only reachable by asking dequeue_internal again: %s' % (not after_event))

    # ---- R04.7
    o = strip(nl[0])
    cond = o['c'][0]
    names = {s['ref']['name'] for s in sub(cond) if s['k'] in ('MemberExpr', 'DeclRefExpr') and 'name' in s.get('ref', {})}
    own_sizes = {'_states', '_transitions'} <= names and not ({'largestStateSpace', 'largestTransSpace', '_largestStateSpace', '_largestTransSpace'} & names)
    rep.check(not own_sizes, 'R04.7', 'writeFSM|index type', locstr(o), 'the type of i, j, k is chosen by comparing %s; the USCXML_NR_*_TYPE macros are sized from the maxima over all machines: %s' % (
        sorted(n_ for n_ in names if n_.startswith('_') or 'largest' in n_), 'consistent' if not own_sizes else 'INCONSISTENT - with a nested machine that has more transitions than the chosen type can count, the emitted loops over its transitions cannot terminate'))

    # ---- R04.11 the emitted C step function and the emitted Promela step are the same bit-set algorithm
    from . import C06
    fbs = facts.FactBase(C06.TUS)
    C06.compare_siblings(rep, fbs, 'R04.11', 'R04.11')

    # ---- R04.16 the generated machine gets the script text the interpreter runs
    wec = fb.fn('uscxml::ChartToC::writeExecContent', params=['ostream', 'DOMNode', 'size_t'])
    fronts = []
    for n_ in wec.walk():
        if n_['k'] == 'CXXMemberCallExpr' and n_.get('callee', {}).get('q', '').split('::')[-1] in ('front', 'begin') and n_['c'][0].get('c'):
            b_ = strip(n_['c'][0]['c'][0])
            if b_ is not None and b_['k'] == 'DeclRefExpr' and 'cript' in (b_['ref'].get('name') or ''):
                par_ = wec.parent(n_)
                while par_ is not None and par_['k'] in facts.TRANSPARENT:
                    par_ = wec.parent(par_)
                if n_['callee']['q'].split('::')[-1] == 'front' or (par_ is not None and par_.get('op') == '*'):
                    fronts.append(n_)
    cdata = any(x_['k'] == 'DeclRefExpr' and x_.get('ref', {}).get('name') == 'CDATA_SECTION_NODE' for x_ in wec.walk())
    rep.check(not fronts and cdata, 'R04.16', 'writeExecContent|script text', locstr(fronts[0]) if fronts else wec.where(), 'the text handed to exec_content_script %s' % (
        'is assembled from every text and CDATA child' if not fronts and cdata else 'is the FIRST text node only%s: <script><![CDATA[..]]></script> reaches the callback with NULL, the interpreter runs it' % ('' if cdata else ' and CDATA sections are not collected')))

    # ---- R04.17 the list of machines the writers walk is closed under "nested machine of"
    fnm = fb.fn('uscxml::ChartToC::findNestedMachines')
    ctors = [f_ for f_ in fb.funcs.values() if f_.q == 'uscxml::ChartToC::ChartToC']
    ctor_calls_fnm = any(x_.get('callee', {}).get('q') == 'uscxml::ChartToC::findNestedMachines' for f_ in ctors for x_ in f_.walk())
    news = [x_ for x_ in fnm.walk() if x_['k'] == 'CXXNewExpr' and 'ChartToC' in x_.get('t', '')]
    rep.minimum('R04.17', len(news), 1, '`new ChartToC` sites in findNestedMachines')
    # registrations into the list of ANOTHER machine (the top-most one): what is pushed there
    regs = []
    for x_ in fnm.walk():
        if x_['k'] == 'CXXMemberCallExpr' and x_.get('callee', {}).get('q', '').split('::')[-1] in ('push_back', 'insert', 'emplace_back', 'splice', 'merge'):
            me_ = x_['c'][0]
            if any(y_['k'] == 'MemberExpr' and y_.get('ref', {}).get('name') == '_allMachines' for y_ in sub(me_)) and not any(
                    y_['k'] == 'CXXThisExpr' and fnm.parent(y_) is not None and strip(fnm.parent(y_)).get('ref', {}).get('name') == '_allMachines' for y_ in sub(me_)):
                regs.append(x_)
    rep.minimum('R04.17', len(regs), 1, 'registrations into the top-most machine\'s _allMachines in findNestedMachines')
    def whole_list(x_):
        """the registration hands over the created machine's whole _allMachines: a range argument or the variable of a loop over it"""
        args_ = x_['c'][1:]
        if any(y_['k'] == 'MemberExpr' and y_.get('ref', {}).get('name') == '_allMachines' for a_ in args_ for y_ in sub(a_)):
            return True
        for a_ in fnm.ancestors(x_):
            if a_['k'] == 'CXXForRangeStmt':
                rng_ = [d_ for c_ in a_.get('c', []) if c_ and c_['k'] == 'DeclStmt' for d_ in c_.get('decls', []) if d_['name'].startswith('__range')]
                if any(y_['k'] == 'MemberExpr' and y_.get('ref', {}).get('name') == '_allMachines' for d_ in rng_ if 'init' in d_ for y_ in sub(d_['init'])):
                    return True
            if a_['k'] in ('ForStmt', 'WhileStmt') and any(y_['k'] == 'MemberExpr' and y_.get('ref', {}).get('name') == '_allMachines' for y_ in sub(a_['c'][0] if a_['k'] == 'WhileStmt' else a_)
                                                           if y_['id'] not in {z_['id'] for z_ in sub(x_)}):
                return True
        return False
    # alternative design: the nested machine learns its top-most machine before its own constructor looks for nested machines
    top_by_ctor = any(i_.get('field') == '_topMostMachine' and any(y_['k'] == 'DeclRefExpr' and y_.get('ref', {}).get('kind') == 'ParmVar' for y_ in sub(i_.get('init') or {}))
                      for f_ in ctors for i_ in f_.d.get('inits', []))
    closed = top_by_ctor or not ctor_calls_fnm or any(whole_list(x_) for x_ in regs)
    rep.check(closed, 'R04.17', 'findNestedMachines|registry closure', locstr(regs[0]) if regs else fnm.where(),
              'a nested machine is created by a constructor that collects ITS nested machines at once (constructor calls findNestedMachines: %s), while _topMostMachine is still unset; %s' % (
                  ctor_calls_fnm, 'the creator hands the nested machine\'s whole list on to the top-most machine' if closed else
                  'the creator registers only the machine itself with the top-most machine: a machine nested two levels deep stays in the intermediate machine\'s list, is referenced by its <invoke> entry but never defined - the emitted C does not compile'))

    # R04.17 (b): machines are emitted under the prefix derived from their document's md5: one document invoked from two places is emitted once
    dedupe = any(x_['k'] in ('CXXOperatorCallExpr', 'BinaryOperator') and x_.get('op') in ('==', '!=') and sum(
        1 for y_ in sub(x_) if y_['k'] == 'MemberExpr' and y_.get('ref', {}).get('name') in ('_md5', '_prefix')) >= 2 for x_ in fnm.walk())
    rep.check(dedupe, 'R04.17', 'findNestedMachines|one definition per prefix', fnm.where(), 'registration in the list the writers walk %s' % (
        'is guarded by a comparison of the machines\' md5 / prefix' if dedupe else 'does NOT look whether a machine with the same md5 (hence the same symbol prefix) is registered already: the same child invoked from two places is emitted twice - redefinition of every symbol of the child'))

    # ---- R04.15 the global script is the root's entry code: it runs after the root's data was initialised
    cg0 = cgs[alts[0]]
    st0 = cg0.fn('uscxml_step')
    g15 = cfgm.CFG(st0)
    scripts = [n_ for n_ in st0.walk() if n_['k'] == 'CallExpr' and any(x['k'] == 'MemberExpr' and x['ref'].get('name') == 'script' for x in sub(n_['c'][0])) and n_['id'] in g15.pos]
    # the data-initialisation block of the entry loop: `if (!BIT_HAS(i, initialized_data)) { init; BIT_SET_AT(..) }`; having passed
    # its test means the data of state i is initialised (now or earlier)
    marks = []
    for n_ in st0.walk():
        if n_['k'] == 'IfStmt' and any(x['k'] == 'MemberExpr' and x['ref'].get('name') == 'initialized_data' for x in sub(n_['c'][0])) and any(
                x['k'] == 'MemberExpr' and x['ref'].get('name') == 'exec_content_init' for x in sub(n_['c'][1])):
            marks += [x['id'] for x in sub(n_['c'][0]) if x['id'] in g15.pos]
    if not scripts or not marks:
        raise AnalysisBroken('emitted step function: call of machine->script (%d) or the initialized_data marker (%d) not found' % (len(scripts), len(marks)))
    for sc in scripts:
        w15 = g15.can_reach((g15.entry, -1), [sc['id']], avoid=marks)
        rep.check(w15 is None, 'R04.15', 'emitted step|global script after data', 'generated uscxml_step line %d' % sc['loc'][1], 'the global <script> of the document is called %s' % (
            'only after data of an entered state (the root first) was initialised' if w15 is None else 'on a path on which NO data was initialised yet (the PRISTINE block): <data id="x" expr="0"/> then overwrites what the script assigned; both engines run the script as entry code of <scxml>, after its data'))

    # ---- R04.14 delay literals are converted like the executor converts them
    def delay_arms(fbx, qual):
        out = []
        for f_ in fbx.funcs.values():
            if not f_.q.startswith(qual) or not f_.d.get('body'):
                continue
            for n_ in f_.walk():
                if n_['k'] == 'IfStmt' and any(x['k'] == 'StringLiteral' and x.get('str') == 's' for x in sub(n_['c'][0])) and any(
                        x['k'] == 'MemberExpr' and x['ref'].get('name') == 'unit' for x in sub(n_['c'][0])):
                    conv = [x for x in sub(n_['c'][1]) if x.get('callee', {}).get('q', '') == 'uscxml::strTo']
                    ci = any(x.get('callee', {}).get('q', '').split('::')[-1] == 'iequals' for x in sub(n_['c'][0]))
                    out.append((f_, n_, [(x.get('t') or '') for x in conv], ci))
        return out
    fbe = facts.FactBase(['src/uscxml/interpreter/BasicContentExecutor.cpp'])
    ex_arms = delay_arms(fbe, 'uscxml::BasicContentExecutor::')
    c_arms = delay_arms(fb, 'uscxml::ChartToC::')
    if not ex_arms or not c_arms:
        raise AnalysisBroken('delay conversion: the seconds arm was not found in %s' % ('the executor' if not ex_arms else 'ChartToC'))
    ex_t, ex_ci = ex_arms[0][2], ex_arms[0][3]
    for f_, n_, ts_, ci_ in c_arms:
        frac_ok = all(t_ in ('double', 'float', 'long double') for t_ in ts_) or not all(t_ in ('double', 'float', 'long double') for t_ in ex_t)
        rep.check(frac_ok and ci_ == ex_ci, 'R04.14', '%s|seconds arm' % f_.q.split('::')[-1], locstr(n_), 'the generator converts a delay in seconds through %s and compares the unit %s; the executor uses %s and %s%s' % (
            ts_, 'ignoring case' if ci_ else 'exactly', ex_t, 'ignoring case' if ex_ci else 'exactly',
            '' if frac_ok and ci_ == ex_ci else ': delay="0.5s" is emitted as 0 ms (and "1.5s" as 1000 ms), "S" / "MS" are taken for milliseconds'))

    # ---- R04.13 the emitted C step function and the fast engine (from which it was derived) apply the same whole-set updates
    import collections
    fbf = facts.FactBase(['src/uscxml/interpreter/FastMicroStep.cpp'])
    F, fsite = fast_engine_updates(fbf)
    ctext13, _ = reconstruct(fb, rep, alts[0])
    cstep13 = ctext13[ctext13.index('int uscxml_step'):]
    Cc = collections.Counter()
    for m in C06.C_RE.finditer(cstep13):
        neg, fn_, args = m.groups()
        if fn_.startswith('bit_has'):
            continue
        a_ = [C06.norm(x) for x in args.split(',')][:-1]
        Cc[(C06.CMAP[fn_], tuple(a_))] += 1
    rep.minimum('R04.13', sum(F.values()), 15, 'whole-set updates in FastMicroStep::step')
    for key in sorted(set(F) | set(Cc), key=str):
        fcnt, ccnt = F.get(key, 0), Cc.get(key, 0)
        what = '%s(%s)' % (key[0], ', '.join(key[1]))
        if fcnt == ccnt:
            rep.ok('R04.13', what, 'in the fast engine and in the emitted C step function (%d time(s))' % fcnt)
            continue
        side = 'F' if fcnt > ccnt else 'C'
        if (side, key[0], key[1]) in ACCEPTED_FAST:
            rep.ok('R04.13', what, 'accepted difference: ' + ACCEPTED_FAST[(side, key[0], key[1])])
            continue
        rep.fail('R04.13', what, fsite.get(key, 'src/uscxml/transform/ChartToC.cpp'), '%s occurs %d time(s) in FastMicroStep::step and %d time(s) in the emitted C step function: the two are the same algorithm written twice, one of them was changed alone' % (what, fcnt, ccnt))
    # ---- R04.20 element kinds in prefixed documents (C05 R05.10, hosted here for the exec-content writer of the C back-end)
    from ..report import Renamed
    from . import C05
    C05.audit_rules(Renamed(rep, {'R05.10': 'R04.20'}), fb)
    # ---- R04.22 the local sets of the emitted step function are written before they are read, on every path
    rep.rule('R04.22', 'no read of indeterminate memory: every local bit array of the emitted uscxml_step is cleared or copied into before any other use on every CFG path from the function entry (the first step takes the PRISTINE short-cut past the selection phase; MemorySanitizer aborts every generated machine there otherwise)')
    for alt22, cg22 in cgs.items():
        st22 = cg22.fn('uscxml_step')
        g22 = cfgm.CFG(st22)
        arrays22 = {}
        for n_ in st22.walk():
            if n_['k'] == 'DeclStmt':
                for d_ in n_.get('decls', []):
                    if 'lid' in d_ and '[' in (d_.get('t') or '') and d_.get('init') is None:
                        arrays22[d_['lid']] = d_['name']
        rep.minimum('R04.22', len(arrays22), 4, 'local arrays of the emitted step function')
        for lid_, name_ in sorted(arrays22.items(), key=lambda kv: kv[1]):
            inits_, uses_ = [], []
            for n_ in st22.walk():
                if n_['k'] == 'CallExpr' and n_.get('callee', {}).get('q') in ('bit_clear_all', 'bit_copy', 'memset', 'memcpy') and len(n_.get('c', [])) > 1 and any(
                        y['k'] == 'DeclRefExpr' and y.get('ref', {}).get('lid') == lid_ for y in sub(n_['c'][1])):
                    inits_.append(n_)
            init_ids = {y['id'] for n_ in inits_ for y in sub(n_) if 'id' in y}
            for n_ in st22.walk():
                if n_['k'] == 'DeclRefExpr' and n_.get('ref', {}).get('lid') == lid_ and n_['id'] not in init_ids:
                    x_ = n_
                    while x_ is not None and x_['id'] not in g22.pos:
                        x_ = st22.parent(x_)
                    if x_ is not None:
                        uses_.append(x_)
            if not inits_:
                rep.fail('R04.22', 'emitted step|%s' % name_, 'generated uscxml_step', 'the local array %s is never cleared or copied into' % name_)
                continue
            w_ = g22.can_reach(g22.entry_pos(), [u_['id'] for u_ in uses_], avoid=[n_['id'] for n_ in inits_]) if uses_ else None
            rep.check(w_ is None, 'R04.22', 'emitted step|%s' % name_, 'generated uscxml_step line %s' % (w_[-1][1] if w_ and isinstance(w_[-1], tuple) else '?'), 'the local array %s %s' % (
                name_, 'is written before every use' if w_ is None else 'is READ before it is cleared on a path from the function entry (the PRISTINE short-cut to ESTABLISH_ENTRY_SET): indeterminate memory, MemorySanitizer aborts the first step of every generated machine'))
        break
    # ---- R04.23 element text is assembled over all text and CDATA children, in document order
    rep.rule('R04.23', 'the tables carry the text the interpreter reads: the content of <data>, <assign> and <script> is assembled over all text and CDATA children in document order - not the first text node (lost after a comment, NULL for CDATA), not all text nodes before all CDATA nodes')
    firsts, regroup = [], []
    for f_ in fb.funcs.values():
        if not f_.q.startswith('uscxml::ChartToC::'):
            continue
        tl = {d_['lid'] for n_ in f_.walk() if n_['k'] == 'DeclStmt' for d_ in n_.get('decls', []) if 'lid' in d_ and isinstance(d_.get('init'), dict) and any(
            y.get('callee', {}).get('q', '').endswith('DOMUtils::filterChildType') for y in sub(d_['init']))}
        for n_ in f_.walk():
            if n_['k'] == 'CXXMemberCallExpr' and n_.get('callee', {}).get('q', '').split('::')[-1] == 'front' and n_['c'][0].get('c') and strip(n_['c'][0]['c'][0]).get('ref', {}).get('lid') in tl:
                firsts.append(n_)
            if n_['k'] == 'CXXMemberCallExpr' and n_.get('callee', {}).get('q', '').split('::')[-1] in ('splice', 'insert', 'merge') and n_['c'][0].get('c') and strip(n_['c'][0]['c'][0]).get('ref', {}).get('lid') in tl and any(
                    y.get('callee', {}).get('q', '').endswith('DOMUtils::filterChildType') for y in sub(n_)):
                regroup.append(n_)
    rep.check(not firsts and not regroup, 'R04.23', 'ChartToC|element text', locstr((firsts or regroup)[0]) if (firsts or regroup) else 'src/uscxml/transform/ChartToC.cpp', 'element text %s' % (
        'is assembled over all text and CDATA children in document order' if not firsts and not regroup else
        ('is the FIRST text node at %d site(s): <data id="x"> <!-- c --> { 1, 2, 3 } </data> gets no content, a CDATA-only <data> NULL' % len(firsts) if firsts else '') +
        (' text nodes and CDATA nodes are collected in two passes and concatenated: <script>a <![CDATA[ b ]]> c</script> runs as a c b' if regroup else '')))
    # ---- R04.24 an entry of a sentinel-terminated table differs from the sentinel
    rep.rule('R04.24', 'a table entry is not its own terminator: the donedata table is searched up to an entry whose content, contentexpr and params are all NULL; for a <donedata> with a <content> child the writer emits a non-NULL content or contentexpr (NULL for the content text only when the expr form is there)')
    dd = None
    for f_ in fb.funcs.values():
        if f_.q.startswith('uscxml::ChartToC::') and any(y['k'] == 'StringLiteral' and 'static const uscxml_elem_donedata ' in (y.get('str') or '') for y in f_.walk()):
            dd = f_
    if dd is None:
        raise AnalysisBroken('the writer of the _elem_donedatas table was not found')
    dd_line = min(y['loc'][1] for y in dd.walk() if y['k'] == 'StringLiteral' and 'static const uscxml_elem_donedata ' in (y.get('str') or ''))
    conds = []
    for n_ in dd.walk():
        if n_['k'] == 'ConditionalOperator' and n_['loc'][1] > dd_line and any(y['k'] == 'StringLiteral' and (y.get('str') or '').strip() == 'NULL,' for y in sub(n_)) and any(
                a_['k'] == 'IfStmt' and any(y.get('ref', {}).get('name') == 'contents' for y in sub(a_['c'][0])) and any(z is n_ for z in sub(a_['c'][1])) for a_ in dd.ancestors(n_)):
            conds.append(n_)
    rep.minimum('R04.24', len(conds), 2, 'NULL-able fields written for a <donedata> with <content>')
    def mentions_expr(c_):
        return any(y.get('ref', {}).get('name') == 'kXMLCharExpr' for y in sub(c_))
    text_fields = [c_ for c_ in conds if not mentions_expr(c_['c'][0]) ]
    rep.check(not text_fields, 'R04.24', 'donedata table|entry vs terminator', locstr(text_fields[0]) if text_fields else dd.where(), 'for a <donedata> with a <content> child %s' % (
        'the content text is NULL only when the expr form is written' if not text_fields else
        'the content text is NULL whenever it is empty, independently of the expr field: <donedata><content/></donedata> gives { src, NULL, NULL, NULL }, the terminator - the donedata of every later final is never found'))
    # ---- R04.21 names of emitted functions are C identifiers
    rep.rule('R04.21', 'the emitted file compiles for every id: where ChartToC builds the name of an emitted function from DOMUtils::idForNode, the id passes through an injective mapping onto C identifiers (idForNode replaces only `.` and `,` and uses the qualified tag name for elements without id)')
    raw_ids = []
    for f_ in fb.funcs.values():
        if not f_.q.startswith('uscxml::ChartToC::'):
            continue
        for n_ in f_.walk():
            if n_.get('callee', {}).get('q', '').endswith('DOMUtils::idForNode'):
                wrapped = any(a_.get('callee', {}).get('q', '').split('::')[-1] in ('escapeMacro', 'escapeIdentifier') for a_ in f_.ancestors(n_))
                if not wrapped:
                    raw_ids.append(n_)
    rep.check(not raw_ids, 'R04.21', 'ChartToC|idForNode as identifier', locstr(raw_ids[0]) if raw_ids else 'src/uscxml/transform/ChartToC.cpp', 'DOMUtils::idForNode %s' % (
        'is mapped onto C identifiers wherever it names a function' if not raw_ids else 'is used as part of a C identifier at %d sites without an injective mapping: ids "s-1" / "s:2" give a syntax error, "a.b" and "a_b" the same function name, <sc:transition> the name ..._sc:transition0_on_trans' % len(raw_ids)))
    # ---- R04.19 chart text written between quotes into the emitted tables is escaped
    rep.rule('R04.19', 'the callbacks get the text the interpreter evaluates: every piece of chart text that ChartToC writes between double quotes into the emitted tables (`"\\"" + X + "\\""`) passes through escape(), so that a backslash or a quote in an expression reaches the callback unchanged (and the file compiles)')
    nq = 0
    for f_ in fb.funcs.values():
        if not f_.q.startswith('uscxml::ChartToC::'):
            continue
        for n_ in f_.walk():
            if n_['k'] != 'CXXOperatorCallExpr' or n_.get('op') != '+' or len(n_.get('c', [])) < 3:
                continue
            l_, r_ = strip(n_['c'][1]), strip(n_['c'][2])
            if l_ is None or r_ is None or l_['k'] != 'StringLiteral' or l_.get('str') != '"':
                continue
            nq += 1
            x_ = r_
            while x_ is not None and x_['k'] in ('CXXConstructExpr', 'CXXBindTemporaryExpr', 'MaterializeTemporaryExpr', 'CXXFunctionalCastExpr') and x_.get('c'):
                x_ = strip(x_['c'][0])
            esc_ = x_ is not None and x_['k'] == 'CallExpr' and x_.get('callee', {}).get('q') == 'uscxml::escape'
            rep.check(esc_, 'R04.19', '%s|%s' % (f_.q.split('::')[-1], ' '.join(fb.text(r_).split())[:40]), locstr(n_), 'the quoted operand `%s` %s' % (
                ' '.join(fb.text(r_).split())[:60], 'is escaped' if esc_ else 'is written WITHOUT escape(): <content expr="\'a\\\\b\'"/> reaches the callback as \'a\\b\' (a backspace in Lua), an expr with a double quote does not compile'))
    rep.minimum('R04.19', nq, 30, 'quoted chart texts in the emitted tables')
    # ---- R04.18 in the parallel-completion check a final state stands for its parent only
    rep.rule('R04.18', 'done.state of a parallel is raised when every region is in a final state of ITS OWN: in the emitted check an active final state clears its parent from the set of unfinished states, not all of its ancestors (a final nested below a region\'s child must not finish the region)')
    wide = [k_ for k_ in Cc if k_[0] in ('AND_NOT', 'XOR') and len(k_[1]) == 2 and k_[1][0] == 'tmp_states' and k_[1][1].endswith('.ancestors')]
    rep.check(not wide, 'R04.18', 'emitted step|a final child vouches for all its ancestors', 'src/uscxml/transform/ChartToC.cpp', 'in the emitted parallel-completion check an active final state %s' % (
        'clears its parent only' if not wide else 'clears ALL its ancestors from tmp_states (%s): with P{A{a1,af}, B{B1{b11,b1f}, bf}} and af, b1f active the deep final b1f finishes region B and done.state.P is raised' % ', '.join('%s(%s)' % (k_[0], ', '.join(k_[1])) for k_ in wide)))
    # ---- R04.10 history default in the emitted step function
    for alt, cg in cgs.items():
        hn, hd = _skel_mod().history_default_condition(cg.fn('uscxml_step'))
        if hn is None:
            raise AnalysisBroken('emitted step function: the test that selects a history state\'s default transition was not found')
        rep.check(hd == ['nothing remembered'], 'R04.10', 'emitted step|history default', 'generated uscxml_step line %d' % hn['loc'][1], 'a history state takes its default transition under: %s' % ' and '.join(sorted(hd)))
        break
    # ---- R04.9 set-valued completion in the emitted step function
    from . import _skel
    for alt, cg in cgs.items():
        brk, n = _skel.completion_closure_breaks(cg.fn('uscxml_step'))
        rep.minimum('R04.9', n, 1, 'loops adding the ancestors of completion members in the emitted step function')
        for lp, b in brk:
            rep.fail('R04.9', 'emitted step|deep completion stops at the first member', 'generated uscxml_step line %d' % b['loc'][1], 'the emitted loop at generated line %d adds the ancestors of the completion members but leaves at the first one: an `initial` attribute naming states in several regions enters the other targets without their parents (the interpreter enters them)' % lp['loc'][1])
        if not brk:
            rep.ok('R04.9', 'emitted step|deep completion (%s)' % alt, 'every completion member contributes its ancestors')
        for lp_, gd_ in _skel_mod().completion_closure_wholesale_guard(cg.fn('uscxml_step')):
            if alt == alts[0]:
                rep.fail('R04.9', 'emitted step|deep completion switched as a whole', 'generated uscxml_step line %d' % gd_['loc'][1], 'the emitted loop at generated line %d runs only if NO completion member is a direct child: initial="C a" enters a without its parents (the default engine decides per member)' % lp_['loc'][1])
        break
    # ---- R04.8 (shared with C05: the document-dependent tables decide what the fixed step function does)
    from . import C05, _domain
    fbt = facts.FactBase(C05.TUS)
    C05.check_conflict_terms(rep, 'R04.8', fbt)
    C05.check_history_completion(rep, 'R04.8', fbt)
    C05.check_exit_set_vocabulary(rep, 'R04.8', fbt)
    _domain.check(rep, 'R04.8', fbt, [fbt.fn('uscxml::getTransitionDomain'), fbt.fn('uscxml::findLCCA')], 'Predicates')
