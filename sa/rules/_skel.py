"""Skeleton facts of a micro-step engine's step() (shared by C01, C02, C03): phase protocol, iteration orders,
guards, configuration writers.  Everything is computed from the fact base; nothing is compared as text."""
from .. import facts, path, cfg as cfgm, tab
from ..facts import AnalysisBroken, strip, sub, locstr
from .C13 import step_events
from .C08 import edge_dominates

KIND_CODES = ('USCXML_STATE_ATOMIC', 'USCXML_STATE_PARALLEL', 'USCXML_STATE_COMPOUND', 'USCXML_STATE_FINAL', 'USCXML_STATE_HISTORY_DEEP',
              'USCXML_STATE_HISTORY_SHALLOW', 'USCXML_STATE_INITIAL')


def phase_dfa():
    t = {
        's0': {'H': 's0', 'P:onExit': 's1', 'CFG:erase': 's1', 'P:onTrans': 's2', 'CFG:insert': 's3'},
        's1': {'P:onExit': 's1', 'CFG:erase': 's1', 'P:onTrans': 's2', 'CFG:insert': 's3'},
        's2': {'P:onTrans': 's2', 'CFG:insert': 's3'},
        's3': {'C:initData': 's3', 'P:onEntry': 's3n', 'P:onTrans': 's3t', 'C:raiseDoneEvent': 's3r', 'CFG:insert': 's3'},
        's3n': {'P:onEntry': 's3n', 'P:onTrans': 's3t', 'C:raiseDoneEvent': 's3r', 'CFG:insert': 's3'},
        's3t': {'P:onTrans': 's3t', 'C:raiseDoneEvent': 's3r', 'CFG:insert': 's3'},
        's3r': {'C:raiseDoneEvent': 's3r', 'CFG:insert': 's3'},
    }
    return path.make_dfa(t), set(t)


def loop_info(fb, f, loop):
    """(direction, container description) of a loop statement; None if the idiom is not one of the enumerated ones"""
    k = loop['k']
    if k == 'CXXForRangeStmt':
        org = None
        for c in loop.get('c', []):
            if c and c['k'] == 'DeclStmt':
                for d in c.get('decls', []):
                    if d['name'].startswith('__range') and 'init' in d:
                        ms = [s['ref']['name'] for s in sub(d['init']) if s['k'] == 'MemberExpr']
                        org = ms[0] if ms else None
        return ('forward', org)
    if k == 'ForStmt':
        init = loop['c'][0] if loop.get('c') else None
        if init is not None and init['k'] == 'DeclStmt' and init.get('decls') and 'init' in init['decls'][0]:
            d = init['decls'][0]
            callee = [s['callee']['q'].split('::')[-1] for s in sub(d['init']) if s.get('callee')]
            ms = [s['ref']['name'] for s in sub(d['init']) if s['k'] == 'MemberExpr' and s['ref'].get('dk') == 'Field']
            lid = d['lid']
            decs = [s for s in sub(loop) if s['k'] in ('UnaryOperator', 'CXXOperatorCallExpr') and s.get('op') == '--' and any(
                x['k'] == 'DeclRefExpr' and x['ref'].get('lid') == lid for x in sub(s))]
            incs = [s for s in sub(loop) if s['k'] in ('UnaryOperator', 'CXXOperatorCallExpr') and s.get('op') == '++' and any(
                x['k'] == 'DeclRefExpr' and x['ref'].get('lid') == lid for x in sub(s))]
            if 'end' in callee and decs and not incs:
                return ('reverse', ms[0] if ms else None)
            if ('begin' in callee) and incs and not decs:
                return ('forward', ms[0] if ms else None)
            if 'rbegin' in callee and incs:
                return ('reverse', ms[0] if ms else None)
            if tab.const_of(d['init']) == 0 and incs:
                return ('forward', 'index')
        # for (i = 0; i < N; i++)
        if init is not None and init['k'] == 'BinaryOperator' and init.get('op') == '=' and tab.const_of(init['c'][1]) == 0:
            return ('forward', 'index')
        # for (i = M.find_first(); i != npos; i = M.find_next(i))   (also with the declaration in the init clause)
        ini_expr = None
        if init is not None and init['k'] == 'BinaryOperator' and init.get('op') == '=':
            ini_expr = init['c'][1]
        elif init is not None and init['k'] == 'DeclStmt' and init.get('decls') and 'init' in init['decls'][0]:
            ini_expr = init['decls'][0]['init']
        if ini_expr is not None:
            firsts = [x for x in sub(ini_expr) if x.get('callee', {}).get('q', '').endswith('::find_first')]
            inc = loop['c'][3] if len(loop.get('c', [])) > 3 else None
            nexts = [x for x in sub(inc)] if inc else []
            if firsts and any(x.get('callee', {}).get('q', '').endswith('::find_next') for x in nexts):
                ms = [y['ref']['name'] for y in sub(firsts[0]) if y['k'] == 'MemberExpr' and y['ref'].get('dk') == 'Field']
                if ms:
                    return ('forward', ms[0])
        return None
    if k == 'WhileStmt':
        cond = strip(loop['c'][0])
        # while (i-- > 0)
        if cond['k'] == 'BinaryOperator' and cond.get('op') == '>' and tab.const_of(cond['c'][1]) == 0:
            l = strip(cond['c'][0])
            if l['k'] == 'UnaryOperator' and l.get('op') == '--' and l.get('postfix'):
                filt = None
                body = loop['c'][-1]
                for s in sub(body):
                    if s['k'] == 'IfStmt':
                        ms = [x['ref']['name'] for x in sub(s['c'][0]) if x['k'] == 'MemberExpr' and x['ref'].get('dk') == 'Field']
                        filt = ms
                        break
                return ('reverse', 'index' + (':' + ','.join(filt) if filt else ''))
        # i = M.find_first(); while (i != npos) { ...; i = M.find_next(i); }
        lids = [s['ref'].get('lid') for s in sub(cond) if s['k'] == 'DeclRefExpr' and 'lid' in s.get('ref', {})]
        if cond['k'] in ('BinaryOperator', 'CXXOperatorCallExpr') and cond.get('op') == '!=' and lids:
            lid = lids[0]
            nexts = [s for s in sub(loop['c'][-1]) if s.get('callee', {}).get('q', '').endswith('::find_next')]
            cont = None
            for s in f.walk():
                if s['k'] == 'BinaryOperator' and s.get('op') == '=' and strip(s['c'][0])['k'] == 'DeclRefExpr' and strip(s['c'][0])['ref'].get('lid') == lid and s['loc'][1] <= loop['loc'][1]:
                    for x in sub(s['c'][1]):
                        if x.get('callee', {}).get('q', '').endswith('::find_first'):
                            ms = [y['ref']['name'] for y in sub(x) if y['k'] == 'MemberExpr' and y['ref'].get('dk') == 'Field']
                            if ms and (cont is None or s['loc'][1] >= cont[1]):
                                cont = (ms[0], s['loc'][1])
            if nexts and cont:
                return ('forward', cont[0])
        # while (anc != NULL) walking up parents
        if any(s['k'] == 'MemberExpr' and s['ref'].get('name') == 'parent' for s in sub(loop['c'][-1])):
            return ('up', 'parent')
        return None
    return None


class Skeleton:
    def __init__(self, fb, ex, engine_q):
        self.fb = fb
        self.f = f = fb.fn(engine_q)
        self.eng = engine_q.split('::')[1]
        self.cls = f.rec
        self.g = path.EHCFG(f, ex)
        self.defs = path.local_defs(f)
        self.ev, self.sites = step_events(fb, f, self.g, self.defs)
        # history updates
        for n in f.walk():
            if n['k'] in ('CXXMemberCallExpr', 'CXXOperatorCallExpr', 'BinaryOperator') and n.get('c'):
                tgt = n['c'][0] if n['k'] == 'CXXMemberCallExpr' else (n['c'][1] if n['k'] == 'CXXOperatorCallExpr' and len(n['c']) > 1 else n['c'][0])
                names = {s['ref']['name'] for s in sub(tgt) if s['k'] == 'MemberExpr' and s['ref'].get('dk') == 'Field'}
                q = n.get('callee', {}).get('q', '').split('::')[-1]
                if '_history' in names and (q in ('insert', 'erase') or n.get('op') in ('|=', '&=', '=')) and n['id'] in self.g.pos:
                    self.ev[n['id']] = 'H'

    # ---- R01.1
    def phase_protocol(self):
        dfa, acc = phase_dfa()
        keep = {nid: lab for nid, lab in self.ev.items() if lab in ('H', 'P:onExit', 'CFG:erase', 'P:onTrans', 'CFG:insert', 'C:initData', 'P:onEntry', 'C:raiseDoneEvent')}
        viol, states = path.check_dfa(self.g, keep, dfa, 's0', acc, abexit_ok=acc)
        return viol, states, keep

    # ---- R01.2
    def orders(self):
        """{site label: [(direction, container), ...] outermost first} ; raises AnalysisBroken for unknown loop idioms"""
        f = self.f
        res = {}
        for nid, lab in sorted(self.ev.items(), key=lambda kv: f.nodes[kv[0]]['loc'][1]):
            if lab[:2] not in ('P:', 'CF', 'C:', 'I:'):
                continue
            n = f.nodes[nid]
            loops = [a for a in f.ancestors(n) if a['k'] in ('ForStmt', 'WhileStmt', 'CXXForRangeStmt', 'DoStmt')]
            infos = []
            for l in reversed(loops):
                li = loop_info(self.fb, f, l)
                if li is None:
                    raise AnalysisBroken('%s: loop idiom at %s not recognised (site %s)' % (self.eng, locstr(l), lab))
                infos.append(li)
            # phase: completion bracket or micro-step
            in_completion = any(a['k'] == 'IfStmt' and any(tab.const_of(s) == 4 for s in sub(a['c'][0])) and any(s.get('ref', {}).get('name') == '_flags' for s in sub(a['c'][0])) for a in f.ancestors(n))
            key = lab + ('@completion' if in_completion else '')
            k2 = key
            i = 1
            while k2 in res:
                i += 1
                k2 = '%s#%d' % (key, i)
            res[k2] = (infos, n)
        return res

    # ---- R01.5
    def exit_interval_guards(self):
        """consumers that apply an exit interval (loop bounded by .first/.second, or membership test >= first && <= second)
        must be control dependent on an emptiness test of .first"""
        f = self.f
        out = []
        for n in f.walk():
            if n['k'] not in ('ForStmt', 'IfStmt'):
                continue
            cond = n['c'][2] if n['k'] == 'ForStmt' and len(n['c']) > 2 else n['c'][0]
            if cond is None:
                continue
            names = [s['ref']['name'] for s in sub(cond) if 'ref' in s]
            uses_first = 'first' in names or 'second' in names
            is_exit = any(x in names for x in ('exitSet', '_exitSets')) or any(s.get('callee', {}).get('q', '').endswith('getExitSet') for s in sub(cond))
            if n['k'] == 'ForStmt':
                init = n['c'][0]
                names_i = [s['ref']['name'] for s in sub(init) if 'ref' in s] if init else []
                is_exit = is_exit or any(x in names_i for x in ('exitSet', '_exitSets'))
                uses_first = uses_first or 'first' in names_i
            if not (uses_first and is_exit):
                continue
            # membership / application: comparison of documentOrder against both ends, or a loop from first to second
            applies = n['k'] == 'ForStmt' or (any(s.get('op') == '>=' for s in sub(cond)) and any(s.get('op') == '<=' for s in sub(cond)) and 'documentOrder' in names)
            if not applies:
                continue
            guarded = False
            for a in f.ancestors(n):
                if a['k'] == 'IfStmt':
                    c = strip(a['c'][0])
                    nm = [s['ref']['name'] for s in sub(c) if s['k'] == 'MemberExpr']
                    if 'first' in nm and any(s.get('op') == '!=' and tab.const_of(s['c'][1]) == 0 for s in sub(c) if s['k'] == 'BinaryOperator'):
                        guarded = True
            out.append((n, guarded))
        return out

    # ---- R01.6
    def bitset_typestate(self):
        """dynamic_bitset members that are clear()ed (size 0) and indexed / scanned afterwards in the same function"""
        f = self.f
        bad = []
        g = self.g
        for n in f.walk():
            if n['k'] == 'CXXMemberCallExpr' and n.get('callee', {}).get('q', '').endswith('dynamic_bitset<>::clear'):
                me = strip(n['c'][0]['c'][0])
                if me['k'] != 'MemberExpr':
                    continue
                name = me['ref']['name']
                uses = [s for s in f.walk() if s['k'] == 'CXXOperatorCallExpr' and s.get('op') == '[]' and any(x['k'] == 'MemberExpr' and x['ref'].get('name') == name for x in sub(s['c'][1]))]
                later = [u for u in uses if u['id'] in g.pos and n['id'] in g.pos and g.can_reach(g.pos[n['id']], [u['id']])]
                if later:
                    bad.append((n, name, later))
        return bad

    # ---- R01.8
    def interval_comparisons(self):
        """comparisons between endpoints of exit intervals: (node, op)"""
        res = []
        helpers = {}     # file-local helpers that receive exit intervals as arguments (an extracted overlap test)
        for f in self.fb.funcs.values():
            if f.rec != self.cls:
                continue
            for n in f.walk():
                c = n.get('callee')
                if c and n['k'] == 'CallExpr' and not c.get('ext') and c['m'] in self.fb.funcs:
                    t = self.fb.funcs[c['m']]
                    if t.rec is None and t.file == f.file and any(
                            'exit' in (x.get('ref', {}).get('name') or '').lower() for a in n['c'][1:] for x in sub(a) if x['k'] in ('DeclRefExpr', 'MemberExpr')):
                        helpers[t.m] = t
        for f in list(self.fb.funcs.values()):
            if f.rec != self.cls and f.m not in helpers:
                continue
            for n in f.walk():
                if n['k'] == 'BinaryOperator' and n.get('op') in ('<', '>', '<=', '>='):
                    names = [s['ref']['name'] for s in sub(n) if s['k'] == 'MemberExpr']
                    ends = [x for x in names if x in ('first', 'second')]
                    ex_ = f.m in helpers or any(x in names for x in ('exitSet', '_exitSets')) or any('exit' in (s['ref'].get('name') or '').lower() for s in sub(n) if s['k'] == 'DeclRefExpr')
                    if ends and ex_:
                        res.append((f, n, n['op']))
        return res

    # ---- R01.9
    def kind_code_masks(self):
        """`&` tests whose operand is a state kind code (an enumeration value, not a flag)"""
        res = []
        for f in self.fb.funcs.values():
            if f.rec != self.cls:
                continue
            for n in f.walk():
                if n['k'] == 'BinaryOperator' and n.get('op') in ('&', '|'):
                    for side in n['c']:
                        s = strip(side)
                        macs = [m[0] for m in (s.get('mac') or [])]
                        if any(m in KIND_CODES for m in macs) and s['k'] == 'IntegerLiteral':
                            # composing (HAS_HISTORY | HISTORY_DEEP) as a comparison operand is fine; masking a type with a kind code is not
                            other = n['c'][1] if side is n['c'][0] else n['c'][0]
                            om = [m[0] for x in sub(other) for m in (x.get('mac') or [])]
                            if n['op'] == '&' and ('USCXML_STATE_MASK' in om or any(x.get('ref', {}).get('name') == 'type' for x in sub(other))):
                                res.append((f, n))
        return res

    # ---- R02.*
    def config_writers(self):
        """functions of the engine class that mutate the configuration member(s): {function: [(member, op, node)]}"""
        from .C10 import written_members
        res = {}
        for f in self.fb.funcs.values():
            if f.rec != self.cls:
                continue
            w = written_members(f, self.cls)
            hit = {k: v for k, v in w.items() if k in ('_configuration', '_configurationPostFix')}
            if hit:
                res[f.q.split('::')[-1]] = hit
        return res


def result_test_blocks(f, g, call):
    """CFG blocks whose branch condition tests the result of `call`: either the call is part of the condition
    (`if ((_event = dequeue()))`) or its result was assigned to a member / local that the condition reads before anything
    else writes it (`_event = dequeue(); if (_event)`)."""
    out = []
    for bid, b in g.blocks.items():
        cnd = b.get('cond')
        if cnd is not None and cnd in f.nodes and any(x.get('id') == call['id'] for x in sub(f.nodes[cnd])):
            out.append(bid)
    if out:
        return out
    # assignment form
    target = None
    asg = None
    for a in f.ancestors(call):
        if a['k'] in ('BinaryOperator', 'CXXOperatorCallExpr') and a.get('op') == '=':
            lhs = strip(a['c'][0] if a['k'] == 'BinaryOperator' else a['c'][1])
            if lhs is not None and lhs['k'] in ('MemberExpr', 'DeclRefExpr'):
                target = (lhs['k'], lhs['ref'].get('name'), lhs['ref'].get('lid'))
                asg = a
            break
        if a['k'] in ('CompoundStmt', 'IfStmt', 'WhileStmt', 'ForStmt'):
            break
    if target is None or asg['id'] not in g.pos:
        return []

    def is_target(x):
        x = strip(x)
        return x is not None and x['k'] == target[0] and x.get('ref', {}).get('name') == target[1] and (target[0] == 'MemberExpr' or x['ref'].get('lid') == target[2])
    writes = [n['id'] for n in f.walk() if n['k'] in ('BinaryOperator', 'CXXOperatorCallExpr') and n.get('op') == '=' and n is not asg and n.get('c') and
              is_target(n['c'][0] if n['k'] == 'BinaryOperator' else (n['c'][1] if len(n['c']) > 1 else None)) and n['id'] in g.pos]
    for bid, b in g.blocks.items():
        cnd = b.get('cond')
        if cnd is None or cnd not in f.nodes:
            continue
        cn = f.nodes[cnd]
        core = strip(cn)
        # look through `operator bool` and negation
        while core is not None and ((core['k'] == 'CXXMemberCallExpr' and '::operator bool' in core.get('callee', {}).get('q', '')) or (core['k'] == 'UnaryOperator' and core.get('op') == '!')):
            core = strip(core['c'][0]['c'][0]) if core['k'] == 'CXXMemberCallExpr' and core['c'][0].get('c') else strip(core['c'][0])
        if not is_target(core):
            continue
        last = b['el'][-1] if b['el'] else None
        if last is None:
            continue
        # reachable from the assignment without another write of the target in between
        if g.can_reach(g.pos[asg['id']], [cnd], avoid=writes) is not None:
            out.append(bid)
    return out


def completion_closure_breaks(f, sets=('completion', 'target')):
    """(loop, break) pairs: a loop that adds the `ancestors` of the members of a `completion` / `target` set and leaves at the first member.
    Works on the engines (C++) and on the reconstructed C of the emitted step function."""
    out, n_loops = [], 0
    for lp in f.walk():
        if lp['k'] not in ('ForStmt', 'WhileStmt', 'CXXForRangeStmt', 'DoStmt'):
            continue
        body = lp['c'][-1]
        if body is None:
            continue
        adds = []
        for n in sub(body):
            names = [x['ref'].get('name') for x in sub(n) if x['k'] == 'MemberExpr']
            is_add = (n['k'] in ('CompoundAssignOperator', 'CXXOperatorCallExpr', 'BinaryOperator') and n.get('op') == '|=') or (
                n['k'] in ('CallExpr', 'CXXMemberCallExpr') and n.get('callee', {}).get('q', '').split('::')[-1] in ('bit_or', 'insert'))
            if is_add and 'ancestors' in names:
                # the loop that walks the members is the innermost loop around the addition
                inner = next((a_ for a_ in f.ancestors(n) if a_['k'] in ('ForStmt', 'WhileStmt', 'CXXForRangeStmt', 'DoStmt')), None)
                if inner is lp:
                    adds.append(n)
        if not adds:
            continue
        # the member test on `completion` that selects the element (in the loop header or an enclosing if inside the loop)
        sel = False
        for a_ in adds:
            for anc in f.ancestors(a_):
                if anc is lp:
                    break
                if anc['k'] == 'IfStmt' and any(x['k'] == 'MemberExpr' and x['ref'].get('name') in sets for x in sub([c for c in anc['c'] if c is not None][0])):
                    sel = True
        hdr = [x for x in sub(lp) if x['id'] not in {y['id'] for y in sub(body)}]
        if any(x['k'] == 'MemberExpr' and x['ref'].get('name') in sets for x in hdr):
            sel = True
        if not sel:
            continue
        # nested loops own their breaks
        inner_loops = [x for x in sub(body) if x['k'] in ('ForStmt', 'WhileStmt', 'CXXForRangeStmt', 'DoStmt', 'SwitchStmt')]
        inner_ids = {y['id'] for il in inner_loops for y in sub(il)}
        n_loops += 1
        for n in sub(body):
            if n['k'] == 'BreakStmt' and n['id'] not in inner_ids:
                out.append((lp, n))
    return out, n_loops


def history_default_condition(f):
    """the condition under which a history state takes its default transition: (node, conjunct descriptions).  Works on the engines
    and on the reconstructed C.  The recommendation takes the default iff no history value is recorded."""
    best = None
    for n in f.walk():
        if n['k'] != 'IfStmt':
            continue
        kids = [c for c in n['c'] if c is not None]
        cond = kids[0]
        names = [x['ref'].get('name') for x in sub(cond) if x['k'] in ('MemberExpr', 'DeclRefExpr')]
        calls = [x.get('callee', {}).get('q', '').split('::')[-1] for x in sub(cond) if x.get('callee')]
        hist = any(nm in ('_history', 'history') for nm in names)
        comp = 'completion' in names
        if hist and comp and any(c in ('intersects', 'bit_has_and') for c in calls):
            if best is None or sum(1 for _ in sub(n)) > sum(1 for _ in sub(best)):
                best = n
    if best is None:
        return None, []
    cond = [c for c in best['c'] if c is not None][0]
    conj = []
    st = [strip(cond)]
    while st:
        x = strip(st.pop())
        if x['k'] == 'BinaryOperator' and x.get('op') == '&&':
            st += [x['c'][0], x['c'][1]]
        else:
            conj.append(x)
    desc = []
    for c in conj:
        names = [x['ref'].get('name') for x in sub(c) if x['k'] in ('MemberExpr', 'DeclRefExpr')]
        if any(nm in ('_history', 'history') for nm in names):
            desc.append('nothing remembered')
        elif any(nm in ('_configuration', 'config') for nm in names) and 'parent' in names:
            desc.append('parent not active')
        else:
            desc.append('other')
    return best, desc


def guarded_by(f, g, node, names):
    """is `node` only reached through one particular outcome of a condition that mentions one of `names` (member or variable
    names)?  Accepts the nested form `if (m) { node }` and the guard-clause form `if (!m) return; node` alike (edge dominance)."""
    from .C08 import edge_dominates
    if node['id'] not in g.pos:
        return False
    tb = g.pos[node['id']][0]
    for bid, b in g.blocks.items():
        c = b.get('cond')
        if c is None or c not in f.nodes:
            continue
        if not any(x.get('ref', {}).get('name') in names for x in sub(f.nodes[c])):
            continue
        if bid == tb:
            continue
        if edge_dominates(g, bid, True, tb) or edge_dominates(g, bid, False, tb):
            return True
    return False


def history_rewrite_total(fb, f):
    """loops of the large engine's step() that rewrite a history's record member by member (a loop over `completion` holding both
    _history.insert and _history.erase): [(loop, witness)] where witness is a CFG path through one iteration that neither
    inserts nor erases the member (None when every iteration decides)"""
    from .. import cfg as cfgm
    g = cfgm.CFG(f)
    out = []
    for lp in f.walk():
        if lp['k'] not in ('CXXForRangeStmt', 'ForStmt', 'WhileStmt'):
            continue
        hdr = [c for c in lp['c'][:-1] if c is not None]
        if not any(x['k'] == 'MemberExpr' and x.get('ref', {}).get('name') == 'completion' for h in hdr for x in sub(h)):
            continue
        body = lp['c'][-1]
        if body is None:
            continue
        upd = [n for n in sub(body) if n['k'] == 'CXXMemberCallExpr' and n.get('callee', {}).get('q', '').split('::')[-1] in ('insert', 'erase') and n.get('c') and n['c'][0].get('c') and any(
            x['k'] == 'MemberExpr' and x.get('ref', {}).get('name') == '_history' for x in sub(n['c'][0]['c'][0]))]
        kinds = {n['callee']['q'].split('::')[-1] for n in upd}
        if kinds != {'insert', 'erase'}:
            continue
        # start: the first CFG element of the body (for a range-for: the loop variable's declaration)
        start = None
        cand = ([lp['c'][6]] if lp['k'] == 'CXXForRangeStmt' and len(lp['c']) > 6 and lp['c'][6] is not None else []) + list(sub(body))
        for x in cand:
            if x.get('id') in g.pos:
                start = g.pos[x['id']]
                break
        nxt = []
        if lp['k'] == 'CXXForRangeStmt' and len(lp['c']) > 5 and lp['c'][5] is not None:
            nxt = [x['id'] for x in sub(lp['c'][5]) if x['id'] in g.pos]
        elif lp['k'] == 'ForStmt' and len(lp['c']) > 3 and lp['c'][3] is not None:
            nxt = [x['id'] for x in sub(lp['c'][3]) if x['id'] in g.pos]
        else:
            nxt = [x['id'] for x in sub(lp['c'][0]) if x['id'] in g.pos]
        if start is None or not nxt:
            raise AnalysisBroken('%s: history rewrite loop at %s has no CFG anchor' % (f.q, locstr(lp)))
        w = g.can_reach((start[0], start[1] - 1), nxt, avoid=[n['id'] for n in upd])
        out.append((lp, w))
    return out


def completion_closure_wholesale_guard(f):
    """deep-completion closures that are switched on or off as a whole: a loop adding the `ancestors` of completion members that sits
    under a test of the whole completion set against the whole children set (BIT_HAS_AND / bit_has_and / intersects).  With
    initial="child deeper" one member being a direct child switches the closure off for the deeper one.  [(loop, guard)]"""
    out = []
    for lp in f.walk():
        if lp['k'] not in ('ForStmt', 'WhileStmt', 'CXXForRangeStmt', 'DoStmt'):
            continue
        body = lp['c'][-1]
        if body is None:
            continue
        adds = [n for n in sub(body) if ((n['k'] in ('CompoundAssignOperator', 'CXXOperatorCallExpr', 'BinaryOperator') and n.get('op') == '|=') or (
            n['k'] in ('CallExpr', 'CXXMemberCallExpr') and n.get('callee', {}).get('q', '').split('::')[-1] in ('bit_or', 'insert'))) and
            'ancestors' in [x['ref'].get('name') for x in sub(n) if x['k'] == 'MemberExpr']]
        hdr_or_if = [x for x in sub(lp) if x['k'] == 'MemberExpr' and x['ref'].get('name') == 'completion']
        if not adds or not hdr_or_if:
            continue
        for anc in f.ancestors(lp):
            if anc['k'] != 'IfStmt':
                continue
            c = [k for k in anc['c'] if k is not None][0]
            names = {x['ref'].get('name') for x in sub(c) if x['k'] == 'MemberExpr'}
            whole = any(m[0] in ('BIT_HAS_AND',) for x in sub(c) for m in (x.get('mac') or [])) or any(
                x.get('callee', {}).get('q', '').split('::')[-1] in ('bit_has_and', 'intersects') for x in sub(c))
            if whole and {'completion', 'children'} <= names:
                out.append((lp, anc))
    return out

