"""C06 - the emitted Promela step proctype is the same bit-set algorithm as the emitted C step function (DESIGN 4/C06).

Clause level.  Both step functions are literal templates in the generators; the C one is reconstructed and parsed by C04.
Decided: macro-family typing of the Promela text, agreement of every set test (operands + polarity) and every set update
(operation, destination, source) with the C sibling, phase order and loop directions.  NOT decided: equality of the
model's executions with the interpreter's, document-dependent parts.
"""
import collections, re
from .. import facts, tpl
from ..facts import AnalysisBroken, strip, sub, locstr
from . import C04

TUS = ['src/uscxml/transform/ChartToPromela.cpp', 'src/uscxml/transform/ChartToC.cpp', 'src/uscxml/transform/Trie.cpp']
PHASES = ['writeFSMDequeueEvent', 'writeFSMSelectTransitions', 'writeFSMRememberHistory', 'writeFSMEstablishEntrySet', 'writeFSMExitStates',
          'writeFSMTakeTransitions', 'writeFSMEnterStates']
STEP_WRITERS = PHASES[1:]
# dimension of the bit arrays (confirmed against ChartToPromela::writeCommonTypeDefs / writeVariables)
T_SIZED = ('conflicts', 'trans_set')
S_SIZED = ('target_set', 'exit_set', 'entry_set', 'tmp_states', 'config', 'history', 'invocations', 'initialized_data', 'completion', 'children',
           'ancestors', 'target')
# differences between the two templates that are not differences of the algorithm: key -> reason (confirmed by reading)
ACCEPTED = {
    ('C', 'OR', ('target_set', 'states[0].completion')): 'initial entry: C ORs the root completion into the cleared target set, Promela copies it (target_set is cleared just before)',
    ('P', 'COPY', ('target_set', 'states[0].completion')): 'see the C entry',
    ('P', 'HAS_ANY', ('config',), False): 'Promela detects the initial step by an empty configuration, C by the PRISTINE flag',
    ('P', 'HAS_ANY', ('config',), True): 'see above (history is only remembered on non-initial entry)',
}
CMAP = {'bit_has_and': 'HAS_AND', 'bit_has_any': 'HAS_ANY', 'bit_or': 'OR', 'bit_and_not': 'AND_NOT', 'bit_and': 'AND', 'bit_copy': 'COPY', 'bit_clear_all': 'CLEAR'}


DOC_DEPENDENT = ('writeExecContent', 'writeIfBlock', 'writeRaiseDoneDate', 'writeFSMDequeueEvent')


def literal_text(f, fb=None, depth=0):
    """the text a writer emits, literals in source order; the machine prefix is dropped, other operands are <?>.  Calls to other
    writers on the same stream (extracted helpers) are expanded in place, except the document-dependent ones.  Returns (text, [(line, source line)])"""
    out = []

    def emit(fn, d):
        # local strings built from literals and the prefix (`const std::string es = _prefix + "ctx.entry_set";`) are text as well
        strlocals = {}
        for n in fn.walk():
            if n['k'] == 'DeclStmt':
                for dcl in n.get('decls', []):
                    if 'lid' in dcl and 'string' in (dcl.get('t') or '') and isinstance(dcl.get('init'), dict):
                        parts = []
                        tpl._flatten_plus(dcl['init'], parts)
                        if any(p_['k'] == 'StringLiteral' for p_ in parts):
                            strlocals[dcl['lid']] = parts
        # statements in source order: stream insertions and calls to helper writers
        items = []
        for n in fn.walk():
            if n['k'] == 'CXXOperatorCallExpr' and n.get('op') == '<<':
                par = fn.parent(n)
                while par is not None and par['k'] in facts.TRANSPARENT:
                    par = fn.parent(par)
                if par is not None and par['k'] == 'CXXOperatorCallExpr' and par.get('op') == '<<':
                    continue
                items.append((n['loc'][1], n['loc'][2], 'ins', n))
            elif fb is not None and d < 2 and n['k'] in ('CallExpr', 'CXXMemberCallExpr') and n.get('callee') and not n['callee'].get('ext') and n['callee']['m'] in fb.funcs:
                cf = fb.funcs[n['callee']['m']]
                if cf.m != fn.m and cf.q.split('::')[-1] not in DOC_DEPENDENT and any('ostream' in (p.get('t') or '') for p in cf.d.get('params', [])) and not cf.q.split('::')[-1].startswith('writeFSM'):
                    items.append((n['loc'][1], n['loc'][2], 'call', (n, cf)))
        for line, col, kind, payload in sorted(items, key=lambda x: (x[0], x[1])):
            if kind == 'call':
                emit(payload[1], d + 1)
                continue
            ops = []
            tpl.flatten(payload, ops)
            flat = []
            for o in ops[1:]:
                oo = strip(o)
                if oo is not None and oo['k'] == 'DeclRefExpr' and oo.get('ref', {}).get('lid') in strlocals:
                    flat += [(strip(p_), oo['loc'][1]) for p_ in strlocals[oo['ref']['lid']]]
                else:
                    flat.append((oo, oo['loc'][1]))
            for oo, oline in flat:
                src = line if d else oline
                if oo['k'] == 'StringLiteral':
                    out.append((oo.get('str', ''), src))
                elif oo['k'] == 'DeclRefExpr' and oo['ref'].get('name') == 'endl':
                    out.append(('\n', src))
                elif oo['k'] in ('MemberExpr', 'DeclRefExpr') and 'prefix' in (oo['ref'].get('name') or '').lower():
                    out.append(('', src))
                else:
                    out.append(('<?>', src))
    emit(f, depth)
    text = ''.join(t for t, _ in out)
    lines, cur, src = [], '', None
    for t, l in out:
        for ch in t:
            if src is None:
                src = l
            if ch == '\n':
                lines.append((cur, src))
                cur, src = '', None
            else:
                cur += ch
    if cur:
        lines.append((cur, src))
    return text, lines


def norm(x):
    x = x.strip().replace('<?>', '')       # a machine prefix handed around under another name
    x = re.sub(r'ctx->machine->', '', x)
    x = re.sub(r'ctx->|ctx\.', '', x)
    x = re.sub(r'USCXML_GET_STATE\(([^)]*)\)', r'states[\1]', x)
    x = re.sub(r'USCXML_GET_TRANS\(([^)]*)\)', r'transitions[\1]', x)
    return re.sub(r'\s+', '', x)


P_RE = re.compile(r'(!?)\s*(STATES|TRANS)_(HAS_AND|HAS_ANY|OR|AND_NOT|AND|COPY|CLEAR)\(([^()]*(?:\([^()]*\))?[^()]*)\)')
C_RE = re.compile(r'(!?)\s*(bit_has_and|bit_has_any|bit_or|bit_and_not|bit_and|bit_copy|bit_clear_all)\(([^()]*(?:\([^()]*\)[^()]*)*)\)')


def dim(operand):
    last = re.split(r'[.\]]', operand.replace('[', '.['))[-1] if False else operand.split('.')[-1]
    last = re.sub(r'\[.*$', '', last)
    if last in T_SIZED:
        return 'T'
    if last in S_SIZED:
        return 'S'
    return None


def compare_siblings(rep, fb, r_tests, r_updates, site_side='P'):
    """multiset comparison of the set tests / set updates of the emitted Promela step with the emitted C step function"""
    ptext, plines = '', []
    for w in STEP_WRITERS:
        f = fb.fn('uscxml::ChartToPromela::' + w)
        t, ls = literal_text(f, fb)
        plines += [(l, s_, w) for l, s_ in ls]
    ctext, info = C04.reconstruct(fb, rep, 'USCXML_NR_STATES_TYPE')
    if 'int uscxml_step' not in ctext:
        raise AnalysisBroken('reconstructed C: uscxml_step not found')
    cstep = ctext[ctext.index('int uscxml_step'):]
    # ---- R06.2 / R06.4
    P = collections.Counter()
    psite = {}
    for line, src, w in plines:
        for m in P_RE.finditer(line):
            neg, fam, op, args = m.groups()
            key = (op, tuple(norm(a) for a in args.split(',')), bool(neg) if op.startswith('HAS') else None)
            P[key] += 1
            psite.setdefault(key, 'src/uscxml/transform/ChartToPromela.cpp:%s' % src)
    C = collections.Counter()
    for m in C_RE.finditer(cstep):
        neg, fn, args = m.groups()
        a = [norm(x) for x in args.split(',')][:-1]
        C[(CMAP[fn], tuple(a), bool(neg) if fn.startswith('bit_has') else None)] += 1
    rep.minimum(r_tests, sum(1 for k in C if k[0].startswith('HAS')), 6, 'set tests in the emitted C step function')
    rep.minimum(r_updates, sum(1 for k in C if not k[0].startswith('HAS')), 20, 'set updates in the emitted C step function')

    def accepted(side, key):
        k = (side, key[0], key[1]) if key[2] is None else (side, key[0], key[1], key[2])
        return k in ACCEPTED
    # ---- loop-nesting depth of every update and test (a scratch set cleared once per candidate in one template and once per
    # phase in the other is a different algorithm although the multisets agree)
    PD, CD = collections.defaultdict(list), collections.defaultdict(list)
    depth = 0
    for line, src, w in plines:
        st_ = line.strip()
        if re.match(r'^do\b', st_):
            depth += 1
        for m in P_RE.finditer(line):
            neg, fam, op, args = m.groups()
            PD[(op, tuple(norm(a) for a in args.split(',')), bool(neg) if op.startswith('HAS') else None)].append(depth)
        if re.match(r'^od\b', st_):
            depth -= 1
    if depth != 0:
        raise AnalysisBroken('emitted Promela step: do/od do not balance (%+d)' % depth)
    stack, pending = [], False
    tok = re.compile(r'\bfor\s*\(|\bwhile\s*\(|\{|\}|' + C_RE.pattern)
    for m in tok.finditer(cstep):
        t = m.group(0)
        if re.match(r'(for|while)\b', t):
            pending = True
        elif t == '{':
            stack.append('L' if pending else 'B')
            pending = False
        elif t == '}':
            if stack:
                stack.pop()
        else:
            neg, fn, args = m.group(1), m.group(2), m.group(3)
            a = [norm(x) for x in args.split(',')][:-1]
            CD[(CMAP[fn], tuple(a), bool(neg) if fn.startswith('bit_has') else None)].append(stack.count('L') + (1 if pending else 0))
    for key in sorted(set(PD) & set(CD), key=str):
        rule = r_tests if key[0].startswith('HAS') else r_updates
        if accepted('C', key) or accepted('P', key) or len(PD[key]) != len(CD[key]):
            continue
        what = '%s%s(%s)' % ('!' if key[2] else '', key[0], ', '.join(key[1]))
        rep.check(sorted(PD[key]) == sorted(CD[key]), rule, what + '|loop depth', psite.get(key, 'src/uscxml/transform/ChartToPromela.cpp'),
                  '%s sits at loop depth %s in the Promela step and %s in the C step function%s' % (what, sorted(PD[key]), sorted(CD[key]),
                  '' if sorted(PD[key]) == sorted(CD[key]) else ': it is executed once per iteration in one template and once for the whole loop in the other'))
    for key in sorted(set(C) | set(P), key=str):
        rule = r_tests if key[0].startswith('HAS') else r_updates
        what = '%s%s(%s)' % ('!' if key[2] else '', key[0], ', '.join(key[1]))
        c, p = C.get(key, 0), P.get(key, 0)
        if c == p:
            rep.ok(rule, what, 'in both emitted step functions (%d time(s))' % c)
            continue
        side = 'C' if c > p else 'P'
        if accepted(side, key):
            rep.ok(rule, what, 'accepted difference: ' + ACCEPTED[(side, key[0], key[1]) if key[2] is None else (side, key[0], key[1], key[2])])
            continue
        # a polarity flip shows up as the same operands with the other polarity on the other side
        flip = key[2] is not None and (C.get((key[0], key[1], not key[2]), 0) != P.get((key[0], key[1], not key[2]), 0))
        rep.fail(rule, what, psite.get(key) or psite.get((key[0], key[1], (not key[2]) if key[2] is not None else None)) or 'src/uscxml/transform/ChartToPromela.cpp',
                 '%s occurs %d time(s) in the emitted C step function and %d time(s) in the Promela step%s' % (
                     what, c, p, ': the TEST HAS THE OPPOSITE POLARITY in one of the two templates' if flip else ''))



def queue_rotations(rep, fb, rule):
    """emitted inlines that rotate a queue (queue?tmpE ... queue!tmpE) and may drop elements run exactly len(queue) times"""
    n = 0
    seen_src = set()
    for f in sorted(fb.funcs.values(), key=lambda f_: (f_.file, f_.line)):
        if not f.file.endswith('ChartToPromela.cpp') or not f.d.get('body'):
            continue
        try:
            t, ls = literal_text(f, None)
        except Exception:
            continue
        for idx, (line, src) in enumerate(ls):
            if not re.search(r'\bqueue\?tmpE', line) or src in seen_src:
                continue
            seen_src.add(src)
            # the guard of the enclosing do-loop: nearest preceding `:: <guard> -> {`
            guard = None
            for l2, s2 in reversed(ls[max(0, idx - 6):idx]):
                m_ = re.match(r'\s*::\s*(.*?)\s*->\s*\{', l2)
                if m_:
                    guard = (m_.group(1), s2)
                    break
            if guard is None:
                continue
            n += 1
            live = bool(re.search(r'\blen\(queue\)', guard[0]))
            rep.check(not live, rule, '%s|rotation at line %s' % (f.q.split('::')[-1], src), 'src/uscxml/transform/ChartToPromela.cpp:%s' % guard[1],
                      'the rotation loop is bounded by `%s`%s' % (guard[0], '' if not live else ': len(queue) shrinks while matching events are dropped, so the rotation stops early and leaves the surviving events in another order (the sibling inline counts down from the initial length)'))
    rep.minimum(rule, n, 2, 'queue rotation inlines in the Promela generator')


def identifier_renames(rep, fb, rule):
    """the rename of system variables in chart code works on identifiers, not on substrings"""
    n = 0
    for f in fb.funcs.values():
        if not f.file.startswith('src/uscxml/transform/') or f.q.split('::')[-1] != 'sanitizeCode':
            continue
        n += 1
        plain = []
        for c in f.walk():
            if c['k'] == 'CallExpr' and c.get('callee', {}).get('q', '').split('::')[-1] in ('replace_all', 'replace_first', 'ireplace_all'):
                lits = [x.get('str') for x in sub(c) if x['k'] == 'StringLiteral']
                if lits and re.match(r'^_[A-Za-z]+$', lits[0] or ''):
                    plain.append((c, lits[0]))
        rep.check(not plain, rule, '%s::sanitizeCode' % f.q.split('::')[-2], locstr(plain[0][0]) if plain else f.where(), 'system variables in chart code are renamed %s' % (
            'as whole identifiers' if not plain else 'by replacing the SUBSTRING "%s" everywhere: `user%s == 1` silently refers to another, auto-declared variable than <data id="user%s">' % (plain[0][1], plain[0][1], plain[0][1])))
    rep.minimum(rule, n, 2, 'sanitizeCode functions of the Promela back-end')


def time_advances(rep, fb, rule):
    """delays are relative to the time an event was sent: the model advances time whenever it uses delays, also with one machine"""
    sites = []
    for f in fb.funcs.values():
        if not f.file.endswith('ChartToPromela.cpp') or not f.d.get('body'):
            continue
        for n in f.walk():
            if n['k'] == 'IfStmt' and any(x['k'] == 'StringLiteral' and 'scheduleMachines();' in (x.get('str') or '') for x in sub(n['c'][1])):
                cond = n['c'][0]
                by_count = any(x['k'] == 'MemberExpr' and x['ref'].get('name') == '_machinesAll' for x in sub(cond)) and any(x.get('callee', {}).get('q', '').split('::')[-1] == 'size' for x in sub(cond))
                sites.append((f, n, by_count))
    for f, n, by_count in sites:
        rep.check(not by_count, rule, '%s|scheduleMachines at line %d' % (f.q.split('::')[-1], n['loc'][1]), locstr(n), 'the call that advances time (scheduleMachines -> advanceTime) is emitted %s' % (
            'whenever delays are used' if not by_count else 'only for MORE THAN ONE machine: in a single-machine model waiting events keep their original delay, so e1(500) sending e2(300) is followed by e2 before e3(700) although e3 is due first'))
    rep.minimum(rule, len(sites), 1, 'emission sites of scheduleMachines()')


MUTATORS = ('append', 'replace', 'erase', 'insert', 'push_back', 'clear', 'assign', 'resize', 'swap', 'pop_back', 'operator+=', 'operator=')


def unique_names(rep, fb, rule):
    """name allocation: a loop `while (set.find(name) != set.end()) name = <next candidate>` followed by set.insert(name) hands out
    unique names only if the name that is inserted (and returned) is the one that was tested: no further change in between"""
    from .. import cfg as cfgm
    n_sites = 0
    for f in fb.funcs.values():
        if not f.file.startswith('src/uscxml/transform/') or not f.d.get('cfg'):
            continue
        for lp in f.walk():
            if lp['k'] != 'WhileStmt':
                continue
            cond = strip(lp['c'][0] if lp['c'][0] is not None else lp['c'][1])
            if cond is None or cond['k'] not in ('CXXOperatorCallExpr', 'BinaryOperator') or cond.get('op') != '!=':
                continue
            finds = [x for x in sub(cond) if x['k'] == 'CXXMemberCallExpr' and x.get('callee', {}).get('q', '').split('::')[-1] == 'find' and len(x.get('c', [])) > 1]
            ends = [x for x in sub(cond) if x['k'] == 'CXXMemberCallExpr' and x.get('callee', {}).get('q', '').split('::')[-1] == 'end']
            if not finds or not ends:
                continue
            setm = [x['ref']['name'] for x in sub(finds[0]['c'][0]) if x['k'] == 'MemberExpr' and x['ref'].get('dk') == 'Field']
            key = strip(finds[0]['c'][1])
            if not setm or key is None or key['k'] != 'DeclRefExpr' or 'lid' not in key.get('ref', {}):
                continue
            lid = key['ref']['lid']
            # the candidate is re-assigned inside the loop (otherwise this is not an allocation loop)
            body_assigns = [x for x in sub(lp['c'][-1]) if x['k'] in ('CXXOperatorCallExpr', 'BinaryOperator') and x.get('op') == '=' and
                            strip(x['c'][1] if x['k'] == 'CXXOperatorCallExpr' else x['c'][0]).get('ref', {}).get('lid') == lid]
            if not body_assigns:
                continue
            inserts = [x for x in f.walk() if x['k'] == 'CXXMemberCallExpr' and x.get('callee', {}).get('q', '').split('::')[-1] == 'insert' and x['loc'][1] > lp['loc'][1] and
                       any(y['k'] == 'MemberExpr' and y['ref'].get('name') == setm[0] for y in sub(x['c'][0])) and
                       any(y['k'] == 'DeclRefExpr' and y.get('ref', {}).get('lid') == lid for a_ in x['c'][1:] for y in sub(a_))]
            if not inserts:
                continue
            n_sites += 1
            # the next candidate stays an identifier: it is not the bare counter (`name = suffix`, suffix = toStr(index))
            for ba in body_assigns:
                rhs_ = strip(ba['c'][-1])
                while rhs_ is not None and rhs_['k'] in ('CXXConstructExpr', 'CXXBindTemporaryExpr', 'MaterializeTemporaryExpr') and rhs_.get('c') and len([c_ for c_ in rhs_['c'] if c_]) == 1:
                    rhs_ = strip([c_ for c_ in rhs_['c'] if c_][0])
                if rhs_ is not None and rhs_['k'] == 'DeclRefExpr' and 'lid' in rhs_.get('ref', {}):
                    dcl_ = next((d_ for s_ in sub(lp) if s_['k'] == 'DeclStmt' for d_ in s_.get('decls', []) if d_.get('lid') == rhs_['ref']['lid'] and isinstance(d_.get('init'), dict)), None)
                    if dcl_ is not None and any(y.get('callee', {}).get('q', '') == 'uscxml::toStr' for y in sub(dcl_['init'])):
                        rep.fail(rule, '%s|candidate is a number' % f.q.split('::')[-1], locstr(ba), 'when the counter does not fit into the name the next candidate is the bare counter (`%s`): event `a` next to event `A` gets the macro name 2 - `#define 2 3` does not compile, and event="A" resolves to the code of event a' % ' '.join(fb.text(ba).split())[:50])
            g = cfgm.CFG(f)
            in_loop = {x['id'] for x in sub(lp)}
            muts = []
            for x in f.walk():
                if x['id'] in in_loop or x['id'] not in g.pos:
                    continue
                if x['k'] in ('CXXOperatorCallExpr', 'BinaryOperator') and x.get('op') in ('=', '+='):
                    l = strip(x['c'][1] if x['k'] == 'CXXOperatorCallExpr' else x['c'][0])
                    if l is not None and l['k'] == 'DeclRefExpr' and l.get('ref', {}).get('lid') == lid:
                        muts.append(x)
                elif x['k'] == 'CXXMemberCallExpr' and x.get('callee', {}).get('q', '').split('::')[-1] in MUTATORS and x['c'][0].get('c'):
                    b = strip(x['c'][0]['c'][0])
                    if b is not None and b['k'] == 'DeclRefExpr' and b.get('ref', {}).get('lid') == lid:
                        muts.append(x)
                elif x['k'] == 'CallExpr':
                    # the variable handed over as a non-const reference (no const-adding cast, no copy)
                    for a_ in x.get('c', [])[1:]:
                        if a_['k'] == 'DeclRefExpr' and a_.get('ref', {}).get('lid') == lid and 'const' not in (a_.get('t') or ''):
                            muts.append(x)
            cb = g.pos.get(strip(lp['c'][0] if lp['c'][0] is not None else lp['c'][1])['id'])
            exit_succ = None
            for bid, blk in g.blocks.items():
                if blk.get('termk') == 'WhileStmt' and blk.get('term') == lp['id']:
                    ss = g.succ_labeled(bid)
                    ex = [s_ for s_, lab in ss if lab is False]
                    exit_succ = ex[0] if ex else None
            if exit_succ is None:
                raise AnalysisBroken('%s: exit edge of the allocation loop at %s not found' % (f.q, locstr(lp)))
            after = g.reachable_blocks(exit_succ)
            late = [m_ for m_ in muts if g.pos[m_['id']][0] in after and g.can_reach(g.pos[m_['id']], [inserts[0]['id']]) is not None]
            rep.check(not late, rule, '%s|%s' % (f.q.split('::')[-1], setm[0]), locstr(lp), 'the name tested against %s by the allocation loop is %s' % (setm[0],
                      'inserted unchanged' if not late else 'CHANGED again before it is inserted (%s): the set then holds names in another form than the candidates it is asked about, and two literals can get the same name' % locstr(late[0])))
    rep.minimum(rule, n_sites, 1, 'unique-name allocation loops in the transformers')


def run(rep, tier):
    rep.rule('R06.1', 'macro-family typing of the emitted Promela: STATES_* macros take state-sized bit arrays only, TRANS_* macros transition-sized ones only; a loop variable bounded by USCXML_NUMBER_TRANS subscripts transition-sized arrays and the transition table, one bounded by USCXML_NUMBER_STATES state-sized arrays and the state table')
    rep.rule('R06.2', 'set tests agree with the C sibling: every STATES_HAS_AND / STATES_HAS_ANY test of the Promela step has the operands and the polarity of the corresponding bit_has_and / bit_has_any test of the emitted C step function, and vice versa')
    rep.rule('R06.3', 'phase order and loop direction: writeFSM emits dequeue, select, remember history, establish entry set, exit, take, enter in this order; the exit loop counts down from USCXML_NUMBER_STATES, the take and enter loops count up from 0')
    rep.rule('R06.4', 'set updates agree with the C sibling: the multiset of (operation, destination, source) over OR / AND / AND_NOT / COPY / CLEAR is the same in both emitted step functions (accepted differences are listed with reasons)')
    rep.rule('R06.5', 'closure loops visit every member: each emitted loop of the entry-set phase that adds the ancestors of the members of a set (deep completion, targets of initial and history default transitions) neither breaks after the first member nor leaves at the first non-member (same clause as C04 R04.9 for the C sibling)')
    rep.rule('R06.6', 'static event-descriptor resolution: the prefix trie registers every event name and a prefix lookup returns every name below the prefix (rules shared with C12 R12.5 / R12.6)')
    rep.rule('R06.11', 'done.state of a parallel is judged on a complete picture (same clause as C03 R03.11 / C04 R04.13 for the siblings)')
    rep.rule('R06.10', 'delayed events keep their order in time: the emitted model advances time (subtracting the elapsed delay from the waiting events) whenever the chart uses delays, whatever the number of machines')
    rep.rule('R06.9', 'chart code keeps its identifiers: the rename of the system variables (_name, _sessionid) in conditions, expressions and scripts replaces whole identifiers only, so a user variable that merely contains such a name is the same variable in its declaration and in its uses')
    rep.rule('R06.8', 'queue rotations keep the order of what they keep: an emitted inline that takes every element off a queue and re-enqueues the survivors iterates exactly the initial length (a counter set from len(queue) before the loop), not `index < len(queue)` re-evaluated while elements are dropped')
    rep.rule('R06.7', 'literal numbering is injective: the loop that makes a macro name unique tests the same string that is then inserted into the name set and handed out (no case folding or other rewrite between the test and the insertion)')
    rep.assume('equality of the spin model\'s executions with the interpreter\'s is not decided; executable content, event/string numbering, nested machines and timers are not analysed')
    rep.assume('the emitted C step function is the reference only in the sense of "sibling": C04 checks it against the engines')
    fb = facts.FactBase(TUS)
    rep.covered(tus=len(TUS), extracted=fb.extracted)
    # ---- texts
    ptext, plines = '', []
    per_writer = {}
    for w in STEP_WRITERS:
        f = fb.fn('uscxml::ChartToPromela::' + w)
        t, ls = literal_text(f, fb)
        per_writer[w] = (f, t, ls)
        ptext += t + '\n'
        plines += [(l, s, w) for l, s in ls]
    ctext, info = C04.reconstruct(fb, rep, 'USCXML_NR_STATES_TYPE')
    if 'int uscxml_step' not in ctext:
        raise AnalysisBroken('reconstructed C: uscxml_step not found')
    cstep = ctext[ctext.index('int uscxml_step'):]
    rep.covered(promela_lines=len(plines), c_step_lines=len(cstep.splitlines()))

    # ---- R06.1
    nmac = 0
    for line, src, w in plines:
        for m in P_RE.finditer(line):
            neg, fam, op, args = m.groups()
            ops = [norm(a) for a in args.split(',')]
            dims = [dim(o) for o in ops]
            if None in dims:
                raise AnalysisBroken('%s: operand of %s_%s with unknown dimension: %s (ChartToPromela.cpp:%s)' % (w, fam, op, ops, src))
            nmac += 1
            want = 'S' if fam == 'STATES' else 'T'
            rep.check(all(d == want for d in dims), 'R06.1', '%s|%s_%s(%s)' % (w, fam, op, ','.join(ops)), 'src/uscxml/transform/ChartToPromela.cpp:%s' % src,
                      '%s_%s applied to %s (%s)' % (fam, op, ops, ['state-sized' if d == 'S' else 'transition-sized' for d in dims]))
    rep.minimum('R06.1', nmac, 30, 'STATES_/TRANS_ macro uses in the step writers')
    # loop variables
    nsub = 0
    for w, (f, t, ls) in per_writer.items():
        bound = {}
        for line, src in ls:
            m = re.search(r'::\s*([ijk])\s*<\s*(?:<\?>)?USCXML_NUMBER_(STATES|TRANS)', line)
            if m:
                bound[m.group(1)] = 'S' if m.group(2) == 'STATES' else 'T'
            m = re.search(r'\b([ijk])\s*=\s*(?:<\?>)?USCXML_NUMBER_(STATES|TRANS)\s*;', line)
            if m:
                bound[m.group(1)] = 'S' if m.group(2) == 'STATES' else 'T'
            m = re.search(r'\b([ijk])\s*=\s*[ijk]\s*\+\s*1\s*;', line)
            if m and re.search(r'\b%s\s*=\s*([ijk])\s*\+' % m.group(1), line).group(1) != m.group(1):
                bound[m.group(1)] = bound.get(re.search(r'=\s*([ijk])', line).group(1))      # j = i + 1 : same domain as i
            if 'printf' in line:
                continue
            for sm in re.finditer(r'((?:[A-Za-z_]+(?:\[[^\]]*\])?\.)?[A-Za-z_]+)\[([ijk])\]', line):
                arr, var = norm(sm.group(1)), sm.group(2)
                last = arr.split('.')[-1]
                d = 'S' if last in ('states',) or last in S_SIZED else 'T' if last in ('transitions',) or last in T_SIZED else None
                if d is None or var not in bound or bound[var] is None:
                    continue
                nsub += 1
                rep.check(bound[var] == d, 'R06.1', '%s|%s[%s]' % (w, arr, var), 'src/uscxml/transform/ChartToPromela.cpp:%s' % src,
                          '`%s[%s]`: a %s index (loop bounded by USCXML_NUMBER_%s) subscripts a %s array' % (arr, var, bound[var], 'STATES' if bound[var] == 'S' else 'TRANS', 'state-sized' if d == 'S' else 'transition-sized'))
    rep.minimum('R06.1', nsub, 25, 'subscripts with a bounded loop variable in the step writers')

    # ---- R06.2 / R06.4
    compare_siblings(rep, fb, 'R06.2', 'R06.4')

    # ---- R06.3
    wf = fb.fn('uscxml::ChartToPromela::writeFSM')
    order = [n['callee']['q'].split('::')[-1] for n in sorted((x for x in wf.walk() if x['k'] == 'CXXMemberCallExpr' and x.get('callee', {}).get('q', '').split('::')[-1] in PHASES),
                                                             key=lambda x: (x['loc'][1], x['loc'][2]))]
    rep.check(order == PHASES, 'R06.3', 'writeFSM|phase order', wf.where(), 'phase writers are called in the order %s' % [o.replace('writeFSM', '') for o in order])
    for w, direction in (('writeFSMExitStates', 'down'), ('writeFSMTakeTransitions', 'up'), ('writeFSMEnterStates', 'up')):
        f, t, ls = per_writer[w]
        first_init = None
        for line, src in ls:
            m = re.search(r'^\s*i\s*=\s*(.+?);', line)
            if m:
                first_init = (m.group(1).strip(), src)
                break
        if first_init is None:
            raise AnalysisBroken('%s: initialisation of the loop variable i not found' % w)
        steps = [re.search(r'\bi\s*=\s*i\s*([+-])\s*1', line).group(1) for line, src in ls if re.search(r'\bi\s*=\s*i\s*[+-]\s*1', line)]
        down = 'USCXML_NUMBER_STATES' in first_init[0] and steps and steps[0] == '-'
        up = first_init[0] == '0' and steps and steps[0] == '+'
        rep.check((direction == 'down' and down) or (direction == 'up' and up), 'R06.3', '%s|loop direction' % w, 'src/uscxml/transform/ChartToPromela.cpp:%s' % first_init[1],
                  'the loop starts at `%s` and steps `i = i %s 1` (expected: counting %s)' % (first_init[0], steps[0] if steps else '?', direction))

    # ---- R06.5 every closure loop that ORs the ancestors of the members of a set visits every member
    f, t, ls = per_writer['writeFSMEstablishEntrySet']
    hits = 0
    for idx, (line, src) in enumerate(ls):
        m_ = re.search(r'STATES_OR\(\s*ctx\.entry_set\s*,\s*states\[(\w+)\]\.ancestors\s*\)', line)
        if not m_:
            continue
        hits += 1
        # (a) no break inside the member's own branch
        brk = None
        for l2, s2 in ls[idx + 1: idx + 8]:
            if re.match(r'\s*}', l2):
                break
            if re.search(r'\bbreak\s*;', l2):
                brk = s2
        # (b) the else branch of the membership test that guards the OR: up to the `fi` that closes that `if`
        depth_if = 0
        else_break = None
        for l2, s2 in ls[idx + 1:]:
            st_ = l2.strip()
            if re.match(r'^if\b', st_):
                depth_if += 1
            elif re.match(r'^fi\b', st_):
                if depth_if == 0:
                    break
                depth_if -= 1
            elif depth_if == 0 and re.match(r'^::\s*else\s*->\s*break', st_):
                else_break = s2
        what = 'members of the set indexed by %s' % m_.group(1)
        rep.check(brk is None and else_break is None, 'R06.5', 'writeFSMEstablishEntrySet|ancestor closure at line %s' % src, 'src/uscxml/transform/ChartToPromela.cpp:%s' % (brk or else_break or src),
                  'the emitted loop that adds the ancestors of the %s %s' % (what, 'visits every member' if brk is None and else_break is None else
                  ('BREAKS after the first member' if brk else 'LEAVES THE LOOP at the first non-member (`:: else -> break`): members further on never get their ancestors (an <initial> transition to a grandchild enters the grandchild without its parent)')))
    rep.minimum('R06.5', hits, 2, 'ancestor closures in the Promela entry-set phase')
    # (c) deep completion is decided per member: the closure over `completion` is not switched on or off for the whole set by a test
    # "no member is a direct child" (an initial attribute may name a child and a deeper descendant; same clause as R02.11 / R04.9)
    whole = [(l_, s_) for l_, s_ in ls if re.search(r'!\s*STATES_HAS_AND\(\s*states\[\w+\]\.completion\s*,\s*states\[\w+\]\.children', l_)]
    rep.check(not whole, 'R06.5', 'writeFSMEstablishEntrySet|deep completion per member', 'src/uscxml/transform/ChartToPromela.cpp:%s' % (whole[0][1] if whole else ls[0][1]),
              'the ancestors of the completion members are added %s' % ('for each member that is not a direct child' if not whole else
              'only when NO member is a direct child (`!STATES_HAS_AND(completion, children)` around the loop): initial="C a" with a child C and a deeper a enters a without its parent'))

    # ---- R06.6
    from . import C12
    C12.trie_rules(rep, fb, 'R06.6', 'R06.6')
    C12.lookup_normalisation(rep, fb, 'R06.6', min_sites=1)
    from ..report import Renamed
    from . import C05
    C05.audit_rules(Renamed(rep, {'R05.10': 'R06.14'}), facts.FactBase(C05.TUS))
    # ---- R06.11 parallel completion is judged inside the entry loop, on the configuration as far as it has been entered
    f11, t11, ls11 = per_writer['writeFSMEnterStates']
    hit11 = [(l_, s_) for l_, s_ in ls11 if re.search(r'STATES_AND_NOT\(\s*ctx\.tmp_states\s*,\s*states\[\w+\]\.ancestors', l_)]
    reads_cfg = any(re.search(r'\bconfig\[\w+\]', l_) for l_, s_ in ls11)
    if not hit11:
        raise AnalysisBroken('writeFSMEnterStates: the parallel-completion check (STATES_AND_NOT on tmp_states) was not found')
    rep.check(not reads_cfg, 'R06.11', 'writeFSMEnterStates|done.state of a parallel', 'src/uscxml/transform/ChartToPromela.cpp:%s' % hit11[0][1],
              'the emitted check "all regions of the parallel are final" %s' % ('reads a complete configuration' if not reads_cfg else 'reads ctx.config inside the loop that is still entering states (same template as the generated C): regions later in document order do not count yet, done.state.<parallel> can be raised although a later region never becomes final'))
    # ---- R06.18 same block: an active final state stands for its parent only
    rep.rule('R06.18', 'done.state of a parallel is raised when every region is in a final state of its own: in the emitted check an active final state clears its parent, not all of its ancestors (same clause as C04 R04.18 / C03 R03.16)')
    rep.check(not hit11, 'R06.18', 'writeFSMEnterStates|a final child vouches for all its ancestors', 'src/uscxml/transform/ChartToPromela.cpp:%s' % (hit11[0][1] if hit11 else ls11[0][1]),
              'an active final state %s' % ('clears its parent only' if not hit11 else 'clears ALL its ancestors from ctx.tmp_states (STATES_AND_NOT(tmp_states, states[k].ancestors)): a final nested below a region\'s child finishes the region, done.state.<parallel> is queued although the region is in no final state of its own'))
    # ---- R06.10
    time_advances(rep, fb, 'R06.10')
    # ---- R06.9
    identifier_renames(rep, facts.FactBase(TUS + ['src/uscxml/transform/promela/PromelaCodeAnalyzer.cpp']), 'R06.9')
    # ---- R06.8
    queue_rotations(rep, fb, 'R06.8')
    # ---- R06.7
    unique_names(rep, facts.FactBase(TUS + ['src/uscxml/transform/promela/PromelaCodeAnalyzer.cpp']), 'R06.7')
    # ---- R06.12
    sendid_ranges(rep, fb, 'R06.12')
    # ---- R06.15 / R06.16
    embedded_expressions(rep, fb, 'R06.15')
    all_of_kind_tests(rep, fb, per_writer, 'R06.16')
    fba_ = facts.FactBase(TUS + ['src/uscxml/transform/promela/PromelaCodeAnalyzer.cpp'])
    state_ids_resolve(rep, fba_, 'R06.17')
    field_widths(rep, fba_, 'R06.19')
    done_for_every_compound(rep, fb, 'R06.20')


def sendid_ranges(rep, fb, rule='R06.12'):
    """generated send ids (idlocation) and literal send ids (index of the literal) are compared by number in the emitted cancel: the
    counter of generated ids must start, and restart after a wrap, from a value derived from the literal indices"""
    rep.rule(rule, 'a <cancel> removes the event it names: in the emitted model a literal send id is the index of its literal and a generated one (idlocation) a counter value, compared by number - the counter is initialised and re-initialised from the largest literal index, never from a constant')
    sites = []      # (function, literal node, rhs token)
    defines = {}    # macro -> (function, statement root)
    for f in fb.funcs.values():
        if not f.q.startswith('uscxml::ChartToPromela::'):
            continue
        for n in f.walk():
            if n['k'] != 'StringLiteral' or not isinstance(n.get('str'), str):
                continue
            for m in re.finditer(r'_lastSendId\s*=\s*(-?\w+)\s*([;+-]?)', n['str']):
                if m.group(1) == '_lastSendId':
                    continue
                sites.append((f, n, m.group(1)))
            m = re.search(r'#define\s+(\w+)\s*$', n['str'])
            if m:
                top = n
                for a in f.ancestors(n):
                    if a['k'] in ('CXXOperatorCallExpr', 'CXXMemberCallExpr', 'CallExpr') or a['k'] in facts.TRANSPARENT:
                        top = a
                    else:
                        break
                defines[m.group(1)] = (f, top)
    rep.minimum(rule, len(sites), 2, 'emitted assignments of a start value to _lastSendId (declaration and wrap-around)')
    for f, n, rhs in sites:
        if re.fullmatch(r'-?\d+', rhs):
            rep.fail(rule, '%s|_lastSendId = %s' % (f.q.split('::')[-1], rhs), locstr(n),
                     'the counter of generated send ids is set to the constant %s: the ids 1, 2, 3.. it hands out are also indices of literals, so <cancel sendidexpr> of a generated id removes the event sent with a literal id of the same number (and the reverse)' % rhs)
            continue
        d = defines.get(rhs)
        if d is None:
            rep.fail(rule, '%s|_lastSendId = %s' % (f.q.split('::')[-1], rhs), locstr(n), 'the start value %s of the generated send ids is not defined by the writer' % rhs)
            continue
        df, top = d
        # the value streamed after `#define M ` depends on the literal indices: data dependence through the locals of the writer
        SRC = ('::indexForLiteral', '::getLiterals')
        tainted = set()
        changed = True
        while changed:
            changed = False
            def dirty(e_):
                return any(y.get('callee', {}).get('q', '').endswith(SRC) or (y['k'] == 'DeclRefExpr' and y.get('ref', {}).get('lid') in tainted) for y in sub(e_))
            for s_ in df.walk():
                if s_['k'] == 'DeclStmt':
                    for d_ in s_.get('decls', []):
                        if 'lid' in d_ and d_['lid'] not in tainted and isinstance(d_.get('init'), dict) and dirty(d_['init']):
                            tainted.add(d_['lid'])
                            changed = True
                if s_['k'] in ('BinaryOperator', 'CompoundAssignOperator', 'CXXOperatorCallExpr') and (s_.get('op') or '').endswith('=') and s_.get('op') not in ('==', '!=', '<=', '>=') and len(s_.get('c', [])) >= 2:
                    lhs_, rhs_ = s_['c'][-2], s_['c'][-1]
                    for y in sub(lhs_):
                        if y['k'] == 'DeclRefExpr' and 'lid' in y.get('ref', {}) and y['ref']['lid'] not in tainted and dirty(rhs_):
                            tainted.add(y['ref']['lid'])
                            changed = True
        dep = any(y.get('callee', {}).get('q', '').endswith(SRC) or (y['k'] == 'DeclRefExpr' and y.get('ref', {}).get('lid') in tainted) for y in sub(top))
        rep.check(dep, rule, '%s|_lastSendId = %s' % (f.q.split('::')[-1], rhs), locstr(n), 'the start value %s %s' % (
            rhs, 'is computed from the indices of the literals' if dep else 'does NOT depend on the indices of the literals'))


def embedded_expressions(rep, fb, rule='R06.15'):
    """a chart expression written into a larger emitted expression is parenthesised"""
    rep.rule(rule, 'the text of a chart expression keeps its meaning in the emitted model: where the writer appends an adapted chart expression (cond, expr) to an emitted operator, it is wrapped in parentheses - `x && a == 1 || b == 1` is not `x && (a == 1 || b == 1)`')
    OPS = ('&&', '||', '==', '!=', '<=', '>=', '+', '-', '*', '/', '%', '<', '>', '!')
    n_sites = 0
    n_seen = 0
    for f in fb.funcs.values():
        if not f.q.startswith('uscxml::ChartToPromela::'):
            continue
        for n in f.walk():
            if n['k'] != 'CXXOperatorCallExpr' or n.get('op') != '<<':
                continue
            par = f.parent(n)
            while par is not None and par['k'] in facts.TRANSPARENT:
                par = f.parent(par)
            if par is not None and par['k'] == 'CXXOperatorCallExpr' and par.get('op') == '<<' and strip(par['c'][1]) is n:
                continue     # not the top of the chain
            ops = []
            tpl.flatten(n, ops)
            for k, o in enumerate(ops):
                if not any(y.get('callee', {}).get('q', '').endswith('::adaptCode') for y in sub(o)):
                    continue
                n_seen += 1
                prev = ops[k - 1] if k > 0 else None
                pl = prev.get('str') if prev is not None and prev['k'] == 'StringLiteral' else None
                if pl is None:
                    continue
                tail = pl.rstrip()
                if tail.endswith('(') or not tail.endswith(OPS):
                    continue      # already opened, or not an operand position (assignment, argument, start of a statement)
                if tail.endswith('=') and not tail.endswith(('==', '!=', '<=', '>=')):
                    continue
                n_sites += 1
                rep.fail(rule, '%s|%s' % (f.q.split('::')[-1], ' '.join(tail.split())[-12:]), locstr(o),
                         'the chart expression `%s` is appended to the emitted operator `%s` without parentheses: a cond "a == 1 || b == 1" turns the guard into (i == n && event matches && a == 1) || b == 1, true for every event and every transition index' % (
                             ' '.join(fb.text(o).split())[:60], tail[-4:].strip()))
    rep.minimum(rule, n_seen, 8, 'adapted chart expressions written into the model by ChartToPromela')
    rep.ok(rule, 'writers', '%d adapted chart expressions examined, in operand position without parentheses: %d' % (n_seen, n_sites))


def all_of_kind_tests(rep, fbc, ls_by_writer, rule='R06.16'):
    """where the C template asks for ALL of several type bits (`type == (A | B)`), the Promela guard naming the same bits of one state joins
    them with && (a bit array has no mask comparison)"""
    rep.rule(rule, 'kind tests ask the same question in both templates: a test for all of several type bits in the emitted C (`type == (A | B)`, like FastMicroStep) is a conjunction of those bits in the emitted Promela, not a disjunction (shallow history over a child with a history of its own)')
    pairs = set()
    for f in fbc.funcs.values():
        if f.q.startswith('uscxml::ChartToC::'):
            for n in f.walk():
                if n['k'] == 'StringLiteral' and isinstance(n.get('str'), str):
                    for m in re.finditer(r'\.type\s*==\s*\(\s*(USCXML_STATE_\w+)\s*\|\s*(USCXML_STATE_\w+)\s*\)', n['str']):
                        pairs.add(frozenset(m.groups()))
    rep.minimum(rule, len(pairs), 1, '`type == (A | B)` tests in the C template')
    found = 0
    for w, (f, t, ls) in ls_by_writer.items():
        for idx in range(len(ls) - 1):
            two = ls[idx][0].rstrip() + ' ' + ls[idx + 1][0].strip()
            for pr in pairs:
                a, b = sorted(pr)
                m = re.search(r'states\[(\w+)\]\.type\[(%s|%s)\]\s*(&&|\|\|)\s*states\[(\w+)\]\.type\[(%s|%s)\]' % (a, b, a, b), two)
                if not m or m.group(1) != m.group(4) or m.group(2) == m.group(5):
                    continue
                found += 1
                rep.check(m.group(3) == '&&', rule, '%s|%s' % (w, '+'.join(x[13:] for x in (a, b))), 'src/uscxml/transform/ChartToPromela.cpp:%s' % ls[idx][1],
                          'the emitted guard joins %s and %s of one state with `%s`; the C template and the fast engine ask for both%s' % (a[13:], b[13:], m.group(3),
                          '' if m.group(3) == '&&' else ': with || the nested-history block also runs for a SHALLOW history whose restored child has a history of its own, and that child is re-entered from its record instead of its default'))
    rep.minimum(rule, found, 1, 'Promela guards naming both bits of such a pair on one state')


def state_ids_resolve(rep, fb, rule='R06.17'):
    """In() is written config[<state id>] in chart expressions; adaptCode only prefixes identifiers, the state index macros are upper-cased
    and mangled: the id as written needs a definition of its own and must not be declared as a variable"""
    rep.rule(rule, 'a state named in a chart expression is that state: identifiers of adapted code are prefixed as written while the index macro of a state is the mangled, upper-cased id, so the writer defines the index under the id as written too (or adaptCode maps state ids to their macro) and does not declare a state id as an implicit variable (an undeclared `hidden int` reads as 0, the root, which is always active)')
    ws = fb.fn('uscxml::ChartToPromela::writeStrings')
    ac = fb.fn('uscxml::PromelaCodeAnalyzer::adaptCode', required=False)
    maps_in_adapt = ac is not None and any(y.get('callee', {}).get('q', '').endswith(('::macroForLiteral', '::createMacroName')) for y in ac.walk())
    mangled = plain = 0
    for n in ws.walk():
        if n['k'] != 'CXXOperatorCallExpr' or n.get('op') != '<<':
            continue
        par = ws.parent(n)
        while par is not None and par['k'] in facts.TRANSPARENT:
            par = ws.parent(par)
        if par is not None and par['k'] == 'CXXOperatorCallExpr' and par.get('op') == '<<' and strip(par['c'][1]) is n:
            continue
        ops = []
        tpl.flatten(n, ops)
        if not ops or not any(o['k'] == 'StringLiteral' and (o.get('str') or '').startswith('#define') for o in ops[:2]):
            continue
        if not any(a['k'] in ('ForStmt', 'CXXForRangeStmt') and any(y['k'] == 'MemberExpr' and y.get('ref', {}).get('name') == '_states' for y in sub(a)) for a in ws.ancestors(n)):
            continue
        name_ops = [o for o in ops[1:4] if o['k'] != 'StringLiteral' and not (o['k'] == 'MemberExpr' and o.get('ref', {}).get('name') == '_prefix')]
        if not name_ops:
            continue
        o = name_ops[0]
        defs = {d_['lid']: d_.get('init') for s_ in ws.walk() if s_['k'] == 'DeclStmt' for d_ in s_.get('decls', []) if 'lid' in d_}
        nodes = list(sub(o))
        for y in list(nodes):
            if y['k'] == 'DeclRefExpr' and y.get('ref', {}).get('lid') in defs and isinstance(defs[y['ref']['lid']], dict):
                nodes += list(sub(defs[y['ref']['lid']]))
        if any(y.get('callee', {}).get('q', '').endswith('::macroForLiteral') for y in nodes):
            mangled += 1
        else:
            plain += 1
    rep.minimum(rule, mangled, 1, 'definitions of a state index under the mangled id in writeStrings')
    rep.check(plain > 0 or maps_in_adapt, rule, 'writeStrings|state id as written', ws.where(), 'the index of a state is defined under its mangled macro name (%d site) and %s' % (
        mangled, 'under the id as written as well' if plain else ('adaptCode maps state ids' if maps_in_adapt else
        'NOT under the id as written, and adaptCode does not map it: cond="config[b2]" becomes ROOT_config[ROOT_b2] with an implicit `hidden int ROOT_b2` = 0 - the root, always active - unless the id happens to be upper case')))
    wv = fb.fn('uscxml::ChartToPromela::writeVariables')
    # the loop that writes the implicit declarations (`hidden <type> <name>;` for identifiers found in the code)
    decl_loops = [lp for lp in wv.walk() if lp['k'] in ('ForStmt', 'WhileStmt', 'CXXForRangeStmt') and any(
        y['k'] == 'StringLiteral' and (y.get('str') or '').startswith('hidden ') for y in sub(lp['c'][-1] or {})) and any(
        y.get('callee', {}).get('q', '').endswith('::declForRange') for y in sub(lp['c'][-1] or {}))]
    if not decl_loops:
        raise AnalysisBroken('writeVariables: the loop that declares implicit variables was not found')
    skips = [lp for lp in decl_loops if any(y['k'] == 'MemberExpr' and y.get('ref', {}).get('name') == '_states' for y in sub(lp['c'][-1]))]
    rep.check(bool(skips) or maps_in_adapt, rule, 'writeVariables|state ids are no variables', wv.where(), 'the loop that declares implicit variables %s' % (
        'looks the identifier up among the state ids' if skips else 'never looks at the state ids: a state id used in config[..] is declared `hidden int`'))


def field_widths(rep, fba, rule='R06.19'):
    """the width of the delay field of the emitted event type is taken from the literal delay attributes; the expression form is only
    known at run time and must widen the field"""
    rep.rule(rule, 'the emitted event fields hold every value written into them: the range of the `delay` field, computed from literal delay attributes, is widened when a send carries a delayexpr (a byte field silently truncates 300 to 44 and reorders the delayed events)')
    an = fba.fn('uscxml::PromelaCodeAnalyzer::analyze', required=False)
    if an is None:
        an = next((f_ for f_ in fba.funcs.values() if f_.q.startswith('uscxml::PromelaCodeAnalyzer::') and any(
            y['k'] == 'MemberExpr' and y.get('ref', {}).get('name') == 'largestDelay' for y in f_.walk())), None)
    if an is None:
        raise AnalysisBroken('the function of PromelaCodeAnalyzer that computes largestDelay was not found')
    writes = [n for n in an.walk() if n['k'] in ('BinaryOperator', 'CXXOperatorCallExpr') and n.get('op') == '=' and any(
        y['k'] == 'MemberExpr' and y.get('ref', {}).get('name') == 'largestDelay' for y in sub(n['c'][-2]))]
    rep.minimum(rule, len(writes), 1, 'assignments to largestDelay')
    binit = {d_['lid']: d_['init'] for s_ in an.walk() if s_['k'] == 'DeclStmt' for d_ in s_.get('decls', []) if 'lid' in d_ and isinstance(d_.get('init'), dict)}

    def names(c, depth=0):
        out = {y.get('ref', {}).get('name') for y in sub(c)}
        if depth < 3:
            for y in sub(c):
                if y['k'] == 'DeclRefExpr' and y.get('ref', {}).get('lid') in binit:
                    out |= names(binit[y['ref']['lid']], depth + 1)      # `const bool hasDelayExpr = HAS_ATTR(send, delayexpr)`
        return out
    widened = False
    for w in writes:
        for a in an.ancestors(w):
            if a['k'] == 'IfStmt' and 'kXMLCharDelayExpr' in names(a['c'][0]) and 'kXMLCharDelay' not in names(a['c'][0]):
                widened = True
    rep.check(widened, rule, 'PromelaCodeAnalyzer|delay field', locstr(writes[0]) if writes else an.where(), 'largestDelay, which sizes the delay field of _event_t, %s' % (
        'is raised for a send with a delayexpr' if widened else 'is computed from literal delay attributes only: next to delay="250" the field is a byte and a delayexpr="300" is stored as 44'))


def done_for_every_compound(rep, fb, rule='R06.20'):
    """entering a final child raises done.state for its parent whether or not the author gave the parent an id"""
    rep.rule(rule, 'the same done events as the interpreter: the writer of the enter-states phase raises done.state.<parent> for every final child of a compound state; it does not skip parents without an id attribute (the interpreter gives such a state a generated id and raises the event, which event="done.state" and event="*" match)')
    f = fb.fn('uscxml::ChartToPromela::writeFSMEnterStates')
    skips = []
    for n in f.walk():
        if n['k'] != 'IfStmt' or n['c'][1] is None:
            continue
        c = n['c'][0]
        negated = any(y['k'] == 'UnaryOperator' and y.get('op') == '!' for y in sub(c))
        if negated and any(y.get('ref', {}).get('name') == 'kXMLCharId' for y in sub(c)) and any(y['k'] == 'ContinueStmt' for y in sub(n['c'][1])) and any(
                y.get('ref', {}).get('name') == 'parent' or y.get('callee', {}).get('q', '').endswith('getParentNode') for y in sub(c)):
            skips.append(n)
    raises = [n for n in f.walk() if n['k'] == 'StringLiteral' and (n.get('str') or '').startswith('done.state.')]
    rep.minimum(rule, len(raises), 1, 'done.state literals in writeFSMEnterStates')
    rep.check(not skips, rule, 'writeFSMEnterStates|parent without id', locstr(skips[0]) if skips else f.where(), 'a final child of a compound state without id %s' % (
        'raises its done event like any other' if not skips else 'is SKIPPED (`if (!HAS_ATTR(parent, id)) continue;`): the model raises no done.state event where the interpreter raises done.state.<generated id>'))
