"""C10 - interpreter life-cycle is well defined and always terminates (DESIGN 4/C10)."""
from .. import facts, lock, path, cfg as cfgm, tab
from ..facts import AnalysisBroken, strip, sub, locstr
from . import _conc
from .C13 import step_events, fl as flstr

ENGINES = ('uscxml::LargeMicroStep::step', 'uscxml::FastMicroStep::step')
FACADES = ('uscxml::MicroStep', 'uscxml::EventQueue', 'uscxml::DelayedEventQueue', 'uscxml::DataModel', 'uscxml::ContentExecutor')
MUTATING = {'insert', 'erase', 'clear', 'reset', 'push_back', 'pop_back', 'pop_front', 'push_front', 'reserve', 'resize', 'operator=', 'operator|=',
            'operator&=', 'set', 'flip', 'swap', 'emplace', 'emplace_back', 'assign', 'merge'}
STICKY = {'event_base_loopexit', 'event_active', 'event_add'}
NON_STICKY = {'event_base_loopbreak'}

# shared fields without a lock, confirmed by reading, each with the consequence it has (R10.6)
UNPROTECTED_OK = {
    ('uscxml::BasicDelayedEventQueue', '_isStarted'): 'plain bool written by stop()/serialize() and read by the timer thread; harmless once the waker is sticky (R10.5)',
    ('uscxml::BasicDelayedEventQueue', '_thread'): 'only touched by the owner thread (start/stop/serialize)',
    ('uscxml::LargeMicroStep', '_isCancelled'): 'plain bool set by cancel(); read by the stepping thread after it was woken through the queue mutex',
    ('uscxml::FastMicroStep', '_isCancelled'): 'same as LargeMicroStep',
    ('uscxml::USCXMLInvoker', '_isActive'): 'plain bool gate; see C11',
    ('uscxml::USCXMLInvoker', '_isStarted'): 'plain bool; see C11',
    ('uscxml::USCXMLInvoker', '_thread'): 'only touched by the parent thread (start/stop)',
    ('uscxml::USCXMLInvoker', '_invokedInterpreter'): 'handle assigned in invoke()/deserialize() before the thread is started and only read afterwards (ordering checked under R10.6)',
}


def written_members(f, rec):
    """members of `rec` (accessed on this) that function f mutates"""
    out = {}
    for n in f.walk():
        if n['k'] == 'MemberExpr' and n.get('ref', {}).get('rec') == rec and n['ref'].get('dk') == 'Field':
            p = f.parent(n)
            hops = 0
            name = n['ref']['name']
            via_pointee = False
            prev = n
            while p is not None and hops < 5:
                k = p['k']
                if (k == 'MemberExpr' and p.get('ref', {}).get('dk') == 'Field') or (k == 'UnaryOperator' and p.get('op') == '*'):
                    via_pointee = True      # writes an element's own field, not the member container
                if via_pointee and k in ('BinaryOperator', 'CompoundAssignOperator', 'CXXMemberCallExpr', 'CXXOperatorCallExpr', 'UnaryOperator') and not (k == 'UnaryOperator' and p.get('op') == '*'):
                    if not (k == 'CXXOperatorCallExpr' and p.get('op') in ('[]', '*', '->')):
                        break
                if k in ('BinaryOperator', 'CompoundAssignOperator') and p.get('op') in ('=', '|=', '&=', '+=', '-=', '^=') and any(x is n for x in sub(p['c'][0])):
                    out.setdefault(name, n)
                    break
                if k == 'UnaryOperator' and p.get('op') in ('++', '--'):
                    out.setdefault(name, n)
                    break
                if k == 'CXXOperatorCallExpr' and p.get('op') in ('[]',):
                    p = f.parent(p)
                    hops += 1
                    continue
                if k in ('CXXMemberCallExpr', 'CXXOperatorCallExpr') and p.get('callee'):
                    m = p['callee']['q'].split('::')[-1]
                    recv = p['c'][0] if k == 'CXXMemberCallExpr' else (p['c'][1] if len(p['c']) > 1 else None)
                    if m in MUTATING and recv is not None and any(x is n for x in sub(recv)):
                        out.setdefault(name, n)
                    break
                if k not in ('MemberExpr', 'ImplicitCastExpr', 'ParenExpr', 'ArraySubscriptExpr', 'MaterializeTemporaryExpr', 'CXXBindTemporaryExpr') and not (k == 'CXXOperatorCallExpr' and p.get('op') in ('[]', '*', '->')):
                    break
                p = f.parent(p)
                hops += 1
    return out


def reset_coverage(rep, fb, rule, only=None):
    """every member of the engines that is run state (written by step() or another mutator and read by step()) is re-initialised
    by reset(); `only` restricts the reported members (C02 shares the rule for configuration and history)"""
    for eq in ENGINES:
        f = fb.fn(eq)
        cls = f.rec
        eng = cls.split('::')[-1]
        wr = written_members(f, cls)
        rs = fb.fn(cls + '::reset')
        rwr = written_members(rs, cls)
        # scratch: cleared at the top of step (the clear dominates every other use)
        g = cfgm.CFG(f)
        dom = g.dominators()
        scratch = set()
        for name, first in wr.items():
            clears = [n for n in f.walk() if n['k'] == 'CXXMemberCallExpr' and n['callee']['q'].split('::')[-1] in ('clear', 'reset') and n.get('c') and any(
                x['k'] == 'MemberExpr' and x['ref'].get('name') == name for x in sub(n['c'][0]))]
            uses = [n for n in f.walk() if n['k'] == 'MemberExpr' and n['ref'].get('name') == name and n['ref'].get('rec') == cls]
            for cl in clears:
                if all(any(x is u for x in sub(cl)) or g.dominates(cl['id'], u['id'], dom) or u['id'] not in g.pos and _enclosing_pos(f, g, u) and g.dominates(cl['id'], _enclosing_pos(f, g, u), dom) for u in uses):
                    scratch.add(name)
        exempt = {'_event': 'assigned from the dequeue callbacks before it is read in every step',
                  '_isInitialized': 'set by init(); a reset engine is re-initialised through InterpreterImpl::init',
                  '_exitSets': 'lazily filled cache that is a function of the document only',
                  '_exitSetCache': 'lazily filled cache that is a function of the document only'}
        # run state that other mutators of the engine write and step() reads (e.g. the cancel request)
        read_by_step = {n['ref'].get('name') for n in f.walk() if n['k'] == 'MemberExpr' and n['ref'].get('rec') == cls}
        for m in [f_ for f_ in fb.funcs.values() if f_.rec == cls]:
            mname = m.q.split('::')[-1]
            if m is f or mname in ('reset', 'init', 'deserialize', eng, '~' + eng) or mname.startswith('operator'):
                continue
            for name, node in written_members(m, cls).items():
                if name in read_by_step and name not in wr:
                    wr[name] = node
        persistent = sorted(set(wr) - scratch - set(exempt))
        rep.minimum(rule, len(persistent), 5, 'persistent run-state members of ' + eng)
        for name in [x for x in persistent if only is None or x in only]:
            rep.check(name in rwr, rule, '%s|%s' % (eng, name), locstr(wr[name]), 'member %s is run state (written by step() or another mutator, read by step()) and %s by reset()' % (name, 're-initialised' if name in rwr else 'NOT re-initialised'))
        rep.sample({'engine': eng, 'persistent': persistent, 'scratch_cleared_at_top': sorted(scratch), 'reset_writes': sorted(rwr)})


def timer_joined_before_members(rep, fb, rule):
    """the timer thread delivers into the interpreter (eventReady); the destructor must be rid of the queue - whose destructor joins
    the thread - before the members eventReady uses go away (shared by C10 R10.5 and C09 R09.9)"""
    impl = 'uscxml::InterpreterImpl'
    di = fb.fn(impl + '::~InterpreterImpl')
    er = fb.fn(impl + '::eventReady')
    fields = [fd['name'] for fd in fb.records[impl]['fields']]
    used = sorted({n['ref'].get('name') for n in er.walk() if n['k'] == 'MemberExpr' and n['ref'].get('rec') == impl and n['ref'].get('name') in fields} - {'_delayQueue'})
    if not used or '_delayQueue' not in fields:
        raise AnalysisBroken('eventReady: members used on the timer thread / field _delayQueue not found')
    # members are destroyed in reverse declaration order: those declared AFTER _delayQueue die before it
    after = [m for m in used if fields.index(m) > fields.index('_delayQueue')]
    drops = [n for n in di.walk() if n['k'] == 'CXXOperatorCallExpr' and n.get('op') == '=' and len(n.get('c', [])) > 2 and strip(n['c'][1])['k'] == 'MemberExpr'
             and strip(n['c'][1])['ref'].get('name') == '_delayQueue' and strip(n['c'][1])['ref'].get('rec') == impl]
    dele = [n for n in di.walk() if n['k'] == 'CXXDeleteExpr']
    gd = cfgm.CFG(di)
    early = bool(drops) and all(gd.can_reach(gd.pos[x['id']], [drops[0]['id']]) is None for x in dele if x['id'] in gd.pos and drops[0]['id'] in gd.pos)
    ok = not after or early
    rep.check(ok, rule, '~InterpreterImpl|timer joined before members', locstr(drops[0]) if drops else di.where(),
              'eventReady() runs on the timer thread and uses %s; %s' % (', '.join(used), 'the destructor lets go of _delayQueue (joining the thread) before it deletes anything' if early else
              ('these are declared before _delayQueue and outlive it' if not after else
               '%s are destroyed BEFORE _delayQueue, whose destructor is what joins the timer thread, and the destructor body does not let go of the queue first: a delivery in flight (timerCallback has already erased its entry, so cancelAllDelayed finds nothing) runs into freed members' % ', '.join(after))))


def run(rep, tier):
    rep.rule('R10.1', 'life-cycle automaton from the exact _flags relation of both engines: FINISHED absorbing; CANCELLED only under the cancel mark and sets TOP_LEVEL_FINAL; TOP_LEVEL_FINAL is followed by exactly one finalising step (completion bracket, exit handlers, FINISHED set); IDLE only when STABLE; PRISTINE leads to the initial micro-step; InterpreterImpl::step returns INITIALIZED once without delegating')
    rep.rule('R10.2', 'API safe before the first step: in receive/cancel/reset/destructor every use of a facade handle that init() creates is guarded by the handle test or preceded by init() / on-demand creation on every path')
    rep.rule('R10.3', 'reset covers the run state: every member the engines\' step() mutates across steps is re-initialised by reset() (scratch cleared at the top of step() and the current event excepted); every queue/stepper handle of InterpreterImpl is reset')
    rep.rule('R10.4', 'cancel protocol: the cancel mark is set before the unblocking event is enqueued; the step that dequeues no external event reaches the cancel test before returning')
    rep.rule('R10.5', 'bounded teardown: a thread root of the form while(flag) dispatch() is woken with a sticky primitive after the flag is cleared; no join under a lock the joined thread takes (lock-order cycles through T(root)); destructors stop users before freeing what they use')
    rep.rule('R10.7', 'cancel() leads to finished whatever the chart does: in both engines every start of a microstep (the spontaneous branch and the dequeue from the internal queue) is only reached past a test of _isCancelled, not just the point where the external queue ran empty')
    rep.rule('R10.6', 'shared fields: every field of the anchored classes that is written and reachable from two thread roots is accessed under one common mutex, or is in the confirmed table of unprotected flags')
    rep.assume('"a reset interpreter behaves like a fresh one" beyond the coverage of R10.3 is not decided')
    c = _conc.Conc()
    fb, la = c.fb, c.la
    rep.covered(tus=len(fb.tus), extracted=fb.extracted, functions=len(fb.funcs), lock_order_edges=len(c.lo.edges))

    # ---- R10.1
    FIN, TLF, STABLE, SPONT, INIT = 16, 4, 32, 1, 2
    for eq in ENGINES:
        f = fb.fn(eq)
        eng = eq.split('::')[1]
        g = path.EHCFG(f)
        defs = path.local_defs(f)
        ev, _ = step_events(fb, f, g, defs)
        keep = {nid: lab for nid, lab in ev.items() if lab in ('M:beforeCompletion', 'M:afterCompletion', 'M:beforeMicroStep', 'P:onExit', 'I:uninvoke', 'CFG:insert')}
        canc = [n for n in f.walk() if n['k'] == 'MemberExpr' and n.get('ref', {}).get('name') == '_isCancelled']
        for n in canc:
            keep[n['id']] = 'T:isCancelled'
        fi = path.FlagInterp(f, lambda n: strip(n) is not None and strip(n)['k'] == 'MemberExpr' and strip(n)['ref'].get('name') == '_flags')

        def retlab(n):
            r = strip(n['c'][0]) if n.get('c') else None
            return r['ref']['name'] if r and 'ref' in r else '?'
        rel, explored = fi.relation(g, keep, range(64), ret_label=retlab)
        reach = {0}
        work = [0]
        while work:
            x = work.pop()
            for ret, out, evs in rel[x]:
                if out not in reach:
                    reach.add(out)
                    work.append(out)
        rep.covered(**{eng + '_flag_states_explored': explored, eng + '_reachable_flags': sorted(flstr(x) for x in reach)})
        bad = {}
        rets = set()
        for init in sorted(reach):
            for ret, out, evs in rel[init]:
                if ret == 'USCXML_INITIALIZED':
                    continue
                rets.add(ret)
                if init & FIN and (ret != 'USCXML_FINISHED' or out != init or evs):
                    bad.setdefault('FINISHED-not-absorbing', []).append((init, ret, out, evs))
                if not init & FIN and out & FIN and not (init & TLF):
                    bad.setdefault('FINISHED-without-TOP_LEVEL_FINAL', []).append((init, ret, out, evs))
                if init & TLF and not init & FIN:
                    if ret != 'USCXML_FINISHED' or not out & FIN or 'M:beforeCompletion' not in evs or 'M:afterCompletion' not in evs:
                        bad.setdefault('finalising-step-incomplete', []).append((init, ret, out, evs))
                if ret == 'USCXML_CANCELLED' and (not out & TLF or 'T:isCancelled' not in evs):
                    bad.setdefault('CANCELLED-without-mark-or-TLF', []).append((init, ret, out, evs))
                if ret == 'USCXML_IDLE' and not (init & STABLE and out & STABLE):
                    bad.setdefault('IDLE-while-not-stable', []).append((init, ret, out, evs))
                if init == 0 and not ('M:beforeMicroStep' in evs and out & INIT):
                    bad.setdefault('PRISTINE-does-not-enter-initial-configuration', []).append((init, ret, out, evs))
                if ret == 'USCXML_FINISHED' and not out & FIN:
                    bad.setdefault('FINISHED-returned-without-flag', []).append((init, ret, out, evs))
        for k, lst in sorted(bad.items()):
            b = lst[0]
            rep.fail('R10.1', '%s|%s' % (eng, k), f.where(), '%s: from %s step() returns %s with %s after %s (%d tuples)' % (k, flstr(b[0]), b[1], flstr(b[2]), sorted(b[3]), len(lst)))
        if not bad:
            rep.ok('R10.1', eng, '%d reachable flag values, return codes %s: all life-cycle clauses hold on the exact relation' % (len(reach), sorted(r for r in rets if r)))
        expected = {'USCXML_FINISHED', 'USCXML_MICROSTEPPED', 'USCXML_MACROSTEPPED', 'USCXML_IDLE', 'USCXML_CANCELLED'}
        rep.check(expected <= rets, 'R10.1', eng + '|return-codes', f.where(), 'step() can return %s' % sorted(r for r in rets if r))
        # nothing but reset()/deserialize()/init clears FINISHED: writers of _flags outside step()
        cls = f.rec
        for f2 in fb.funcs.values():
            if f2.rec == cls and f2 is not f and '_flags' in written_members(f2, cls):
                rep.check(f2.q.split('::')[-1] in ('reset', 'deserialize', cls.split('::')[-1], 'init'), 'R10.1', '%s|_flags written in %s' % (eng, f2.q.split('::')[-1]), f2.where(), '_flags is written by %s' % f2.q)
    ist = fb.fn('uscxml::InterpreterImpl::step')
    gi = cfgm.CFG(ist)
    initc = [n for n in ist.walk() if n.get('callee', {}).get('q') == 'uscxml::InterpreterImpl::init']
    stepc = [n for n in ist.walk() if n.get('callee', {}).get('q') == 'uscxml::MicroStep::step']
    exclusive = initc and stepc and gi.can_reach(gi.pos[initc[0]['id']], [stepc[0]['id']]) is None and gi.can_reach(gi.pos[stepc[0]['id']], [initc[0]['id']]) is None
    rep.check(bool(exclusive), 'R10.1', 'InterpreterImpl::step|init-xor-delegate', ist.where(), 'first call initialises and returns INITIALIZED without delegating; later calls delegate: %s' % bool(exclusive))

    # ---- R10.2
    impl = 'uscxml::InterpreterImpl'
    handles = {fd['name'] for fd in fb.records[impl]['fields'] if fd['t'].replace('class ', '') in FACADES or fd['t'] in [x.split('::')[-1] for x in FACADES]}
    rep.minimum('R10.2', len(handles), 5, 'facade handles in InterpreterImpl')
    rcv0 = fb.fn('uscxml::Interpreter::receive')
    fwd0 = [n['callee']['q'] for n in rcv0.walk() if n.get('callee') and n['callee']['q'].startswith('uscxml::InterpreterImpl::')]
    if not fwd0:
        raise AnalysisBroken('Interpreter::receive does not forward to InterpreterImpl')
    entries = [fwd0[0], 'uscxml::InterpreterImpl::cancel', 'uscxml::InterpreterImpl::reset', 'uscxml::InterpreterImpl::~InterpreterImpl']
    # a handle the constructor creates is never null
    ctor_made = set()
    for f_ in fb.funcs.values():
        if f_.q == 'uscxml::InterpreterImpl::InterpreterImpl':
            for x in f_.walk():
                if x['k'] == 'CXXOperatorCallExpr' and x.get('op') == '=' and x.get('c') and len(x['c']) > 1:
                    ctor_made |= {y['ref'].get('name') for y in sub(x['c'][1]) if y['k'] == 'MemberExpr'} & handles
            for i_ in f_.d.get('inits', []):
                if i_.get('field') in handles and isinstance(i_.get('init'), dict) and any(y['k'] == 'CXXNewExpr' for y in sub(i_['init'])):
                    ctor_made.add(i_['field'])
    from .C08 import edge_dominates

    def guarded_at(f, g, dom, tb, h):
        """is block tb of f only reached with handle h known non-null (true edge of its test, or after `if (!h) { create / init }`)"""
        for bid, b in g.blocks.items():
            cnd = b.get('cond')
            if cnd is None or cnd not in f.nodes:
                continue
            cn = strip(f.nodes[cnd])
            neg = False
            while cn['k'] == 'UnaryOperator' and cn.get('op') == '!':
                neg = not neg
                cn = strip(cn['c'][0])
            tests = cn['k'] == 'CXXMemberCallExpr' and cn['callee']['q'].split('::')[-1].startswith('operator bool') and any(
                x['k'] == 'MemberExpr' and x['ref'].get('name') == h for x in sub(cn))
            if not tests:
                continue
            if not neg and edge_dominates(g, bid, True, tb):
                return True
            if neg and edge_dominates(g, bid, False, tb):
                return True      # guard clause: `if (!H) return; H.use()`
            if neg:
                # if (!H) { create / init }  : the use is after the join and the then-branch assigns H or calls init()
                then_blocks = [s_ for s_, lab in g.succ_labeled(bid) if lab is True]
                creates = False
                for tbk in then_blocks:
                    for bb in g.reachable_blocks(tbk):
                        for el in g.blocks[bb]['el']:
                            x = f.nodes.get(el)
                            if not x:
                                continue
                            if x.get('callee', {}).get('q') == 'uscxml::InterpreterImpl::init':
                                creates = True
                            if x['k'] == 'CXXOperatorCallExpr' and x.get('op') == '=' and any(y['k'] == 'MemberExpr' and y['ref'].get('name') == h for y in sub(x['c'][1])):
                                creates = True
                if creates and bid in dom.get(tb, ()):
                    return True
        return False

    def handle_uses(f):
        """(call node, handle, method) for every use of a facade handle in f"""
        out = []
        for n in f.walk():
            if n['k'] != 'CXXMemberCallExpr' or not n.get('c'):
                continue
            me = n['c'][0]
            base = strip(me['c'][0]) if me.get('c') else None
            if not base or base['k'] != 'MemberExpr' or base['ref'].get('name') not in handles or base['ref'].get('name') in ctor_made:
                continue
            meth = n['callee']['q'].split('::')[-1]
            if meth.startswith('operator bool') or meth == 'operator=':
                continue
            out.append((n, base['ref']['name'], meth))
        return out
    cfgs = {}

    def cfg_of(f):
        if f.m not in cfgs:
            g_ = cfgm.CFG(f)
            cfgs[f.m] = (g_, g_.dominators())
        return cfgs[f.m]

    def unguarded_in(f):
        g_, dom_ = cfg_of(f)
        return [(n, h, m_) for n, h, m_ in handle_uses(f) if n['id'] in g_.pos and not guarded_at(f, g_, dom_, g_.pos[n['id']][0], h)]
    # enqueueExternal is an entry of its own: the SCXML I/O processor calls it on OTHER sessions, which may never have been stepped
    foreign = sorted({n['callee']['q'] for f_ in fb.funcs.values() if not f_.q.startswith('uscxml::InterpreterImpl::') and not f_.q.startswith('uscxml::Interpreter::')
                      for n in f_.walk() if n['k'] == 'CXXMemberCallExpr' and n.get('callee', {}).get('q', '') in ('uscxml::InterpreterImpl::enqueueExternal', 'uscxml::InterpreterImpl::enqueueInternal')
                      and n.get('c') and n['c'][0].get('c') and strip(n['c'][0]['c'][0])['k'] != 'CXXThisExpr' and 'InterpreterImpl' in (strip(n['c'][0]['c'][0]).get('t') or '')})
    entries += [q_ for q_ in foreign if q_ not in entries]
    nuses = 0
    for q in entries:
        f = fb.fn(q)
        g, dom = cfg_of(f)
        sites = []     # (node in the entry, handle, method, via)
        for n, h, meth in handle_uses(f):
            sites.append((n, h, meth, None))
        # one level of own helpers: what a helper uses unguardedly is used at its call site
        for n in f.walk():
            cq = n.get('callee', {}).get('q', '')
            if n['k'] == 'CXXMemberCallExpr' and cq.startswith('uscxml::InterpreterImpl::') and cq != 'uscxml::InterpreterImpl::init' and cq != q and n.get('c') and n['c'][0].get('c') and strip(n['c'][0]['c'][0])['k'] == 'CXXThisExpr':
                hf = fb.fn(cq, required=False)
                if hf is None:
                    continue
                for n2, h, meth in unguarded_in(hf):
                    sites.append((n, h, meth, cq.split('::')[-1]))
        for n, h, meth, via in sites:
            nuses += 1
            if n['id'] not in g.pos:
                continue
            guarded = guarded_at(f, g, dom, g.pos[n['id']][0], h)
            rep.check(guarded, 'R10.2', '%s|%s.%s%s' % (q.split('::')[-1], h, meth, '' if via is None else '@' + via), locstr(n),
                      '%s uses handle %s%s (null until init()): %s' % (q.split('::')[-1], h, '' if via is None else ' through ' + via, 'guarded by its test / created on demand' if guarded else 'UNGUARDED - crashes on an interpreter that was never stepped'))
    rep.ok('R10.2', 'constructor-made handles', 'created by the constructor, never null: %s; entries: %s' % (sorted(ctor_made) or 'none', ', '.join(e_.split('::')[-1] for e_ in entries)))
    rep.minimum('R10.2', nuses, 5, 'handle uses in the pre-init API entries')

    # ---- R10.3
    reset_coverage(rep, fb, 'R10.3')
    # the same for the interpreter object: what the callbacks of a run write is given back by reset()
    CONFIG_API = {'InterpreterImpl', '~InterpreterImpl', 'init', 'reset', 'deserialize', 'serialize', 'setActionLanguage', 'getActionLanguage', 'setFactory',
                  'addMonitor', 'removeMonitor', 'setupDOM', 'on', 'receive', 'cancel', 'cloneFrom'}
    # helpers that only the configuration / restore entries call belong to those entries (an extracted adoptSessionId() of deserialize)
    callers_of = {}
    for f_ in fb.funcs.values():
        for x_ in f_.walk():
            cq_ = x_.get('callee', {}).get('q', '')
            if cq_.startswith(impl + '::'):
                callers_of.setdefault(cq_.split('::')[-1], set()).add((f_.rec, f_.q.split('::')[-1]))
    config_api = set(CONFIG_API)
    grew = True
    while grew:
        grew = False
        for name_, cs_ in callers_of.items():
            if name_ not in config_api and cs_ and all(rec_ == impl and c_ in config_api for rec_, c_ in cs_):
                config_api.add(name_)
                grew = True
    run_state = {}
    for m in fb.funcs.values():
        if m.rec == impl and m.q.split('::')[-1] not in config_api:
            for name, node in written_members(m, impl).items():
                run_state.setdefault(name, (node, set()))[1].add(m.q.split('::')[-1])
    rs_impl = fb.fn('uscxml::InterpreterImpl::reset')
    rwr_impl = set(written_members(rs_impl, impl))
    for n in rs_impl.walk():
        cq = n.get('callee', {}).get('q', '')
        if n['k'] == 'CXXMemberCallExpr' and cq.startswith(impl + '::') and cq != rs_impl.q and n.get('c') and n['c'][0].get('c') and strip(n['c'][0]['c'][0])['k'] == 'CXXThisExpr':
            hf = fb.fn(cq, required=False)
            if hf is not None:
                rwr_impl |= set(written_members(hf, impl))
    rep.minimum('R10.3', len(run_state), 5, 'members of InterpreterImpl written while a run executes')
    for name, (node, writers) in sorted(run_state.items()):
        rep.check(name in rwr_impl, 'R10.3', 'InterpreterImpl|%s' % name, locstr(node), 'member %s is written while a run executes (%s) and %s by InterpreterImpl::reset()' % (
            name, ', '.join(sorted(writers)), 're-initialised' if name in rwr_impl else 'NOT touched: the run after reset() starts with what the previous run left there (data model variables, _event, running invocations that keep sending)'))
    rs = fb.fn('uscxml::InterpreterImpl::reset')
    reset_calls = {strip(n['c'][0]['c'][0])['ref']['name'] for n in rs.walk() if n['k'] == 'CXXMemberCallExpr' and n['callee']['q'].split('::')[-1] == 'reset' and n.get('c') and n['c'][0].get('c') and strip(n['c'][0]['c'][0])['k'] == 'MemberExpr'}
    for h in sorted(handles):
        t = [fd['t'] for fd in fb.records[impl]['fields'] if fd['name'] == h][0]
        rec = 'uscxml::' + t.replace('uscxml::', '').replace('class ', '')
        has_reset = any(m['name'] == 'reset' for m in fb.records.get(rec, {}).get('methods', []))
        if h == '_parentQueue':
            continue      # facade of the *parent* session's queue (ParentQueueImpl); not this session's run state
        if has_reset:
            rep.check(h in reset_calls, 'R10.3', 'InterpreterImpl|' + h, rs.where(), 'handle %s has a reset() and InterpreterImpl::reset %s it' % (h, 'calls' if h in reset_calls else 'does NOT call'))

    # ---- R10.4
    cn_ = fb.fn('uscxml::InterpreterImpl::cancel')
    gc = cfgm.CFG(cn_)
    mark = [n for n in cn_.walk() if n.get('callee', {}).get('q', '').endswith('::markAsCancelled')]
    enq = [n for n in cn_.walk() if n.get('callee', {}).get('q', '').endswith('::enqueueExternal')]
    if not mark or not enq:
        raise AnalysisBroken('InterpreterImpl::cancel: markAsCancelled / enqueueExternal not found')
    rep.check(gc.dominates(mark[0]['id'], enq[0]['id']), 'R10.4', 'cancel|mark-before-unblock', locstr(enq[0]), 'markAsCancelled dominates the unblocking enqueueExternal')
    for eq in ENGINES:
        f = fb.fn(eq)
        g = cfgm.CFG(f)
        ext = [n for n in f.walk() if n.get('callee', {}).get('q') == 'uscxml::MicroStepCallbacks::dequeueExternal'][0]
        from ._skel import result_test_blocks
        blks = result_test_blocks(f, g, ext)
        blk = blks[-1] if blks else None
        if blk is None:
            raise AnalysisBroken('%s: condition block of dequeueExternal not found' % eq)
        false_succ = [s for s, lab in g.succ_labeled(blk) if lab is False]
        canc_ids = {n['id'] for n in f.walk() if n['k'] == 'MemberExpr' and n['ref'].get('name') == '_isCancelled'}
        w = g.can_reach((false_succ[0], -1), ['EXIT'], avoid=canc_ids)
        rep.check(w is None, 'R10.4', eq.split('::')[1] + '|cancel-test-after-empty-dequeue', locstr(ext), 'after dequeueExternal returned no event every path tests _isCancelled before returning: %s' % (w is None))
        # R10.7: a macrostep need not end (eventless loop, <raise> loop): the flag is looked at before every selection of transitions
        sel = [n for n in f.walk() if n.get('callee', {}).get('q') == 'uscxml::MicroStepCallbacks::dequeueInternal' and n['id'] in g.pos]
        n_deq = len(sel)
        for n in f.walk():
            if n['k'] == 'IfStmt' and any(m[0] == 'USCXML_CTX_SPONTANEOUS' for x in sub(n['c'][0]) for m in (x.get('mac') or [])) and not any(
                    m[0] == 'USCXML_CTX_PRISTINE' for x in sub(n['c'][0]) for m in (x.get('mac') or [])) and n['c'][1] is not None:
                sel += [x for x in sub(n['c'][1]) if x['id'] in g.pos][:1]
        rep.minimum('R10.7', len(sel), 2, 'microstep starts in %s (spontaneous branch, internal dequeue)' % eq.split('::')[1])
        for k7, n in enumerate(sel):
            w7 = g.can_reach(g.entry_pos(), [n['id']], avoid=canc_ids)
            what = 'internal dequeue' if k7 < n_deq else 'spontaneous branch'
            rep.check(w7 is None, 'R10.7', '%s|%s' % (eq.split('::')[1], what), locstr(n), 'the %s of step() is %s' % (what, 'only reached past a test of _isCancelled' if w7 is None else
                      'reached WITHOUT looking at _isCancelled: while eventless transitions stay enabled or the internal queue is fed, cancel() is never honoured - step() returns MICROSTEPPED for ever, USCXMLInvoker::stop() joins a thread that never ends'))

    # ---- R10.8 "after every remaining exit handler ran once": a failing <onexit> block must not take the later ones with it
    rep.rule('R10.8', 'every remaining exit handler runs in the finalising step: each process() call of the engines (the finalising branch included) sits alone in a try/catch(...) inside its loop, so a failing block skips only itself (same rule as C07 R07.5)')
    from . import C07
    C07.call_granularity(rep, fb, 'R10.8', 'uscxml::MicroStepCallbacks::process', 'blocks')

    # ---- R10.5
    dq = 'uscxml::BasicDelayedEventQueue'
    run_ = fb.fn(dq + '::run')
    loops = [n for n in run_.walk() if n['k'] == 'WhileStmt']
    flag = None
    for lp in loops:
        names = [s['ref']['name'] for s in sub(lp['c'][0]) if s['k'] == 'MemberExpr']
        disp = any(s.get('callee', {}).get('q') in lock.DISPATCH_CALLS for s in sub(lp['c'][-1]))
        if names and disp:
            flag = names[-1]
    if flag is None:
        raise AnalysisBroken('BasicDelayedEventQueue::run: while(flag) dispatch loop not recognised')
    wakers = 0
    for f in fb.funcs.values():
        if f.rec != dq or f.q.split('::')[-1] == dq.split('::')[-1]:
            continue
        for n in f.walk():
            if n['k'] == 'BinaryOperator' and n.get('op') == '=' and any(s['k'] == 'MemberExpr' and s['ref'].get('name') == flag for s in sub(n['c'][0])) and tab.const_of(n['c'][1]) == 0:
                wakers += 1
                g = cfgm.CFG(f)
                after = [s for s in f.walk() if s.get('callee', {}).get('q') in STICKY | NON_STICKY and s['id'] in g.pos]
                sticky = [s for s in after if s['callee']['q'] in STICKY and g.can_reach(g.pos[n['id']], [s['id']])]
                # every path after clearing the flag (that goes on to join) passes a sticky wake-up
                joins = [s for s in f.walk() if s.get('callee', {}).get('q', '').endswith('thread::join')]
                okw = bool(sticky) and (not joins or g.can_reach(g.pos[n['id']], [j['id'] for j in joins if j['id'] in g.pos], avoid=[s['id'] for s in sticky]) is None)
                used = sorted({s['callee']['q'] for s in after if g.can_reach(g.pos[n['id']], [s['id']])})
                rep.check(okw, 'R10.5', '%s|wake after %s=false' % (f.q.split('::')[-1], flag), locstr(n),
                          'timer thread loops `while (%s) event_base_loop()`; %s clears the flag and wakes it with %s (%s)' % (flag, f.q.split('::')[-1], used, 'sticky' if okw else 'NOT sticky: a wake-up issued before the thread enters the loop is lost and join() hangs'))
    rep.minimum('R10.5', wakers, 2, 'sites clearing the timer thread\'s run flag')

    CORE = ('BasicEventQueue::_mutex@', 'InterpreterImpl::', 'USCXMLInvoker::_mutex@', 'CB(timerCallback)', 'CB(dummyCallback)', 'T(BasicDelayedEventQueue::run)', 'T(USCXMLInvoker::run)')

    def core(n):
        return n.startswith(CORE)
    # cycles of the interpreter core (API, timer and invoker threads) that involve a join or the life-cycle mutex;
    # cycles through the HTTP server, debugger, URL fetcher or dirmon invoker are outside this property
    # ... or a libevent callback pseudo-lock: reset() and the destructor cancel pending timers with the blocking event_del
    core_cycles = [cy for cy in c.minimal_cycles() if all(core(n) for n in cy) and any(n.startswith('T(') or n.startswith('CB(') or '_serializationMutex@' in n for n in cy)]
    mine = core_cycles
    for cy in core_cycles:
        w = c.witnesses(cy)
        rep.fail('R10.5', ' > '.join(cy), w[0].split(' at ')[-1].split(' ')[0] if w else '?', 'lock-order cycle (join / life-cycle locks): a schedule that closes it dead-locks', path=w)
    if not mine:
        rep.ok('R10.5', 'no-join-under-needed-lock', 'no lock-order cycle through a thread join or the life-cycle mutexes')
    di = fb.fn('uscxml::InterpreterImpl::~InterpreterImpl')
    gd = cfgm.CFG(di)
    cad = [n for n in di.walk() if n.get('callee', {}).get('q', '').endswith('::cancelAllDelayed')]
    dele = [n for n in di.walk() if n['k'] == 'CXXDeleteExpr' and any(s['k'] == 'MemberExpr' and s['ref'].get('name') == '_document' for s in sub(n))]
    if not dele:
        raise AnalysisBroken('~InterpreterImpl: delete _document not found')
    if not cad:
        rep.fail('R10.5', '~InterpreterImpl|cancel-before-delete', di.where(), 'the destructor does not cancel pending delayed events: the timer thread can deliver into a half-destroyed interpreter (members are destroyed before the queue)')
    before = bool(cad) and gd.can_reach(gd.pos[cad[0]['id']], [dele[0]['id']]) is not None
    if cad:
      rep.check(bool(before) and gd.can_reach(gd.pos[dele[0]['id']], [cad[0]['id']]) is None, 'R10.5', '~InterpreterImpl|cancel-before-delete', di.where(), 'pending delayed events are cancelled before the document they reference is deleted')
    timer_joined_before_members(rep, fb, 'R10.5')
    dd = fb.fn(dq + '::~BasicDelayedEventQueue')
    gdd = cfgm.CFG(dd)
    stopc = [n for n in dd.walk() if n.get('callee', {}).get('q', '').endswith('::stop')]
    freeb = [n for n in dd.walk() if n.get('callee', {}).get('q') == 'event_base_free']
    if not stopc or not freeb:
        raise AnalysisBroken('~BasicDelayedEventQueue: stop() / event_base_free not found')
    rep.check(gdd.dominates(stopc[0]['id'], freeb[0]['id']), 'R10.5', '~BasicDelayedEventQueue|stop-before-free', dd.where(), 'the timer thread is stopped and joined before the event base is freed')

    # ---- R10.6
    roots = {'api': [fb.fn(q) for q in ('uscxml::Interpreter::step', 'uscxml::Interpreter::receive', 'uscxml::Interpreter::cancel', 'uscxml::Interpreter::reset', 'uscxml::InterpreterImpl::~InterpreterImpl')],
             'timer': [fb.fn(dq + '::run'), fb.fn(dq + '::timerCallback')],
             'invoker': [fb.fn('uscxml::USCXMLInvoker::run')]}
    reach = {k: set(c.cg.reach(v)) for k, v in roots.items()}
    classes = ['uscxml::BasicDelayedEventQueue', 'uscxml::BasicEventQueue', 'uscxml::USCXMLInvoker', 'uscxml::LargeMicroStep', 'uscxml::FastMicroStep']
    nshared = 0
    for cls in classes:
        recd = fb.records.get(cls)
        if not recd:
            raise AnalysisBroken('class %s not found' % cls)
        for fd in recd['fields']:
            name = fd['name']
            if 'mutex' in fd['t'].lower() or 'condition_variable' in fd['t']:
                continue
            acc = []
            for f in fb.funcs.values():
                if f.q.split('::')[-1] in (cls.split('::')[-1], '~' + cls.split('::')[-1]):
                    continue
                if not f.file.startswith('src/'):
                    continue      # contrib / test scaffolding subclasses are outside the anchors
                for n in f.walk():
                    if n['k'] == 'MemberExpr' and n['ref'].get('name') == name and n['ref'].get('rec') == cls:
                        acc.append((f, n))
            if not acc:
                continue
            written = any(name in written_members(f, cls) for f in {a[0] for a in acc})
            who = {k for k, r in reach.items() for f, n in acc if f.m in r}
            # timer-only / engine-internal fields: need two different roots
            if not written or len(who) < 2:
                continue
            if cls in ('uscxml::LargeMicroStep', 'uscxml::FastMicroStep') and who <= {'api', 'invoker'}:
                # a session is stepped by exactly one thread: api (top level) or invoker (child); only fields that the
                # *other* session's thread touches are shared: markAsCancelled -> _isCancelled
                touch_other = any(f.q.split('::')[-1] == 'markAsCancelled' for f, n in acc)
                if not touch_other:
                    continue
            nshared += 1
            common = None
            for f, n in acc:
                held = {m for b, m in la.held(f, n)}
                common = held if common is None else common & held
            if common:
                rep.ok('R10.6', '%s::%s' % (cls.split('::')[-1], name), 'shared by %s; every access holds %s' % (sorted(who), sorted(x.split('::')[-1] for x in common)))
            elif (cls, name) in UNPROTECTED_OK:
                rep.ok('R10.6', '%s::%s' % (cls.split('::')[-1], name), 'unprotected by confirmed table: ' + UNPROTECTED_OK[(cls, name)])
            else:
                bad = [(f, n) for f, n in acc if not la.held(f, n)]
                rep.fail('R10.6', '%s::%s' % (cls.split('::')[-1], name), locstr(bad[0][1]) if bad else cls,
                         'field %s::%s is written and reachable from thread roots %s but its accesses share no mutex (e.g. unlocked in %s)' % (
                             cls.split('::')[-1], name, sorted(who), ', '.join(sorted({f.q.split('uscxml::')[-1] for f, n in bad})[:4])))
    rep.minimum('R10.6', nshared, 4, 'fields shared between thread roots')
    # hand-over discipline of USCXMLInvoker::_invokedInterpreter: no assignment after start()
    inv = fb.fn('uscxml::USCXMLInvoker::invoke')
    gi = cfgm.CFG(inv)
    starts = [n for n in inv.walk() if n.get('callee', {}).get('q') == 'uscxml::USCXMLInvoker::start']
    asg = [n for n in inv.walk() if n['k'] == 'CXXOperatorCallExpr' and n.get('op') == '=' and len(n.get('c', [])) > 1 and strip(n['c'][1])['k'] == 'MemberExpr' and strip(n['c'][1])['ref'].get('name') == '_invokedInterpreter']
    if not starts or not asg:
        raise AnalysisBroken('USCXMLInvoker::invoke: start() / assignment of _invokedInterpreter not found')
    late = [a for a in asg for st_ in starts if gi.can_reach(gi.pos[st_['id']], [a['id']])]
    writers = sorted({f.q.split('::')[-1] for f in fb.funcs.values() if f.rec == 'uscxml::USCXMLInvoker' and '_invokedInterpreter' in written_members(f, 'uscxml::USCXMLInvoker')})
    rep.check(not late and set(writers) <= {'invoke', 'deserialize'}, 'R10.6', 'USCXMLInvoker::_invokedInterpreter|handed-over-before-start', inv.where(),
              'assigned only in %s and never after start()' % writers)


def _enclosing_pos(f, g, n):
    x = n
    while x is not None:
        if x['id'] in g.pos:
            return x['id']
        x = f.parent(x)
    return None
