"""C20 - transformation is a deterministic function of its input (DESIGN 4/C20)."""
import os, re
from .. import facts, cg, cfg as cfgm
from ..facts import AnalysisBroken, strip, sub, locstr

QUICK_TUS_PREFIX = ('src/uscxml/debug/InterpreterIssue', 'src/uscxml/interpreter/BasicContentExecutor', 'src/uscxml/transform/', 'src/apps/uscxml-transform.cpp', 'src/uscxml/util/',
                    'src/uscxml/interpreter/InterpreterImpl.cpp', 'src/uscxml/interpreter/FastMicroStep.cpp',
                    'src/uscxml/interpreter/LargeMicroStep.cpp')

# the interpreter side provides the parsed document; it is not part of what a transformer writes
STOP_PREFIX = ('src/uscxml/interpreter/', 'src/uscxml/plugins/', 'src/uscxml/debug/', 'src/uscxml/server/',
               'src/uscxml/Interpreter.', 'src/uscxml/messages/', 'contrib/', 'test/')

PTR_STREAM = '_ZNSolsEPKv'   # std::ostream::operator<<(const void*)

NONDET_EXT = {
    'time', 'clock', 'gettimeofday', 'clock_gettime', 'rand', 'random', 'srand', 'srandom', 'getpid', 'getppid',
    'std::chrono::_V2::system_clock::now', 'std::chrono::_V2::steady_clock::now',
    'std::chrono::system_clock::now', 'std::chrono::steady_clock::now', 'std::chrono::high_resolution_clock::now',
    'std::random_device::operator()', 'pthread_self', 'std::this_thread::get_id', 'mkstemp', 'tmpnam', 'mktemp',
}
NONDET_REPO = {'uscxml::UUID::getUUID', 'uscxml::URL::getTmpFilename', 'uscxml::URL::getTempDir'}

# R20.3 allowed sites: (function, source) -> reason
NONDET_ALLOWED = {
    ('uscxml::ChartToC::findNestedMachines', 'uscxml::UUID::getUUID'): 'invents an id for an <invoke> without id (excluded by the property\'s proviso)',
    ('uscxml::ChartToPromela::prepare', 'uscxml::UUID::getUUID'): 'invents an id for an <invoke> without id (excluded by the property\'s proviso)',
}


# ordering decisions on addresses that cannot change the result: (function, callee) -> reason (confirmed by reading)
ADDRESS_ORDER_OK = {
    ('uscxml::LargeMicroStep::step', 'std::binary_search'): 'membership test "is the completion a direct child": equality is identity, so a wrong order can only produce a false negative; the deep-completion path taken then inserts the child\'s ancestors, which are already in the entry set or still active and are removed from the entry set before ENTER_STATES',
}


def container_key(t):
    m = re.search(r'std::(map|set|multimap|multiset|unordered_map|unordered_set|unordered_multimap|unordered_multiset)<(.*)', t)
    if not m:
        return None
    rest, depth, out = m.group(2), 0, ''
    for ch in rest:
        if ch == '<':
            depth += 1
        elif ch == '>':
            if depth == 0:
                break
            depth -= 1
        elif ch == ',' and depth == 0:
            break
        out += ch
    return m.group(1), out.strip()


def address_ordered(t):
    ck = container_key(t)
    if not ck:
        return False
    kind, key = ck
    return kind.startswith('unordered') or key.endswith('*')


def member_origin(n):
    """Class::member a container expression derives from (or local variable name)"""
    for s in sub(n):
        if s['k'] == 'MemberExpr' and 'rec' in s.get('ref', {}):
            return s['ref']['rec'] + '::' + s['ref']['name']
    for s in sub(n):
        if s['k'] == 'DeclRefExpr':
            return '$' + s['ref']['name']
    return '?'


def log_sink(n):
    """is the stream this << chain writes to the repository's logger (diagnostics, not transformer output)?"""
    for s in sub(n):
        q = s.get('callee', {}).get('q', '')
        if q in ('uscxml::Logger::log', 'uscxml::Logger::getDefault', 'uscxml::StreamLogger::operator<<'):
            return True
    return False


def order_sensitive(fb, body):
    """does a loop body have an effect whose result depends on iteration order?"""
    for s in sub(body):
        c = s.get('callee')
        if not c:
            continue
        name = c['q'].split('::')[-1]
        if c['m'] == PTR_STREAM or (name == 'operator<<'):
            return 'writes to a stream'
        if name in ('push_back', 'push_front', 'emplace_back', 'append', 'operator+=', 'insert') and 'std::' in c['q']:
            # insertion into an ordered sequence (list/vector/string); set/map insert is order-insensitive
            me = s['c'][0] if s.get('c') else None
            base = me['c'][0] if me and me.get('c') else None
            bt = (base or {}).get('t', '')
            if not re.search(r'std::(set|map|multiset|multimap)<', bt):
                return 'appends to a sequence'
        if c['q'].startswith('uscxml::InterpreterMonitor::') and name not in ('getLogger', 'copyToInvokers', 'InterpreterMonitor', '~InterpreterMonitor'):
            return 'notifies a monitor (' + name + ')'
        if not c.get('ext') and c['m'] in fb.funcs and not c['q'].startswith('uscxml::X::'):
            f = fb.funcs[c['m']]
            if any(p['t'].startswith('std::ostream') or 'basic_ostream' in p['t'] for p in f.d.get('params', [])):
                return 'calls writer ' + c['q']
    return None


def scan(fb, funcs, rep, control=False):
    """returns dict of findings lists; used for the repository and for the positive control."""
    res = {'ptrstream': [], 'ptr2int': [], 'iter': [], 'nondet': [], 'ptrorder': [], 'sites': 0}
    for f in funcs:
        for n in f.walk():
            c = n.get('callee')
            if c:
                res['sites'] += 1
                if c['m'] == PTR_STREAM:
                    par = n
                    top = n
                    for a in f.ancestors(n):
                        if a['k'] == 'CXXOperatorCallExpr' or a['k'] in facts.TRANSPARENT or (a.get('callee', {}).get('q', '').endswith('operator<<')):
                            top = a
                        else:
                            break
                    res['ptrstream'].append((f, n, log_sink(top)))
                q = c['q']
                if q in NONDET_EXT or q in NONDET_REPO or (q.startswith('std::hash<') and q.endswith('::operator()')):
                    # std::hash: [hash.requirements] demands equal results only within one execution of the program
                    res['nondet'].append((f, n, q))
                if n['k'] == 'CXXMemberCallExpr' and q.split('::')[-1] in ('begin', 'rbegin', 'cbegin', 'crbegin'):
                    me = n['c'][0]
                    base = me['c'][0] if me.get('c') else None
                    if base and address_ordered(base.get('t', '')):
                        # find the loop this iterator drives: nearest enclosing loop or following sibling loop
                        loop = None
                        for a in f.ancestors(n):
                            if a['k'] in ('CXXForRangeStmt', 'ForStmt', 'WhileStmt', 'DoStmt'):
                                loop = a
                                break
                        if loop is None:
                            # `auto it = c.begin(); while (it != c.end()) {...}`: the iterator variable's uses
                            loop = enclosing_compound_loop(f, n)
                        res['iter'].append((f, n, base, loop))
            if c and n['k'] == 'CXXMemberCallExpr':
                mm = re.match(r'^std::(?:forward_)?list<(.*)>::(merge|sort)$', c['q'])
                if mm and mm.group(1).strip().endswith('*') and len(n.get('c', [])) == (2 if mm.group(2) == 'merge' else 1):
                    res['ptrorder'].append((f, n, 'std::list<%s>' % mm.group(1)))
            if c and c['q'] in ('std::sort', 'std::stable_sort') and len(n.get('c', [])) == 3:
                at = strip(n['c'][1]).get('t', '')
                if re.search(r'\*\s*\*|<[^<>]*\*\s*>|<[^<>]*\*\s*,', at):
                    res['ptrorder'].append((f, n, at))
            if n.get('ck') == 'PointerToIntegral':
                res['ptr2int'].append((f, n))
            # ordering decisions taken on addresses
            if n['k'] == 'BinaryOperator' and n.get('op') in ('<', '>', '<=', '>=') and len(n.get('c', [])) == 2:
                ts = [(strip(x) or {}).get('t', '') for x in n['c']]
                if all(object_pointer(t) for t in ts):
                    res['ptrorder'].append((f, n, 'relational comparison of %s' % ts[0]))
            if c:
                q = c['q']
                m = re.match(r'^std::(less|greater|less_equal|greater_equal)<(.*)>::operator\(\)$', q)
                if m and m.group(2).strip().endswith('*') and object_pointer(m.group(2).strip()):
                    res['ptrorder'].append((f, n, 'std::%s<%s>' % (m.group(1), m.group(2))))
                base = q.split('<')[0]
                if base in STD_ORDER_ALGOS and len(n.get('c', [])) == STD_ORDER_ALGOS[base] + 1:
                    at = strip(n['c'][1]).get('t', '')
                    if base not in ('std::sort', 'std::stable_sort') and pointer_range(at):
                        res['ptrorder'].append((f, n, at))
            if n['k'] in ('CXXTemporaryObjectExpr', 'CXXConstructExpr', 'CXXFunctionalCastExpr'):
                m = re.match(r'^(?:struct )?std::(less|greater|less_equal|greater_equal)<(.*)>$', n.get('t', '') or '')
                if m and m.group(2).strip().endswith('*') and object_pointer(m.group(2).strip()) and n['k'] != 'CXXConstructExpr':
                    res['ptrorder'].append((f, n, 'comparator object %s' % n.get('t')))
    return res


# default-comparator forms: number of call arguments (the exported call node has one more child, the callee)
STD_ORDER_ALGOS = {'std::sort': 2, 'std::stable_sort': 2, 'std::set_difference': 5, 'std::set_intersection': 5, 'std::set_union': 5,
                   'std::set_symmetric_difference': 5, 'std::includes': 4, 'std::merge': 5, 'std::inplace_merge': 3, 'std::lower_bound': 3,
                   'std::upper_bound': 3, 'std::equal_range': 3, 'std::binary_search': 3, 'std::min_element': 2, 'std::max_element': 2,
                   'std::nth_element': 3, 'std::partial_sort': 3, 'std::is_sorted': 2, 'std::lexicographical_compare': 4}


def object_pointer(t):
    """pointer to an object whose address carries no meaning (not a character/byte buffer position)"""
    t = (t or '').replace('const ', '').strip()
    if not t.endswith('*') or t.endswith('**'):
        return False
    pointee = t[:-1].strip()
    return pointee not in ('char', 'unsigned char', 'signed char', 'XMLCh', 'char16_t', 'wchar_t', 'void', 'uint8_t', 'jsmntok_t', 'int', 'unsigned int', 'short', 'unsigned short', 'long', 'unsigned long')


def pointer_range(at):
    """does an iterator type range over pointer elements?"""
    return bool(re.search(r'\*\s*\*|<[^<>]*\*\s*>|<[^<>]*\*\s*,', at or ''))


def enclosing_compound_loop(f, n):
    """for `T it = c.begin();` find the next loop statement in the same compound statement"""
    decl = None
    for a in f.ancestors(n):
        if a['k'] == 'DeclStmt':
            decl = a
            break
    if decl is None:
        return None
    comp = f.parent(decl)
    if not comp or comp['k'] != 'CompoundStmt':
        return None
    seen = False
    for c in comp.get('c', []):
        if c is decl:
            seen = True
            continue
        if seen and c['k'] in ('WhileStmt', 'ForStmt', 'DoStmt'):
            return c
    return None


def run(rep, tier):
    rep.rule('R20.1', 'no pointer value reaches transformer output: no operator<<(const void*) and no pointer->integer cast in the transformer closure')
    rep.rule('R20.2', 'no loop with an order-dependent effect iterates a container ordered or hashed by address, and no ordering decision is taken on addresses (pointer <, std::less<T*>, sort/merge/set algorithms with the default comparator on pointer ranges), in the transformer closure and in the micro-step engines')
    rep.rule('R20.3', 'no other nondeterminism source (uuid, clock, rand, pid, env, temp names) in the transformer closure outside the enumerated sites')
    rep.rule('R20.4', 'cache files cannot influence results: every consumer of the interpreter cache is behind the md5 guard that clears a foreign cache')
    rep.rule('R20.0', 'positive control: each of the constructs above is matched in tools/controls/c20_control.cpp')
    rep.assume('std::hash<std::string> (escapeMacro) is a pure function of its argument in libstdc++')
    rep.assume('iteration order of std::map/std::set keyed by value types is a function of the keys only')

    tus = facts.library_tus()
    if tier == 'quick':
        tus = [t for t in tus if t.startswith(QUICK_TUS_PREFIX)]
    fb = facts.FactBase(tus)
    g = cg.CallGraph(fb)
    roots = [f for f in fb.funcs.values() if f.file.startswith('src/uscxml/transform/') or f.file == 'src/apps/uscxml-transform.cpp']
    if len(roots) < 120:
        raise AnalysisBroken('only %d transformer functions found (expected >= 120)' % len(roots))
    # closure: follow calls, do not enter the interpreter side
    pred = {}
    work = []
    for r in roots:
        pred[r.m] = None
        work.append(r.m)
    while work:
        m = work.pop()
        for t in g.out.get(m, ()):
            if t in pred:
                continue
            tf = fb.funcs[t]
            if tf.file.startswith(STOP_PREFIX):
                continue
            pred[t] = m
            work.append(t)
    closure = [fb.funcs[m] for m in pred]
    # the micro-step engines themselves (trace determinism: address-ordered iteration and ordering decisions on addresses)
    engines = [f for f in fb.funcs.values() if f.file.startswith(('src/uscxml/interpreter/LargeMicroStep', 'src/uscxml/interpreter/FastMicroStep',
                                                                     'src/uscxml/interpreter/BasicContentExecutor', 'src/uscxml/debug/InterpreterIssue'))]
    if len(engines) < 40:
        raise AnalysisBroken('only %d engine functions found' % len(engines))
    rep.covered(tus=len(tus), extracted=fb.extracted, functions_total=len(fb.funcs), transformer_roots=len(roots),
                closure_functions=len(closure), engine_functions=len(engines))

    # ---- positive control
    ctl = facts.load_extra(os.path.join(facts.VERIF, 'tools/controls/c20_control.cpp'))
    cres = scan(ctl, list(ctl.funcs.values()), rep, control=True)
    ok = (len(cres['ptrstream']) >= 1 and len(cres['ptr2int']) >= 1 and len(cres['iter']) >= 2 and len(cres['nondet']) >= 1 and len(cres['ptrorder']) >= 6
          and all(order_sensitive(ctl, l) for (_, _, _, l) in cres['iter'] if l))
    if not ok:
        raise AnalysisBroken('positive control not matched: %s' % {k: len(v) if isinstance(v, list) else v for k, v in cres.items()})
    rep.ok('R20.0', 'c20_control.cpp', 'ptrstream=%d ptr2int=%d iter=%d nondet=%d' % (len(cres['ptrstream']), len(cres['ptr2int']), len(cres['iter']), len(cres['nondet'])))

    res = scan(fb, closure, rep)
    rep.covered(call_sites_scanned=res['sites'])

    # ---- R20.1
    n_streams = 0
    for f in closure:
        for n in f.walk():
            if n.get('callee', {}).get('q', '').endswith('operator<<'):
                n_streams += 1
    rep.minimum('R20.1', n_streams, 3000, 'stream insertions in the transformer closure')
    bad = 0
    for f, n, islog in res['ptrstream']:
        operand = n['c'][-1] if len(n.get('c', [])) > 1 else n
        sig = '%s|<<%s' % (f.q, fb.text(operand).strip() or operand.get('t', ''))
        if islog:
            rep.note('R20.1: pointer streamed to the logger (diagnostics, not output) in %s at %s' % (f.q, locstr(n)))
            continue
        bad += 1
        rep.fail('R20.1', sig, locstr(n), 'pointer value of type %s is inserted into a stream (%s); call chain: %s' % (
            strip(operand).get('t', '?'), fb.text(n)[:80], ' > '.join(g.path(pred, f.m)[-4:])))
    for f, n in res['ptr2int']:
        bad += 1
        rep.fail('R20.1', '%s|ptr2int' % f.q, locstr(n), 'pointer converted to integer in transformer closure: %s' % fb.text(n)[:80])
    if not bad:
        rep.ok('R20.1', 'closure', '%d stream insertions, none takes const void*; no pointer->integer cast' % n_streams)
    else:
        rep.ok('R20.1', 'closure-rest', '%d stream insertions scanned' % n_streams)

    # ---- R20.2
    by_member = {}
    for f, n, base, loop in res['iter']:
        origin = member_origin(base)
        if origin.startswith('$'):
            # range-for: the range variable's initialiser names the member
            for a in f.ancestors(n):
                if a['k'] == 'CXXForRangeStmt':
                    for d in sub(a['c'][0]) if a.get('c') else []:
                        pass
            origin = range_origin(f, n) or (f.q + ':' + origin)
        eff = order_sensitive(fb, loop) if loop else 'loop not identified'
        by_member.setdefault(origin, []).append((f, n, eff))
    n_loops = sum(1 for f in closure for n in f.walk() if n['k'] in ('CXXForRangeStmt', 'ForStmt', 'WhileStmt'))
    rep.minimum('R20.2', n_loops, 300, 'loops in the transformer closure')
    for origin, sites in sorted(by_member.items()):
        sens = [(f, n, e) for f, n, e in sites if e]
        if sens:
            rep.fail('R20.2', origin, locstr(sens[0][1]),
                     'container %s is ordered by address and iterated with order-dependent effect at %d site(s): %s' % (
                         origin, len(sens), ', '.join('%s(%s)' % (locstr(n), e) for f, n, e in sens[:20])))
        else:
            rep.ok('R20.2', origin, 'iterated at %d sites, all order-insensitive' % len(sites))
    for f, n, t in res['ptrorder']:
        rep.fail('R20.2', '%s|%s' % (f.q, n['callee']['q']), locstr(n), 'sequence of pointers (%s) is ordered by comparing addresses: %s' % (t, fb.text(n)[:80]))
    rep.ok('R20.2', 'closure', '%d loops scanned, %d iterate address-ordered containers' % (n_loops, len(res['iter'])))
    # engines (thorough)
    if engines:
        eres = scan(fb, engines, rep)
        for f, n, base, loop in eres['iter']:
            origin = range_origin(f, n) or member_origin(base)
            eff = order_sensitive(fb, loop) if loop else 'loop not identified'
            rep.check(not eff, 'R20.2', 'engine|' + origin, locstr(n), 'engine iterates address-ordered container %s (%s)' % (origin, eff))
        for f, n, t in eres['ptrorder']:
            key = (f.q, n.get('callee', {}).get('q', '').split('<')[0])
            if key in ADDRESS_ORDER_OK:
                rep.ok('R20.2', 'engine|%s|%s' % key, 'exempt: ' + ADDRESS_ORDER_OK[key])
                continue
            rep.fail('R20.2', 'engine|%s|%s' % (f.q, n.get('callee', {}).get('q', n.get('op', ''))), locstr(n), 'the engine orders by address (%s): %s -- the trace depends on the memory layout' % (t, fb.text(n)[:80]))
        rep.ok('R20.2', 'engines', '%d engine functions scanned, %d address-ordered iterations, %d ordering decisions on addresses' % (len(engines), len(eres['iter']), len(eres['ptrorder'])))

    # ---- R20.3
    for f, n, q in res['nondet']:
        if (f.q, q) in NONDET_ALLOWED:
            rep.ok('R20.3', '%s|%s' % (f.q, q), 'allowed: ' + NONDET_ALLOWED[(f.q, q)])
        else:
            rep.fail('R20.3', '%s|%s' % (f.q, q), locstr(n), 'nondeterminism source %s called in transformer closure (chain %s)' % (q, ' > '.join(g.path(pred, f.m)[-4:])))
    rep.ok('R20.3', 'closure', '%d call sites scanned against %d source names' % (res['sites'], len(NONDET_EXT) + len(NONDET_REPO)))

    # ---- R20.4
    init = fb.fn('uscxml::InterpreterImpl::init')
    consumers = []
    for f in fb.funcs.values():
        for n in f.walk():
            q = n.get('callee', {}).get('q', '')
            if q.endswith('::getCache') and n['k'] == 'CXXMemberCallExpr':
                consumers.append((f, n))
            if n['k'] == 'MemberExpr' and n.get('ref', {}).get('name') == '_cache' and n['ref'].get('rec') == 'uscxml::InterpreterImpl':
                if f.q not in ('uscxml::InterpreterImpl::init', 'uscxml::InterpreterImpl::~InterpreterImpl', 'uscxml::InterpreterImpl::getCache'):
                    consumers.append((f, n))
    # guard structure in init()
    assign = None
    guard = None
    for n in init.walk():
        if n['k'] == 'CXXOperatorCallExpr' and n.get('op') == '=' and any(
                s.get('ref', {}).get('name') == '_cache' for s in sub(n['c'][1])) and any(
                s.get('callee', {}).get('q') == 'uscxml::Data::fromJSON' for s in sub(n)):
            assign = n
        if n['k'] == 'IfStmt':
            cond = n['c'][0]
            names = {s.get('ref', {}).get('name') for s in sub(cond)}
            if '_cache' in names and '_md5' in names and any(s.get('op') == '!=' for s in sub(cond)):
                then = n['c'][1]
                if any(s.get('callee', {}).get('q') == 'uscxml::Data::clear' for s in sub(then)):
                    guard = n
    # nothing is printed under the presence test of the cache file: a cold and a warm run print the same lines
    opens = 0
    for n in init.walk():
        if n['k'] != 'IfStmt' or not any(s.get('callee', {}).get('q', '').endswith('::is_open') for s in sub(n['c'][0])):
            continue
        opens += 1
        outs = [s for br in n['c'][1:] if br for s in sub(br)
                if s.get('callee', {}).get('q', '') in ('uscxml::Logger::log', 'uscxml::StreamLogger::operator<<')
                or s.get('ref', {}).get('q', s.get('ref', {}).get('name', '')) in ('std::cout', 'std::cerr', 'cout', 'cerr')]
        rep.check(not outs, 'R20.4', 'cache-presence|silent', locstr(outs[0] if outs else n),
                  'InterpreterImpl::init prints nothing under the test whether an earlier run left a cache file%s' % (
                      '' if not outs else '; but it logs `%s`: the first and the later runs of one document print different traces' % ' '.join(fb.text(outs[0]).split())[:80]))
    if assign is not None and not opens:
        raise AnalysisBroken('R20.4: the cache is loaded but the presence test (is_open) of the cache file in InterpreterImpl::init was not found')
    if assign is None:
        if consumers:
            raise AnalysisBroken('R20.4: cache has consumers but the load site `_cache = Data::fromJSON(..)` in InterpreterImpl::init was not found')
        rep.ok('R20.4', 'no-cache-load', 'InterpreterImpl::init does not load a cache file (WITH_CACHE_FILES off)')
    else:
        c = cfgm.CFG(init)
        guarded = False
        if guard is not None:
            condid = guard['c'][0]['id']
            # every path from the load to the function exit evaluates the guard condition
            ids = {s['id'] for s in sub(guard['c'][0]) if 'id' in s}
            guarded = c.all_paths_pass(c.pos.get(assign['id'], c.entry_pos()), ids)
        # the guard fires for every foreign cache: its condition is a conjunction of presence tests and the md5 inequality only;
        # any further conjunct lets a cache with another md5 survive
        if guard is not None:
            def conj(n):
                n = strip(n)
                if n['k'] == 'BinaryOperator' and n.get('op') == '&&':
                    return conj(n['c'][0]) + conj(n['c'][1])
                return [n]
            extra = []
            for cj in conj(guard['c'][0]):
                qs = {x.get('callee', {}).get('q', '').split('::')[-1] for x in sub(cj)}
                nm = {x.get('ref', {}).get('name') for x in sub(cj)}
                presence = 'find' in qs and 'end' in qs and cj.get('op') == '!='
                md5ne = '_md5' in nm and cj.get('op') == '!='
                if not presence and not md5ne:
                    extra.append(cj)
            rep.check(not extra, 'R20.4', 'cache-guard|condition', locstr(guard), 'the guard that drops a foreign cache is conditioned on presence tests and the md5 inequality only%s' % (
                '' if not extra else '; but ALSO on `%s`: a cache written for another version of the document survives when that conjunct is false' % ' '.join(fb.text(extra[0]).split())[:90]))
        if consumers and not guarded:
            rep.fail('R20.4', 'cache-consumer-unguarded', locstr(consumers[0][1]),
                     'cache content loaded at %s is consumed by %s without the md5 guard clearing a foreign cache on every path' % (locstr(assign), consumers[0][0].q))
        else:
            rep.ok('R20.4', 'cache-guard', 'load at %s; md5 guard on every path: %s; consumers: %d (%s)' % (
                locstr(assign), guarded, len(consumers), ', '.join(sorted({f.q for f, _ in consumers})) or 'none'))
        # consumers inside the transformer closure or the engines must not exist unless guarded (checked above); list them
    for f, n in consumers:
        rep.note('R20.4: cache consumer %s at %s' % (f.q, locstr(n)))


def range_origin(f, n):
    """n is the begin() call of a range-based for: return Class::member of the range initialiser"""
    for a in f.ancestors(n):
        if a['k'] == 'CXXForRangeStmt':
            for c in a.get('c', []):
                if c and c['k'] == 'DeclStmt':
                    for d in c.get('decls', []):
                        if d['name'].startswith('__range') and 'init' in d:
                            o = member_origin(d['init'])
                            return o
            return None
    return None
