"""C13 - monitor notifications are a well-nested, complete account of execution (DESIGN 4/C13)."""
import re
from .. import facts, exc, path, cfg as cfgm, tab
from ..facts import AnalysisBroken, strip, sub, locstr
from .C07 import INFEASIBLE

ENGINES = ('uscxml::LargeMicroStep::step', 'uscxml::FastMicroStep::step')
FLAG_NAMES = {1: 'SPONTANEOUS', 2: 'INITIALIZED', 4: 'TOP_LEVEL_FINAL', 8: 'TRANSITION_FOUND', 16: 'FINISHED', 32: 'STABLE'}


def fl(x):
    return '{' + ','.join(v for k, v in sorted(FLAG_NAMES.items()) if x & k) + '}'


def monitor_events(func):
    """node id -> 'M:<callback>' for each expansion of USCXML_MONITOR_CALLBACK* (one event per expansion, attached
    to the evaluation of the `callbacks.size() > 0` guard), plus the list of expansions"""
    ev = {}
    sites = []
    for n in func.walk():
        if n['k'] == 'IfStmt' and n.get('mac') and any(m[0].startswith('USCXML_MONITOR_CALLBACK') for m in n['mac']):
            name = None
            for s in sub(n):
                q = s.get('callee', {}).get('q', '')
                if s['k'] == 'CXXMemberCallExpr' and q.startswith('uscxml::InterpreterMonitor::'):
                    name = q.split('::')[-1]
            if name is None:
                raise AnalysisBroken('monitor macro expansion without InterpreterMonitor call at %s' % locstr(n))
            cond = strip(n['c'][0])
            # the CFG element that is evaluated exactly once when the notification point is passed: the comparison
            ev[n['c'][0]['id']] = 'M:' + name
            ev[cond['id']] = 'M:' + name
            sites.append((name, n))
    return ev, sites


def dedupe_events(g, ev):
    """several AST nodes of one guard may all be CFG elements; keep the first one per expansion in evaluation order"""
    out = {}
    groups = {}
    for nid, lab in ev.items():
        if nid in g.pos:
            groups.setdefault((lab, g.pos[nid][0]), []).append(nid)
    # keep per (label, block) clusters: nodes of one expansion are adjacent; keep the last (outermost) evaluation
    for (lab, b), ids in groups.items():
        ids.sort(key=lambda i: g.pos[i][1])
        # adjacent indices belong to the same expansion
        cluster = [ids[0]]
        for i in ids[1:]:
            if g.pos[i][1] - g.pos[cluster[-1]][1] <= 6:
                cluster.append(i)
            else:
                out[cluster[-1]] = lab
                cluster = [i]
        out[cluster[-1]] = lab
    return out


def step_events(fb, f, g, defs):
    ev, sites = monitor_events(f)
    ev = dedupe_events(g, ev)
    cfgwr = {'ins': [], 'del': []}
    for n in f.walk():
        q = n.get('callee', {}).get('q', '')
        if n['k'] == 'CXXMemberCallExpr' and q.startswith('uscxml::MicroStepCallbacks::'):
            m = q.split('::')[-1]
            if m in ('invoke', 'uninvoke'):
                ev[n['id']] = 'I:' + m
            elif m == 'process':
                org = path.origin_members(f, n['c'][1], defs) & {'onExit', 'onEntry', 'onTrans'}
                if len(org) != 1:
                    raise AnalysisBroken('cannot classify process() argument at %s (origins %s)' % (locstr(n), sorted(org)))
                ev[n['id']] = 'P:' + list(org)[0]
            elif m in ('initData', 'raiseDoneEvent'):
                ev[n['id']] = 'C:' + m
        # configuration mutation: LargeMicroStep (flat_set insert/erase on _configuration), FastMicroStep (bitset [] = / &=)
        if n['k'] == 'CXXMemberCallExpr' and q.split('::')[-1] in ('insert', 'erase') and n.get('c'):
            me = n['c'][0]
            base = strip(me['c'][0]) if me.get('c') else None
            if base and base['k'] == 'MemberExpr' and base['ref'].get('name') == '_configuration':
                ev[n['id']] = 'CFG:' + ('insert' if q.endswith('insert') else 'erase')
    if f.q.startswith('uscxml::FastMicroStep'):
        for n in f.walk():
            if n['k'] in ('BinaryOperator', 'CXXOperatorCallExpr', 'CompoundAssignOperator') and n.get('op') in ('=', '&=', '|=') and len(n.get('c', [])) >= 2:
                lhs = n['c'][-2]
                names = {s.get('ref', {}).get('name') for s in sub(lhs)}
                if '_configuration' in names:
                    rhs = strip(n['c'][-1])
                    val = tab.const_of(rhs)
                    if n.get('op') == '=' and val == 1:
                        ev[n['id']] = 'CFG:insert'
                    elif n.get('op') == '=' and val == 0:
                        ev[n['id']] = 'CFG:erase'
                    elif n.get('op') in ('&=',):
                        ev[n['id']] = 'CFG:erase'
                    elif n.get('op') in ('|=',):
                        ev[n['id']] = 'CFG:insert'
    return ev, sites


def protocol_dfa():
    B = 'M:before'
    A = 'M:after'
    t = {}

    def add(s, lab, d):
        t.setdefault(s, {})[lab] = d
    # start
    add('S0', 'M:beforeCompletion', 'C1')
    add('S0', 'I:invoke', 'S0')
    add('S0', 'I:uninvoke', 'S0')
    add('S0', 'M:onStableConfiguration', 'END')
    add('S0', 'M:beforeProcessingEvent', 'P1')
    add('S0', 'M:beforeMicroStep', 'PX')
    # completion bracket: remaining exit handlers and uninvocations
    add('C1', 'M:beforeExitingState', 'C1X')
    add('C1X', 'P:onExit', 'C1X')
    add('C1X', 'CFG:erase', 'C1X')
    add('C1X', 'M:afterExitingState', 'C1')
    add('C1', 'I:uninvoke', 'C1')
    add('C1X', 'I:uninvoke', 'C1X')
    add('C1', 'M:afterCompletion', 'END')
    add('P1', 'M:beforeMicroStep', 'PX')
    # inside the micro-step bracket: exits, then transitions, then entries
    for ph in ('PX', 'PT', 'PN'):
        add(ph, 'M:afterMicroStep', 'A1')
        add(ph, 'M:beforeEnteringState', 'InN')
    add('PX', 'M:beforeExitingState', 'InX')
    add('InX', 'P:onExit', 'InX')
    add('InX', 'CFG:erase', 'InX')
    add('InX', 'M:afterExitingState', 'PX')
    for ph in ('PX', 'PT'):
        add(ph, 'M:beforeTakingTransition', 'InT')
    add('InT', 'P:onTrans', 'InT')
    add('InT', 'M:afterTakingTransition', 'PT')
    add('InN', 'CFG:insert', 'InN')
    add('InN', 'C:initData', 'InN')
    add('InN', 'P:onEntry', 'InN')
    add('InN', 'M:afterEnteringState', 'PN')
    add('PN', 'M:beforeTakingTransition', 'InNT')
    add('InNT', 'P:onTrans', 'InNT')
    add('InNT', 'M:afterTakingTransition', 'PN')
    add('PN', 'C:raiseDoneEvent', 'PN')
    add('A1', 'M:reportIssue', 'A2')
    t.setdefault('END', {})
    t.setdefault('A2', {})
    return path.make_dfa(t), {'S0', 'P1', 'END', 'A1', 'A2'}


def audit_rules_c13(rep, fb):
    """R13.7 - R13.10 (audit round)"""
    from .C08 import edge_dominates
    rep.rule('R13.7', 'LambdaMonitor registers a callback for one side only: every setter with an `after` flag assigns its before- or its after-member under the test of that flag, nothing unconditionally (a callback registered for "after" must not also fire before)')
    n7 = 0
    for f in fb.funcs.values():
        if f.rec != 'uscxml::LambdaMonitor' or not f.d.get('body') or not any(p_['name'] == 'after' for p_ in f.d.get('params', [])):
            continue
        n7 += 1
        loose = [n for n in f.walk() if n['k'] in ('CXXOperatorCallExpr', 'BinaryOperator') and n.get('op') == '=' and any(
            x['k'] == 'MemberExpr' and re.match(r'_(before|after|on)', x['ref'].get('name') or '') for x in sub(n['c'][1] if n['k'] == 'CXXOperatorCallExpr' else n['c'][0])) and not any(
            a_['k'] == 'IfStmt' for a_ in f.ancestors(n))]
        rep.check(not loose, 'R13.7', 'LambdaMonitor::' + f.q.split('::')[-1], locstr(loose[0]) if loose else f.where(), 'LambdaMonitor::%s %s' % (f.q.split('::')[-1],
                  'assigns under the flag only' if not loose else 'assigns `%s` UNCONDITIONALLY: a callback registered with after = true is also installed as the before-callback (fires twice per state, replaces a registered before-callback)' % ' '.join(fb.text(loose[0]).split())[:50]))
    rep.minimum('R13.7', n7, 4, 'LambdaMonitor setters with an `after` flag')
    rep.rule('R13.8', 'uninvoking is announced only for announced invocations: in BasicContentExecutor::invoke the invokeid user datum (on which uninvoke() decides) is stored after every evaluation that can fail, i.e. no param / namelist / content evaluation lies between the store and the beforeInvoking notice')
    inv = fb.fn('uscxml::BasicContentExecutor::invoke')
    g = cfgm.CFG(inv)
    store = [n for n in inv.walk() if n['k'] == 'CXXMemberCallExpr' and n.get('callee', {}).get('q', '').split('::')[-1] == 'setUserData' and n['id'] in g.pos]
    notice = [n for n in inv.walk() if n['id'] in g.pos and n['k'] == 'CXXMemberCallExpr' and n.get('callee', {}).get('q', '').endswith('::beforeInvoking')]
    if not store or not notice:
        raise AnalysisBroken('BasicContentExecutor::invoke: store of the invokeid user datum (%d) or beforeInvoking notice (%d) not found' % (len(store), len(notice)))
    evals = [n for n in inv.walk() if n['id'] in g.pos and n['k'] in ('CXXMemberCallExpr', 'CallExpr') and n.get('callee', {}).get('q', '').split('::')[-1] in ('evalAsData', 'evalAsBool', 'processParams', 'processNameLists', 'elementAsData', 'assign')]
    between = [e for e in evals if g.can_reach(g.pos[store[0]['id']], [e['id']]) is not None and g.can_reach(g.pos[e['id']], [notice[0]['id']]) is not None]
    rep.check(not between, 'R13.8', 'invoke|user datum vs notice', locstr(store[0]), 'between the store of the invokeid user datum and beforeInvoking there %s' % (
        'is no evaluation that can fail' if not between else 'are %d evaluations that can fail (first: %s): <invoke><param expr="1 +* 1"/> gets no invoking notices but an uninvoking pair when its state is left' % (len(between), locstr(between[0]))))
    stable_restored(rep, fb, 'R13.9')
    # ---- R13.12 (second audit) the debugger's account of transitions
    rep.rule('R13.12', 'the debugger reports every taken transition once: Debugger::getQualifiedTransBreakpoints yields a qualified breakpoint for a transition without targets too, and one notification does not become one break per target')
    fbd = facts.FactBase(['src/uscxml/debug/Debugger.cpp'])
    gq = fbd.fn('uscxml::Debugger::getQualifiedTransBreakpoints')
    pushes12 = [n for n in gq.walk() if n['k'] == 'CXXMemberCallExpr' and n.get('callee', {}).get('q', '').split('::')[-1] == 'push_back']
    rep.minimum('R13.12', len(pushes12), 1, 'push_back of a qualified transition breakpoint')
    in_loop = [n for n in pushes12 if any(a['k'] in ('CXXForRangeStmt', 'ForStmt', 'WhileStmt') for a in gq.ancestors(n))]
    outside = [n for n in pushes12 if n not in in_loop]
    rep.check(bool(outside) or not in_loop, 'R13.12', 'getQualifiedTransBreakpoints|targetless', gq.where(), 'a transition without targets %s' % (
        'gets a qualified breakpoint of its own' if outside or not in_loop else 'gets NO qualified breakpoint (the only push_back sits in the loop over the targets): it is invisible to stepping and to every transition breakpoint'))
    rep.check(not in_loop, 'R13.12', 'getQualifiedTransBreakpoints|one per notification', locstr(in_loop[0]) if in_loop else gq.where(), 'a transition with several targets %s' % (
        'is one qualified breakpoint' if not in_loop else 'becomes one qualified breakpoint PER TARGET, and DebugSession::checkBreakpoints breaks once per entry: target="p1 q1" stops the client twice before and twice after one transition'))
    # ---- R13.11 (second audit) the engines read "no event" from an event without name
    rep.rule('R13.11', 'a stable notice only when the internal queue is empty: both engines decide "the internal queue is empty" by the truth value of the dequeued event, which is "has a name" - so an event without name never enters the internal queue (InterpreterImpl::enqueueInternal tests the name), or the engines ask the queue itself')
    iq = fb.fn('uscxml::InterpreterImpl::enqueueInternal')
    g11 = cfgm.CFG(iq)
    enq11 = [n for n in iq.walk() if n.get('callee', {}).get('q', '').endswith('EventQueue::enqueue') and n['id'] in g11.pos]
    guards11 = [n for n in iq.walk() if n['k'] == 'IfStmt' and any(y['k'] == 'MemberExpr' and y.get('ref', {}).get('name') == 'name' for y in sub(n['c'][0]))]
    by_bool = all(any(x['k'] in ('IfStmt', 'WhileStmt') and any(y.get('callee', {}).get('q', '').endswith('dequeueInternal') for y in sub(x['c'][0])) for x in fb.fn(e_).walk()) or
                  any(y.get('callee', {}).get('q', '').split('::')[-1].startswith('operator bool') and 'Event' in y.get('callee', {}).get('q', '') for y in fb.fn(e_).walk())
                  for e_ in ('uscxml::LargeMicroStep::step', 'uscxml::FastMicroStep::step'))
    ok11 = bool(guards11) and bool(enq11) or not by_bool
    rep.check(ok11, 'R13.11', 'enqueueInternal|nameless event', iq.where(), 'an event without name %s' % (
        'does not enter the internal queue' if guards11 else ('is told apart by the engines' if not by_bool else
        'can enter the internal queue (<send target="#_internal"><content>..</content></send>): the engines take it for "queue empty", start invocations and announce a stable configuration while further internal events are still queued')))
    rep.rule('R13.10', 'one monitor set per step: the engines (which copy the set at the top of step()) and the content executor (which notifies from inside that step) use the same set')
    be = [f for f in fb.funcs.values() if f.rec == 'uscxml::BasicContentExecutor' and f.d.get('body')]
    live = [n for f in be for n in f.walk() if n.get('callee', {}).get('q', '').endswith('getMonitors')]
    copies = [n for q in ('uscxml::LargeMicroStep::step', 'uscxml::FastMicroStep::step') for n in fb.fn(q).walk() if n['k'] == 'DeclStmt' and any(
        'init' in d_ and any(x.get('callee', {}).get('q', '').endswith('getMonitors') for x in sub(d_['init'])) and '&' not in (d_.get('t') or '') for d_ in n.get('decls', []))]
    rep.check(not (live and copies), 'R13.10', 'monitor set', locstr(live[0]) if live else 'src/uscxml/interpreter/BasicContentExecutor.cpp', 'the engines %s and the content executor %s' % (
        'copy the monitor set once per step' if copies else 'read the live set', 're-reads the LIVE set for every notice (%d sites): a monitor attached from a callback mid-step receives executing-content notices with no enclosing micro-step or state bracket' % len(live) if live else 'is handed the same set'))


def stable_restored(rep, fb, rule='R13.9'):
    """deserialize() of both engines restores STABLE (C13 R13.9; shared with C14)"""
    rep.rule(rule, 'no stable-configuration notice without a macrostep: deserialize() of both engines restores the STABLE flag (a snapshot is only taken at a stable point), so the first step after a restore does not announce a stable configuration it has not reached')
    for eng in ('uscxml::LargeMicroStep', 'uscxml::FastMicroStep'):
        d = fb.fn(eng + '::deserialize')
        sets_stable = any(m[0] == 'USCXML_CTX_STABLE' for x in d.walk() for m in (x.get('mac') or []))
        rep.check(sets_stable, rule, eng.split('::')[-1] + '::deserialize', d.where(), '%s::deserialize %s' % (eng.split('::')[-1], 'restores STABLE' if sets_stable else
                  'sets INITIALIZED only: the next step() finds STABLE unset and issues onStableConfiguration with 0 microsteps and no event processed'))


def run(rep, tier):
    rep.rule('R13.1', 'nesting DFA on every CFG path (incl. exception edges) of both engines\' step(): S0 -> completion bracket | I* stable | [event] beforeMicroStep exits* transitions* entries* afterMicroStep [issue]; every before has its after; exits, then transitions, then entries')
    rep.rule('R13.2', 'executing-content / invoke / uninvoke brackets in BasicContentExecutor: on every path from a before-notification -- normal or exceptional -- the matching after-notification is issued exactly once before the function is left')
    rep.rule('R13.3', 'stable-configuration notice exactly once per macrostep (exact _flags relation): onStableConfiguration is emitted exactly on the paths that newly set STABLE and return MACROSTEPPED; a step that consumes an event or runs spontaneously leaves STABLE cleared')
    rep.rule('R13.5', 'nothing is reported outside a bracket: the dequeue callbacks, which run before beforeProcessingEvent, do not reach the content executor')
    rep.rule('R13.6', 'an invoked session has the monitors copied to it before its thread starts, so its first steps are reported')
    rep.rule('R13.4', 'completeness: configuration updates, handler/transition content, data initialisation and (un)invocation occur only inside the matching bracket (same DFA)')
    rep.assume('monitors do not throw; the number of attached monitors does not matter: one event per notification point')
    tus = facts.library_tus()
    fb = facts.FactBase(tus)
    ex = exc.ExcFlow(fb, infeasible=set(INFEASIBLE))
    rep.covered(tus=len(tus), extracted=fb.extracted, functions=len(fb.funcs))
    dfa, accepting = protocol_dfa()

    for eq in ENGINES:
        f = fb.fn(eq)
        g = path.EHCFG(f, ex)
        defs = path.local_defs(f)
        ev, sites = step_events(fb, f, g, defs)
        rep.minimum('R13.1', len(sites), 17, 'monitor macro expansions in ' + eq)
        unreachable = [n for name, n in sites if not any(lab == 'M:' + name and g.pos.get(nid, (None,))[0] in g.reachable_blocks() for nid, lab in ev.items())]
        viol, states = path.check_dfa(g, ev, dfa, 'S0', accepting)
        rep.covered(**{eq.split('::')[1] + '_cfg_blocks': len(g.blocks), eq.split('::')[1] + '_product_states': states, eq.split('::')[1] + '_events': len(ev)})
        eng = eq.split('::')[1]
        if not viol:
            rep.ok('R13.1', eng, '%d product states explored over %d events; no path leaves the protocol' % (states, len(ev)))
            rep.ok('R13.4', eng, 'configuration updates, content, initData and (un)invocation only occur inside their brackets')
        for v in viol:
            lab = v.get('event', '')
            rule = 'R13.4' if lab[:2] in ('P:', 'C:', 'CF', 'I:') else 'R13.1'
            node = f.nodes.get(v.get('node')) if v.get('node') is not None else None
            steps = ['%s @%s' % (l, locstr(f.nodes[nid])) for l, nid in v['path'][-14:]]
            if v['kind'] == 'unexpected':
                rep.fail(rule, '%s|%s in %s' % (eng, lab, v['state']), locstr(node) if node else f.where(),
                         '%s occurs in protocol state %s where it is not allowed' % (lab, v['state']), path=steps)
            elif v['kind'] == 'exit-in-state':
                rep.fail('R13.1', '%s|return in %s' % (eng, v['state']), f.where(), 'step() can return inside an open bracket (state %s): a before-notification without its after' % v['state'], path=steps)
            else:
                rep.fail('R13.1', '%s|exception in %s' % (eng, v['state']), f.where(), 'an exception can leave step() in protocol state %s' % v['state'], path=steps)
        rep.sample({'engine': eng, 'events': sorted(set(ev.values()))})

        # ---- R13.3 exact flag relation
        fi = path.FlagInterp(f, lambda n: strip(n) is not None and strip(n)['k'] == 'MemberExpr' and strip(n)['ref'].get('name') == '_flags')

        def retlab(n):
            r = strip(n['c'][0]) if n.get('c') else None
            return r['ref']['name'] if r and 'ref' in r else '?'
        interesting = {nid: lab for nid, lab in ev.items() if lab in ('M:onStableConfiguration', 'M:beforeProcessingEvent', 'M:beforeMicroStep')}
        rel, explored = fi.relation(g, interesting, range(64), ret_label=retlab)
        rep.covered(**{eng + '_flag_states': explored})
        STABLE, SPONT, FIN, TLF, FOUND = 32, 1, 16, 4, 8
        # flag values that can exist between two calls of step(): closure of PRISTINE under the relation
        reach = {0}
        work = [0]
        while work:
            x = work.pop()
            for ret, out, evs in rel[x]:
                if ret not in ('<exception>',) and out not in reach:
                    reach.add(out)
                    work.append(out)
        rep.covered(**{eng + '_reachable_flag_values': sorted(fl(x) for x in reach)})
        bad = []
        n_tuples = 0
        for init in sorted(reach):
            for ret, out, evs in rel[init]:
                if ret == 'USCXML_INITIALIZED':
                    continue      # lazy init path: nothing else happens
                n_tuples += 1
                stable_evt = 'M:onStableConfiguration' in evs
                newly = (not init & STABLE) and bool(out & STABLE)
                if stable_evt != newly:
                    bad.append(('stable-notice', init, ret, out, evs))
                if (ret == 'USCXML_MACROSTEPPED') != stable_evt:
                    bad.append(('macrostepped', init, ret, out, evs))
                if 'M:beforeProcessingEvent' in evs and out & STABLE:
                    bad.append(('event-consumed-but-stable', init, ret, out, evs))
                if 'M:beforeMicroStep' in evs and out & STABLE:
                    bad.append(('microstep-but-stable', init, ret, out, evs))
                if out & FOUND:
                    bad.append(('TRANSITION_FOUND-left-set', init, ret, out, evs))
        kinds = {}
        for b in bad:
            kinds.setdefault(b[0], []).append(b)
        for k, lst in sorted(kinds.items()):
            b = lst[0]
            rep.fail('R13.3', '%s|%s' % (eng, k), f.where(), '%s: from flags %s step() returns %s with flags %s after events %s (%d flag valuations affected)' % (
                k, fl(b[1]), b[2], fl(b[3]), sorted(e[2:] for e in b[4]), len(lst)))
        if not bad:
            rep.ok('R13.3', eng, '%d (flags, return, events) tuples of the exact relation satisfy: notice <=> STABLE newly set <=> MACROSTEPPED; consuming/spontaneous steps leave STABLE clear' % n_tuples)

    # ---- R13.5 nothing outside a bracket: the dequeue callbacks (called in protocol state S0) must not execute content
    from .. import cg as cgm
    callgraph = cgm.CallGraph(fb)
    proc = fb.fn('uscxml::BasicContentExecutor::process')
    for q in ('uscxml::InterpreterImpl::dequeueInternal', 'uscxml::InterpreterImpl::dequeueExternal'):
        f = fb.fn(q)
        pred = callgraph.reach([f])
        hit = proc.m in pred
        rep.check(not hit, 'R13.5', q.split('::')[-1] + '|executes content', f.where(),
                  '%s is called before beforeProcessingEvent and outside the micro-step bracket; it %s' % (q.split('::')[-1], 'reaches BasicContentExecutor::process via %s: content notifications outside any bracket' % ' > '.join(callgraph.path(pred, proc.m)[-4:]) if hit else 'does not execute content'))

    # ---- R13.6 invoked sessions are handed the copyable monitors before they start running
    inv = fb.fn('uscxml::USCXMLInvoker::invoke')
    gi = cfgm.CFG(inv)
    starts = [n for n in inv.walk() if n.get('callee', {}).get('q') in ('uscxml::USCXMLInvoker::start',) or n.get('callee', {}).get('q', '').startswith('std::thread::thread')]
    mon_writes = [n for n in inv.walk() if n['k'] == 'CXXMemberCallExpr' and n.get('callee', {}).get('q', '').split('::')[-1] in ('insert', 'push_back', 'emplace', 'operator=')
                  and any(x['k'] == 'MemberExpr' and x.get('ref', {}).get('name') == '_monitors' for x in sub(n['c'][0]))]
    mon_writes += [n for n in inv.walk() if n.get('callee', {}).get('q', '').endswith('::addMonitor')]
    if not starts:
        raise AnalysisBroken('USCXMLInvoker::invoke: start() call not found')
    rep.minimum('R13.6', len(mon_writes), 1, 'monitor hand-over sites in USCXMLInvoker::invoke')
    late = []
    for st_ in starts:
        if st_['id'] in gi.pos:
            w = gi.can_reach(gi.pos[st_['id']], [m_['id'] for m_ in mon_writes])
            if w:
                late.append(st_)
    rep.check(not late, 'R13.6', 'USCXMLInvoker::invoke|monitors-before-start', inv.where(),
              'the child\'s monitor set is filled %s the invoker thread is started (%d hand-over site(s), start at %s)' % (
                  'AFTER' if late else 'before', len(mon_writes), ', '.join(locstr(x) for x in starts)))

    # ---- R13.2 executor brackets
    PAIRS = {'uscxml::BasicContentExecutor::process': ('ExecutingContent', None),
             'uscxml::BasicContentExecutor::invoke': ('Invoking', 'uscxml::ContentExecutorCallbacks::invoke'),
             'uscxml::BasicContentExecutor::uninvoke': ('Uninvoking', 'uscxml::ContentExecutorCallbacks::uninvoke')}
    nexp = 0
    for q, (stem, inner) in PAIRS.items():
        f = fb.fn(q)
        g = path.EHCFG(f, ex)
        ev, sites = monitor_events(f)
        ev = dedupe_events(g, ev)
        nexp += len(sites)
        t = {}
        t['O'] = {'M:before' + stem: 'IN'}
        t['IN'] = {'M:after' + stem: 'O'}
        if inner:
            for n in f.walk():
                if n.get('callee', {}).get('q') == inner:
                    ev[n['id']] = 'X:' + inner.split('::')[-1]
            t['IN']['X:' + inner.split('::')[-1]] = 'IN'
            t['O']['X:' + inner.split('::')[-1]] = None
            del t['O']['X:' + inner.split('::')[-1]]
        d = path.make_dfa(t)
        if inner:
            path.ALPHABET_CACHE[id(d)].add('X:' + inner.split('::')[-1])
        viol, states = path.check_dfa(g, ev, d, 'O', {'O'}, abexit_ok={'O'})
        name = q.split('::')[-1]
        if not viol:
            rep.ok('R13.2', name, '%d product states; before%s/after%s balanced on every normal and exceptional path' % (states, stem, stem))
        for v in viol:
            steps = ['%s @%s' % (l, locstr(f.nodes[nid])) for l, nid in v['path'][-10:]]
            if v['kind'] == 'abnormal-exit':
                why = [s for s in steps if 'throws' in s or 'exception' in s]
                typ = (why[-1].split('throws ')[-1].split('exception ')[-1].split(' @')[0]) if why else '?'
                rep.fail('R13.2', '%s|exception %s leaves open bracket' % (name, typ), f.where(), 'an exception of type %s leaves %s after before%s without after%s' % (typ, name, stem, stem), path=steps)
            elif v['kind'] == 'exit-in-state':
                rep.fail('R13.2', '%s|return inside bracket' % name, f.where(), '%s can return after before%s without after%s' % (name, stem, stem), path=steps)
            else:
                rep.fail('R13.2', '%s|%s in %s' % (name, v['event'], v['state']), f.where(), '%s in state %s' % (v['event'], v['state']), path=steps)
    rep.minimum('R13.2', nexp, 7, 'monitor macro expansions in BasicContentExecutor')
    # ---- R13.7 .. R13.10
    audit_rules_c13(rep, fb)
