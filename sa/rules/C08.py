"""C08 - external events exactly once, in order, at macrostep boundaries (DESIGN 4/C08)."""
import re
from .. import facts, cg, lock, path, cfg as cfgm, tab
from ..facts import AnalysisBroken, strip, sub, locstr

QUEUE_REC = 'uscxml::BasicEventQueue'
ENGINES = ('uscxml::LargeMicroStep::step', 'uscxml::FastMicroStep::step')

READERS = {'front', 'empty', 'size', 'begin', 'end', 'cbegin', 'cend'}
# who may mutate the queue, and how (FIFO: add at the back, take from the front)
MUTATORS = {
    'uscxml::BasicEventQueue::enqueue': {'push_back'},
    'uscxml::BasicEventQueue::deserialize': {'push_back', 'clear'},
    'uscxml::BasicEventQueue::dequeue': {'pop_front'},
    'uscxml::BasicEventQueue::reset': {'clear'},
    'uscxml::BasicDelayedEventQueue::reset': {'clear'},   # the delayed queue's reset also drops plain queued events
}


def queue_accesses(fb):
    """all uses of BasicEventQueue::_queue: (func, member-expr node, method or None, call node)"""
    res = []
    for f in fb.funcs.values():
        par = None
        for n in f.walk():
            if n['k'] == 'MemberExpr' and n.get('ref', {}).get('name') == '_queue' and n['ref'].get('rec') == QUEUE_REC:
                # is it the receiver of a member call?
                meth, call = None, None
                p = f.parent(n)
                hops = 0
                while p is not None and hops < 4:
                    if p['k'] == 'MemberExpr' and p.get('ref', {}).get('dk') == 'CXXMethod':
                        meth = p['ref']['name']
                    if p['k'] == 'CXXMemberCallExpr' and meth:
                        call = p
                        break
                    if p['k'] not in ('MemberExpr', 'ImplicitCastExpr', 'ParenExpr'):
                        break
                    p = f.parent(p)
                    hops += 1
                res.append((f, n, meth, call))
    return res


def edge_dominates(g, blk, lab, target_block):
    """every path entry -> target_block leaves block `blk` through its successor labelled `lab`"""
    succ = g.succ_labeled(blk)
    allowed = [s for s, l in succ if l is lab]
    if not allowed:
        return False
    seen = {g.entry}
    work = [g.entry]
    while work:
        b = work.pop()
        if b == target_block:
            return False
        if b == blk:
            continue      # do not continue through blk at all: paths through it are examined below
        for s in g.succ(b):
            if s not in seen:
                seen.add(s)
                work.append(s)
    # paths through blk: only the other successors must not reach target
    for s, l in succ:
        if l is lab:
            continue
        seen2 = {s}
        work = [s]
        while work:
            b = work.pop()
            if b == target_block:
                return False
            if b == blk:
                continue
            for x in g.succ(b):
                if x not in seen2:
                    seen2.add(x)
                    work.append(x)
    return True


def macrostep_boundary(rep, fb, rule):
    """dequeue priority and spontaneous re-check in both engines (shared by C01 R01.3 and C08 R08.5)"""
    for eq in ENGINES:
        f = fb.fn(eq)
        g = path.EHCFG(f)
        eng = eq.split('::')[1]
        ext = [n for n in f.walk() if n.get('callee', {}).get('q') == 'uscxml::MicroStepCallbacks::dequeueExternal']
        inte = [n for n in f.walk() if n.get('callee', {}).get('q') == 'uscxml::MicroStepCallbacks::dequeueInternal']
        if len(ext) != 1 or len(inte) != 1:
            raise AnalysisBroken('%s: expected one dequeueExternal and one dequeueInternal site' % eq)
        tb = g.pos[ext[0]['id']][0]
        # (a) SPONTANEOUS test on its false edge
        spont_blocks = []
        int_blocks = []
        for bid, b in g.blocks.items():
            c = b.get('cond')
            if c is None or c not in f.nodes:
                continue
            cn = f.nodes[c]
            names = {s.get('ref', {}).get('name') for s in sub(cn)}
            if '_flags' in names and any(tab.const_of(s) == 1 for s in sub(cn)) and any(s['k'] == 'BinaryOperator' and s.get('op') == '&' for s in sub(cn)):
                spont_blocks.append(bid)

        from ._skel import result_test_blocks
        int_blocks = result_test_blocks(f, g, inte[0])
        if not int_blocks:
            raise AnalysisBroken('%s: no condition tests the result of dequeueInternal' % eq)
        a_ok = any(edge_dominates(g, bid, False, tb) for bid in spont_blocks)
        b_ok = any(edge_dominates(g, bid, False, tb) for bid in int_blocks)
        rep.check(a_ok, rule, eng + '|spontaneous-before-external', locstr(ext[0]), 'dequeueExternal only on the false edge of the SPONTANEOUS test: %s' % a_ok)
        rep.check(b_ok, rule, eng + '|internal-before-external', locstr(ext[0]), 'dequeueExternal only after dequeueInternal returned no event: %s' % b_ok)
        # (c) flag relation
        from .C13 import step_events, fl as flstr
        defs = path.local_defs(f)
        ev2, _ = step_events(fb, f, g, defs)
        fi = path.FlagInterp(f, lambda n: strip(n) is not None and strip(n)['k'] == 'MemberExpr' and strip(n)['ref'].get('name') == '_flags')
        interesting = {nid: lab for nid, lab in ev2.items() if lab in ('M:beforeMicroStep',)}
        interesting[ext[0]['id']] = 'X:dequeueExternal'
        interesting[inte[0]['id']] = 'X:dequeueInternal'

        def retlab(n):
            r = strip(n['c'][0]) if n.get('c') else None
            return r['ref']['name'] if r and 'ref' in r else '?'
        rel, explored = fi.relation(g, interesting, range(64), ret_label=retlab)
        reach = {0}
        work = [0]
        while work:
            x = work.pop()
            for ret, out, evs in rel[x]:
                if out not in reach:
                    reach.add(out)
                    work.append(out)
        bad = {}
        SPONT, FIN, TLF = 1, 16, 4
        for init in reach:
            for ret, out, evs in rel[init]:
                if ret == 'USCXML_INITIALIZED':
                    continue
                if 'M:beforeMicroStep' in evs and not out & SPONT:
                    bad.setdefault('microstep-without-spontaneous-recheck', []).append((init, ret, out, evs))
                if init & SPONT and not out & SPONT and 'M:beforeMicroStep' in evs:
                    bad.setdefault('spontaneous-cleared-after-transitions', []).append((init, ret, out, evs))
                if 'X:dequeueExternal' in evs and init & SPONT and not (init & (FIN | TLF)):
                    bad.setdefault('external-dequeued-while-spontaneous', []).append((init, ret, out, evs))
                if 'X:dequeueExternal' in evs and 'X:dequeueInternal' not in evs:
                    bad.setdefault('external-without-internal', []).append((init, ret, out, evs))
        for k, lst in sorted(bad.items()):
            b = lst[0]
            rep.fail(rule, '%s|%s' % (eng, k), f.where(), '%s: from flags %s step() returns %s with flags %s after %s' % (k, flstr(b[0]), b[1], flstr(b[2]), sorted(b[3])))
        if not bad:
            rep.ok(rule, eng + '|flag-relation', '%d reachable flag values: a step that took transitions always leaves SPONTANEOUS set; external dequeue never with SPONTANEOUS set and always after the internal dequeue' % len(reach))



def run(rep, tier):
    rep.rule('R08.1', 'lock set: every read or write of BasicEventQueue::_queue (class and subclasses) happens with that object\'s _mutex held (flow-sensitive lock sets, must-hold-on-entry across calls)')
    rep.rule('R08.2', 'FIFO ends: the only mutators of _queue are push_back (enqueue, deserialize), pop_front (dequeue) and clear (reset, and deserialize before it appends the snapshot)')
    rep.rule('R08.3', 'exactly once: on every path of dequeue(), an element is removed iff the copy taken from front() before the removal is returned')
    rep.rule('R08.4', 'no lost wake-up: enqueue pushes then notifies, both under the lock; every wait in dequeue is inside a loop whose condition re-reads _queue and waits on the queue\'s own mutex')
    rep.rule('R08.5', 'macrostep boundary: dequeueExternal is reached only after the SPONTANEOUS test failed and dequeueInternal returned no event; a step that took transitions sets SPONTANEOUS, and SPONTANEOUS is cleared only by a selection that found nothing (exact _flags relation)')
    rep.rule('R08.6', 'receive path: Interpreter::receive reaches only enqueueExternal -> the external queue\'s enqueue; the internal queue is filled only through enqueueInternal')
    rep.rule('R08.7', 'the external queue is never replaced once events may be in it: outside init()/reset() every assignment to _externalQueue is dominated by a test that the handle is still empty which is evaluated while _serializationMutex is held (double-checked lazy creation keeps its second check)')
    rep.rule('R08.8', 'an error raised on the timer thread is in the internal queue before the session is woken: in InterpreterImpl::eventReady the enqueueInternal of the error dominates the wake-up enqueueExternal')
    rep.assume('std::recursive_mutex / condition_variable_any semantics; libstdc++ std::list')
    fb = facts.FactBase(facts.library_tus())
    g_ = cg.CallGraph(fb)
    la = lock.LockAnalysis(fb, g_)
    rep.covered(tus=len(fb.tus), extracted=fb.extracted, functions=len(fb.funcs))

    # ---- R08.1 / R08.2
    acc = queue_accesses(fb)
    rep.minimum('R08.1', len(acc), 8, 'uses of BasicEventQueue::_queue')
    for f, n, meth, call in acc:
        held = la.held(f, n)
        ok = ('this', QUEUE_REC + '::_mutex') in held
        ordinal = sum(1 for f2, n2, _, _ in acc if f2 is f and n2['loc'][1] < n['loc'][1])
        rep.check(ok, 'R08.1', '%s|_queue.%s#%d' % (f.q, meth or 'use', ordinal), locstr(n),
                  '_queue.%s in %s with locks held: %s' % (meth or '<use>', f.q, sorted(m for _, m in held) or 'NONE'))
        if meth and meth not in READERS:
            allowed = MUTATORS.get(f.q, set())
            rep.check(meth in allowed, 'R08.2', '%s|%s' % (f.q, meth), locstr(n),
                      '%s mutates the queue with %s (%s)' % (f.q, meth, 'allowed FIFO operation' if meth in allowed else 'not a FIFO operation of this function; allowed here: %s' % sorted(allowed)))
        elif meth is None and f.q not in ('uscxml::BasicEventQueue::serialize', 'uscxml::BasicEventQueue::deserialize'):
            rep.note('R08.2: _queue used as a whole value in %s at %s' % (f.q, locstr(n)))
    for q, ms in MUTATORS.items():
        f = fb.fn(q)
        present = {m for f2, n, m, c in acc if f2 is f and m}
        rep.check(ms <= present, 'R08.2', q + '|has ' + ','.join(sorted(ms)), f.where(), '%s performs %s (found %s)' % (q, sorted(ms), sorted(present)))

    # ---- R08.3
    dq = fb.fn('uscxml::BasicEventQueue::dequeue')
    gd = path.EHCFG(dq)
    ev = {}
    front_vars = set()
    for n in dq.walk():
        if n['k'] == 'DeclStmt':
            for d in n.get('decls', []):
                if 'init' in d and any(m == 'front' and f2 is dq for f2, nn, m, c in acc if c is not None and any(x is c for x in sub(d['init']))):
                    front_vars.add(d['lid'])
                    ev[n['id']] = 'F'
    for f2, nn, m, c in acc:
        if f2 is dq and m == 'pop_front' and c is not None:
            ev[c['id']] = 'P'
        if f2 is dq and m in ('pop_back', 'erase', 'clear', 'remove'):
            ev[c['id']] = 'P?'
    for n in dq.walk():
        if n['k'] == 'ReturnStmt':
            uses = {s['ref'].get('lid') for s in sub(n) if s['k'] == 'DeclRefExpr' and 'lid' in s.get('ref', {})}
            reads_q = any(s['k'] == 'MemberExpr' and s.get('ref', {}).get('name') == '_queue' for s in sub(n))
            ev[n['id']] = 'Rv' if uses & front_vars else ('Rq' if reads_q else 'R0')
    if not front_vars or 'P' not in ev.values():
        raise AnalysisBroken('dequeue idiom not recognised (front copy / pop_front)')
    d = path.make_dfa({'s': {'F': 'f', 'R0': 'end'}, 'f': {'P': 'p'}, 'p': {'Rv': 'end'}, 'end': {}})
    path.ALPHABET_CACHE[id(d)] |= {'P?', 'Rq'}
    viol, states = path.check_dfa(gd, ev, d, 's', {'end'})
    if not viol:
        rep.ok('R08.3', 'dequeue', '%d product states: front-copy, pop_front, return copy | return empty event on every path' % states)
    for v in viol:
        steps = ['%s @%s' % (l, locstr(dq.nodes[nid])) for l, nid in v['path'][-8:]]
        rep.fail('R08.3', 'dequeue|%s %s' % (v['kind'], v.get('event', v.get('state'))), dq.where(), 'dequeue() path leaves the copy/remove/return protocol: %s in state %s' % (v.get('event', v['kind']), v['state']), path=steps)

    # ---- R08.4
    enq = fb.fn('uscxml::BasicEventQueue::enqueue')
    ge = cfgm.CFG(enq)
    push = [c for f2, nn, m, c in acc if f2 is enq and m == 'push_back']
    notif = [n for n in enq.walk() if n.get('callee', {}).get('q', '').startswith('std::_V2::condition_variable_any::notify') or n.get('callee', {}).get('q', '').startswith('std::condition_variable_any::notify') or n.get('callee', {}).get('q', '').endswith('::notify_all') or n.get('callee', {}).get('q', '').endswith('::notify_one')]
    if not push or not notif:
        rep.fail('R08.4', 'enqueue|push+notify', enq.where(), 'enqueue does not both push and notify (push sites %d, notify sites %d)' % (len(push), len(notif)))
    else:
        dom = ge.dominators()
        ok = all(ge.dominates(push[0]['id'], nf['id'], dom) for nf in notif)
        every = ge.all_paths_pass(ge.pos[push[0]['id']], [nf['id'] for nf in notif])
        locked = all(('this', QUEUE_REC + '::_mutex') in la.held(enq, nf) for nf in notif)
        rep.check(ok and every and locked, 'R08.4', 'enqueue|push-then-notify-locked', locstr(notif[0]), 'push dominates notify: %s; every path after push notifies: %s; notify under the lock: %s' % (ok, every, locked))
    waits = [n for n in dq.walk() if n.get('callee', {}).get('q', '').split('::')[-1] in ('wait', 'wait_until', 'wait_for') and 'condition_variable' in n['callee']['q']]
    rep.minimum('R08.4', len(waits), 2, 'condition waits in dequeue')
    for w in waits:
        loop = None
        for a in dq.ancestors(w):
            if a['k'] in ('WhileStmt', 'DoStmt', 'ForStmt'):
                loop = a
                break
        cond_reads = loop is not None and any(s['k'] == 'MemberExpr' and s.get('ref', {}).get('name') == '_queue' for s in sub(loop['c'][0] if loop['k'] != 'DoStmt' else loop['c'][-1]))
        mu = lock.mutex_of(fb, w['c'][1]) if len(w.get('c', [])) > 1 else None
        same = mu == ('this', QUEUE_REC + '::_mutex')
        held = ('this', QUEUE_REC + '::_mutex') in la.held(dq, w)
        rep.check(cond_reads and same and held, 'R08.4', 'dequeue|%s#%d' % (w['callee']['q'].split('::')[-1], waits.index(w)), locstr(w),
                  'wait is in a loop re-reading _queue: %s; waits on the queue mutex: %s; mutex held: %s' % (cond_reads, same, held))

    # ---- R08.5
    macrostep_boundary(rep, fb, 'R08.5')

    # ---- R08.6
    rcv = fb.fn('uscxml::Interpreter::receive')
    callgraph = g_
    pred = callgraph.reach([rcv])
    ee0 = fb.fn('uscxml::InterpreterImpl::enqueueExternal')
    direct = {n['callee']['q'] for n in rcv.walk() if n.get('callee') and n['callee']['q'].startswith('uscxml::InterpreterImpl::')}
    via = all(q in ('uscxml::InterpreterImpl::enqueueExternal', 'uscxml::InterpreterImpl::receive') for q in direct) and bool(direct)
    # the impl-level receive (if any) must end in enqueueExternal on every path
    okpath = True
    for q in direct:
        if q.endswith('::receive'):
            f2 = fb.fn(q)
            g2 = cfgm.CFG(f2)
            enq2 = [n['id'] for n in f2.walk() if n.get('callee', {}).get('q', '').endswith('::enqueueExternal')]
            okpath = bool(enq2) and g2.can_reach(g2.entry_pos(), ['EXIT'], avoid=enq2) is None
    rep.check(via and okpath and ee0.m in pred, 'R08.6', 'Interpreter::receive', rcv.where(), 'receive() forwards to %s and every path ends in enqueueExternal: %s' % (sorted(direct), okpath))
    ee = fb.fn('uscxml::InterpreterImpl::enqueueExternal')
    recv = [lock.expr_text(fb, strip(n['c'][0]['c'][0])) for n in ee.walk() if n['k'] == 'CXXMemberCallExpr' and n['callee']['q'].endswith('EventQueue::enqueue')]
    rep.check(recv == ['_externalQueue'], 'R08.6', 'InterpreterImpl::enqueueExternal', ee.where(), 'enqueueExternal enqueues into %s' % recv)
    ei = fb.fn('uscxml::InterpreterImpl::enqueueInternal')
    recvi = [lock.expr_text(fb, strip(n['c'][0]['c'][0])) for n in ei.walk() if n['k'] == 'CXXMemberCallExpr' and n['callee']['q'].endswith('EventQueue::enqueue')]
    rep.check(recvi == ['_internalQueue'], 'R08.6', 'InterpreterImpl::enqueueInternal', ei.where(), 'enqueueInternal enqueues into %s' % recvi)
    # no other function enqueues into the two queues directly
    for f in fb.funcs.values():
        for n in f.walk():
            if n['k'] == 'CXXMemberCallExpr' and n.get('callee', {}).get('q', '').endswith('EventQueue::enqueue') and n.get('c') and n['c'][0].get('c'):
                r = lock.expr_text(fb, strip(n['c'][0]['c'][0]))
                if r in ('_externalQueue', '_internalQueue') and f.q not in ('uscxml::InterpreterImpl::enqueueExternal', 'uscxml::InterpreterImpl::enqueueInternal'):
                    rep.fail('R08.6', '%s|direct %s' % (f.q, r), locstr(n), '%s enqueues into %s directly, bypassing enqueueExternal/enqueueInternal' % (f.q, r))

    # ---- R08.7
    SER = ('this', 'uscxml::InterpreterImpl::_serializationMutex')
    # functions that install the queue on purpose: constructors / init / clone, and setActionLanguage (configuration API: the caller
    # hands in the queues before the session runs)
    NOT_LAZY = ('init', 'InterpreterImpl', '~InterpreterImpl', 'cloneFrom', 'setActionLanguage')
    n_asg = 0
    for f in fb.funcs.values():
        if f.rec != 'uscxml::InterpreterImpl' or f.q.split('::')[-1] in NOT_LAZY or not f.d.get('cfg'):
            continue
        asg = [n for n in f.walk() if n['k'] == 'CXXOperatorCallExpr' and n.get('op') == '=' and len(n.get('c', [])) > 1 and strip(n['c'][1]) is not None and
               strip(n['c'][1])['k'] == 'MemberExpr' and strip(n['c'][1])['ref'].get('name') == '_externalQueue']
        if not asg:
            continue
        g = cfgm.CFG(f)
        for a in asg:
            n_asg += 1
            if a['id'] not in g.pos:
                continue
            tb = g.pos[a['id']][0]
            ok = False
            for bid, b in g.blocks.items():
                c = b.get('cond')
                if c is None or c not in f.nodes or bid == tb:
                    continue
                cn = f.nodes[c]
                if not any(x['k'] == 'MemberExpr' and x['ref'].get('name') == '_externalQueue' for x in sub(cn)):
                    continue
                if not (edge_dominates(g, bid, True, tb) or edge_dominates(g, bid, False, tb)):
                    continue
                if SER in la.held(f, cn):
                    ok = True
            rep.check(ok, 'R08.7', '%s|_externalQueue assigned' % f.q.split('uscxml::')[-1], locstr(a), 'the assignment of a new queue is %s' % (
                'dominated by an emptiness test made under _serializationMutex' if ok else 'NOT guarded by an emptiness test made under _serializationMutex: two early producers replace each other\'s queue and the events in it are lost'))
    rep.minimum('R08.7', n_asg, 1, 'assignments to _externalQueue outside init()')
    # the configuration entry may install the caller's queue, but must not wipe a lazily created one with an empty handle
    sal = fb.fn('uscxml::InterpreterImpl::setActionLanguage', required=False)
    if sal is not None:
        for a in [n for n in sal.walk() if n['k'] == 'CXXOperatorCallExpr' and n.get('op') == '=' and len(n.get('c', [])) > 1 and strip(n['c'][1]) is not None and
                  strip(n['c'][1])['k'] == 'MemberExpr' and strip(n['c'][1])['ref'].get('name') == '_externalQueue']:
            guarded = any(a_['k'] == 'IfStmt' and any(x['k'] == 'MemberExpr' and x['ref'].get('name') == 'externalQueue' for x in sub(a_['c'][0])) for a_ in sal.ancestors(a))
            rep.check(guarded, 'R08.7', 'setActionLanguage|_externalQueue replaced only by a queue', locstr(a), 'setActionLanguage %s' % (
                'keeps the existing queue when the caller passes none' if guarded else 'assigns al.externalQueue UNCONDITIONALLY: receive("first"); setActionLanguage(al with only a micro-stepper) replaces the lazily created queue by an empty handle, "first" is never processed'))

    # ---- R08.9 eventless transitions are re-checked after EVERY event
    rep.rule('R08.9', 'an event is only taken when no eventless transition is enabled: the engines go through an eventless selection pass after every event, also after one that selected no transition (a guard may read _event, a <finalize> block may have changed data)')
    for eq in ENGINES:
        f9 = fb.fn(eq)
        site = None
        for n in f9.walk():
            if n['k'] == 'IfStmt' and any(m[0] == 'USCXML_CTX_TRANSITION_FOUND' for x in sub(n['c'][0]) for m in (x.get('mac') or [])) and len(n['c']) > 2 and n['c'][2] is not None:
                els = n['c'][2]
                clears = any(x['k'] == 'CompoundAssignOperator' and x.get('op') == '&=' and any(m[0] == 'USCXML_CTX_SPONTANEOUS' for y in sub(x) for m in (y.get('mac') or [])) for x in sub(els))
                if clears:
                    site = (n, els)
        if site is None:
            raise AnalysisBroken('%s: the branch that ends the eventless passes was not found' % eq)
        looks_at_event = any(x['k'] == 'MemberExpr' and x['ref'].get('name') == '_event' for x in sub(site[1]))
        rep.check(looks_at_event, 'R08.9', eq.split('::')[1] + '|eventless pass after an event that selected nothing', locstr(site[0]), 'when a selection pass finds no transition, %s' % (
            'an event pass is followed by one more eventless pass' if looks_at_event else 'SPONTANEOUS is cleared whether or not the pass was for an event: the next internal / external event is dequeued although an eventless transition (guard on _event, data changed by <finalize>) is enabled'))
    # ---- R08.10 "nothing dequeued" is not an event value
    rep.rule('R08.10', 'every accepted event is processed: "no event" is signalled out of band, not by an event whose name is empty (a <send> without event attribute is taken off the queue and dropped silently otherwise)')
    dqx = fb.fn('uscxml::InterpreterImpl::dequeueExternal')
    ob = next((f_ for f_ in fb.funcs.values() if f_.q.endswith('Event::operator bool')), None)
    by_name = ob is not None and any(x['k'] == 'MemberExpr' and x['ref'].get('name') == 'name' for x in ob.walk())
    tests_ev = any(n['k'] in ('IfStmt',) and any(x['k'] == 'CXXMemberCallExpr' and 'operator bool' in x.get('callee', {}).get('q', '') and 'Event' in x.get('callee', {}).get('q', '') for x in sub(n['c'][0])) for n in dqx.walk())
    rep.check(not (by_name and tests_ev), 'R08.10', 'dequeueExternal|empty name as sentinel', dqx.where(), 'dequeueExternal %s' % (
        'distinguishes "nothing dequeued" out of band' if not (by_name and tests_ev) else 'tests the dequeued event with Event::operator bool, which is name.size() > 0 - the in-band unblock sentinel: a real event without a name is taken from the queue and discarded (no beforeProcessingEvent, no finalize, no autoforward, not matched by "*")'))
    # ---- R08.8
    er = fb.fn('uscxml::InterpreterImpl::eventReady')
    ger = path.EHCFG(er) if hasattr(path, 'EHCFG') else cfgm.CFG(er)
    hs = [n for n in er.walk() if n['k'] == 'CXXCatchStmt']
    found = 0
    for h in hs:
        ints = [n for n in sub(h) if n.get('callee', {}).get('q', '').endswith('::enqueueInternal')]
        exts = [n for n in sub(h) if n.get('callee', {}).get('q', '').endswith('::enqueueExternal')]
        if not ints or not exts:
            continue
        found += 1
        g0 = cfgm.CFG(er)
        ok = all(any(g0.dominates(i['id'], x['id']) for i in ints) for x in exts)
        rep.check(ok, 'R08.8', 'eventReady|error before wake-up', locstr(exts[0]), 'in the handler the error is %s the wake-up' % ('enqueued internally before' if ok else 'enqueued AFTER: the woken step finds the internal queue empty, blocks again and the error waits for the next unrelated external event'))
    rep.minimum('R08.8', found, 1, 'handlers of eventReady that enqueue the error and wake the session')
    # ---- R08.11 / R08.12 (second audit)
    restore_replaces(rep, fb, 'R08.12')
    rep.rule('R08.11', 'events of one sender keep their order through the delayed queue: BasicDelayedEventQueue records the order in which delayed events were queued (a sequence number or an ordered container next to the per-event timers); independent libevent timers with the same deadline fire in heap order, not in send order')
    dq11 = 'uscxml::BasicDelayedEventQueue'
    flds = [fd for fd in fb.records.get(dq11, {}).get('fields', [])] + [fd for fd in fb.records.get(dq11 + '::callbackData', {}).get('fields', [])]
    if not flds:
        raise AnalysisBroken('fields of BasicDelayedEventQueue not in the fact base')
    ordered = [fd['name'] for fd in flds if re.search(r'seq|order|serial|counter', fd['name'], re.I) or re.search(r'std::(multi)?map<.*(timeval|uint64|unsigned long|size_t|pair)', fd.get('t', '')) or 'std::deque' in fd.get('t', '') or 'std::list' in fd.get('t', '')]
    rep.check(bool(ordered), 'R08.11', 'BasicDelayedEventQueue|send order', fb.fn(dq11 + '::enqueueDelayed').where(), 'the delayed queue %s' % (
        'records the send order (%s)' % ', '.join(ordered) if ordered else 'keeps one independent timer per event and no record of the order of sends (fields: %s): four <send delay="50ms"> in one block are delivered e1 e4 ..' % ', '.join(fd['name'] for fd in flds)[:120]))


def restore_replaces(rep, fb, rule):
    """the queued events of the snapshot replace what is queued (C08 R08.12, shared with C14 R14.14)"""
    rep.rule(rule, 'each event is processed exactly once across a restore: BasicEventQueue::deserialize empties the queue before it appends the events of the snapshot (the micro-steppers reset before they restore, the data model is re-initialised; a queue that appends runs the pending events twice after a roll-back to a snapshot)')
    qd = fb.fn('uscxml::BasicEventQueue::deserialize')
    g = cfgm.CFG(qd)
    pushes = [n for n in qd.walk() if n['k'] == 'CXXMemberCallExpr' and n.get('callee', {}).get('q', '').split('::')[-1] in ('push_back', 'emplace_back') and n['id'] in g.pos]
    clears = [n for n in qd.walk() if n['k'] == 'CXXMemberCallExpr' and n.get('callee', {}).get('q', '').split('::')[-1] in ('clear', 'swap') and any(
        y['k'] == 'MemberExpr' and y.get('ref', {}).get('name') == '_queue' for y in sub(n['c'][0])) and n['id'] in g.pos] + [
        n for n in qd.walk() if n.get('callee', {}).get('q', '').endswith('BasicEventQueue::reset') and n['id'] in g.pos]
    rep.minimum(rule, len(pushes), 1, 'appends in BasicEventQueue::deserialize')
    ok = bool(clears) and all(any(g.dominates(c_['id'], p_['id']) for c_ in clears) for p_ in pushes)
    rep.check(ok, rule, 'BasicEventQueue::deserialize|replace', locstr(pushes[0]) if pushes else qd.where(), 'the events of the snapshot %s' % (
        'replace the queued ones' if ok else 'are APPENDED to what is queued: receive(a); receive(b); s = serialize(); deserialize(s) processes a b a b'))
