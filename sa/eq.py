"""A-EQ: equation-template extraction for ChartToVHDL's combinational-logic writers.

The writers build every emitted equation with a small comma-operator DSL:
    VBranch* tree = (VASSIGN, VLINE(lhs), (VOR, VLINE(a), (VAND, (VNOT, VLINE(b)), c)));
    VContainer c = VOR;   ...   *c += VLINE(x);      (inside loops over _states/_transitions, under relation filters)
This module evaluates that DSL symbolically.  Result per writer function:
  equations : [Equation]   lhs atom, rhs formula, context (loops / guards)
  containers: {name: Container} kind (or/and) and the adds with their context
  streams   : [(context, [parts])] direct stream insertions (state register, root special case)
Everything is expressed over *canonical* element names (S0 = element of the outermost loop over _states, T0 = ... over
_transitions, S1 = nested loop, P(S0) = parent state) so that renaming a variable does not change any fact.
Anything that does not fit the enumerated idioms raises AnalysisBroken (exit 2), never a verdict.
"""
import itertools
from .facts import strip, sub, AnalysisBroken, locstr

NODEKIND = {'VAssign': 'assign', 'VOr': 'or', 'VAnd': 'and', 'VNot': 'not', 'VNop': 'nop', 'VLine': 'line'}
STATE_ATTRS = {'documentOrder'}
SKIP = ('ImplicitCastExpr', 'ParenExpr', 'ExprWithCleanups', 'MaterializeTemporaryExpr', 'CXXBindTemporaryExpr', 'CXXFunctionalCastExpr',
        'CXXStaticCastExpr', 'ConstantExpr', 'CStyleCastExpr')


def peel(n):
    """strip wrappers including copy constructions and conversion-operator calls"""
    while n is not None:
        k = n['k']
        if k in SKIP and n.get('c'):
            n = n['c'][0]
        elif k == 'CXXConstructExpr' and len(n.get('c', [])) == 1 and n.get('callee', {}).get('q', '').split('::')[-1] in ('VContainer', 'VPointer', 'basic_string'):
            n = n['c'][0]
        elif k == 'CXXMemberCallExpr' and '::operator ' in n.get('callee', {}).get('q', '') and n.get('c'):
            m = n['c'][0]            # MemberExpr -> object
            n = m['c'][0] if m.get('c') else None
        else:
            return n
    return n


def newkind(n):
    for s in sub(n):
        if s['k'] == 'CXXNewExpr' and s.get('newt'):
            return NODEKIND.get(s['newt'].split('::')[-1])
    return None


class Ctx:
    """immutable context: loops (outer..inner) and guards"""
    def __init__(self, loops=(), guards=()):
        self.loops, self.guards = tuple(loops), tuple(guards)

    def loop(self, l):
        return Ctx(self.loops + (l,), self.guards)

    def guard(self, g):
        return Ctx(self.loops, self.guards + (g,))


class Extractor:
    def __init__(self, fb, func):
        self.fb, self.f = fb, func
        self.elem = {}        # lid -> canonical element name
        self.dom = {}         # canonical element name -> 'S' | 'T' | 'E' (events / other)
        self.strvar = {}      # lid -> ('attr', elem, attrname)
        self.iters = {}       # lid -> domain of the container an iterator walks
        self.counter = {}     # lid -> ('count', domain, bound-desc)
        self.containers = {}  # lid -> dict(name, kind, adds, node)
        self.listvar = {}     # lid -> domain of a local list of elements
        self.idxvar = {}      # lid -> index description of an integral local (e.g. size_t pos = strTo<size_t>(ATTR(state, "documentOrder")))
        self.equations, self.streams = [], []
        self._depth, self.inlined = 0, []
        self.depth = {'S': 0, 'T': 0, 'E': 0}
        body = func.d.get('body')
        if not body:
            raise AnalysisBroken('no body for ' + func.q)
        self.block(body, Ctx())

    # ------------------------------------------------------------ elements
    def member_domain(self, n):
        """domain of a container expression: _states -> S, _transitions -> T, local list var, else E"""
        for s in sub(n):
            if s['k'] == 'MemberExpr' and s.get('ref', {}).get('name') in ('_states', '_transitions'):
                return 'S' if s['ref']['name'] == '_states' else 'T'
            if s['k'] == 'DeclRefExpr' and s.get('ref', {}).get('lid') in self.listvar:
                return self.listvar[s['ref']['lid']]
        return 'E'

    def new_elem(self, lid, domain):
        name = '%s%d' % (domain, self.depth[domain])
        self.elem[lid] = name
        self.dom[name] = domain
        return name

    def elem_of(self, n):
        """canonical element an expression of type DOMElement* denotes"""
        n = peel(n)
        if n is None:
            return None
        if n['k'] == 'DeclRefExpr':
            lid = n['ref'].get('lid')
            if lid in self.elem:
                return self.elem[lid]
            if n['ref'].get('name') == '_scxml':
                return 'ROOT'
            return None
        if n['k'] == 'MemberExpr' and n.get('ref', {}).get('name') == '_scxml':
            self.dom['ROOT'] = 'S'
            return 'ROOT'
        if n['k'] == 'UnaryOperator' and n.get('op') == '*':
            x = peel(n['c'][0])
            if x['k'] == 'DeclRefExpr' and x['ref'].get('lid') in self.iters:
                return self.iters[x['ref']['lid']][1]
        if n['k'] == 'CXXOperatorCallExpr' and n.get('op') == '*':
            x = peel(n['c'][1])
            if x['k'] == 'DeclRefExpr' and x['ref'].get('lid') in self.iters:
                return self.iters[x['ref']['lid']][1]
        if n['k'] in ('CallExpr', 'CXXMemberCallExpr') and n.get('callee', {}).get('q', '').endswith('getParentState'):
            args = [a for a in n['c'][1:]]
            e = self.elem_of(args[-1]) if args else None
            if e:
                nm = 'P(%s)' % e
                self.dom[nm] = 'S'
                return nm
        if n['k'] == 'CXXOperatorCallExpr' and n.get('op') == '[]':
            base, idx = n['c'][1], n['c'][2]
            d = self.member_domain(base)
            ix = self.index_of(idx)
            if d == 'S' and ix and ix[0] == 'attr' and ix[2] == 'parent':
                nm = 'P(%s)' % ix[1]
                self.dom[nm] = 'S'
                return nm
            if d in ('S', 'T') and ix and ix[0] == 'count':
                nm = '%s[%s]' % (d, ix[1])
                self.dom[nm] = d
                return nm
        return None

    # ------------------------------------------------------------ strings / indices
    def attr_of(self, n):
        """ATTR(elem, X("name")) / ATTR(elem, kXMLCharFoo) / ATTR_CAST -> ('attr', elem, name) or None"""
        n = peel(n)
        if n is None:
            return None
        if n['k'] == 'DeclRefExpr' and n['ref'].get('lid') in self.strvar:
            return self.strvar[n['ref']['lid']]
        if n['k'] == 'CXXConstructExpr' and n.get('callee', {}).get('q', '').startswith('uscxml::X::X') and n.get('c'):
            n = peel(n['c'][0])
        # std::string(X(elem->getAttribute(X("name")))) : find the getAttribute call at the top of this expression
        g = None
        for s in sub(n):
            q = s.get('callee', {}).get('q', '')
            if s['k'] == 'CXXMemberCallExpr' and q.endswith('::getAttribute'):
                g = s
                break
            if s['k'] in ('CXXOperatorCallExpr',) and s.get('op') in ('+', '[]', '=='):
                return None
        if g is None:
            return None
        obj = g['c'][0]['c'][0] if g['c'][0].get('c') else None
        if obj is not None and peel(obj)['k'] == 'CXXStaticCastExpr':
            obj = peel(obj)['c'][0]
        e = self.elem_of(obj)
        name = None
        for s in sub(g['c'][1]):
            if s['k'] == 'StringLiteral' and 'str' in s:
                name = s['str']
                break
            if s['k'] == 'DeclRefExpr' and s['ref'].get('name', '').startswith('kXMLChar'):
                name = s['ref']['name'][len('kXMLChar'):].lower()
                break
        if name is None:
            return None
        return ('attr', e, name)

    def index_of(self, n):
        """canonical description of an index / number expression"""
        p = peel(n)
        if p is None:
            return None
        if p['k'] in ('CallExpr',) and p.get('callee', {}).get('q', '').split('<')[0].endswith(('strTo', 'toStr')):
            return self.index_of(p['c'][-1])
        if p['k'] == 'DeclRefExpr' and p['ref'].get('lid') in self.counter:
            return self.counter[p['ref']['lid']]
        if p['k'] == 'DeclRefExpr' and p['ref'].get('lid') in self.idxvar:
            return self.idxvar[p['ref']['lid']]
        a = self.attr_of(p)
        if a:
            return a
        if p['k'] == 'BinaryOperator' and p.get('op') == '+':
            a = self.index_of(p['c'][0])
            c = peel(p['c'][1])
            if a and c['k'] == 'IntegerLiteral':
                return ('plus', a, c.get('int', c.get('cval')))
        return None

    def index_domain(self, ix):
        """'S' / 'T' / 'BAD:<why>' / None (unknown)"""
        if ix is None:
            return None
        if ix[0] == 'attr':
            e, a = ix[1], ix[2]
            d = self.dom.get(e)
            if a == 'documentOrder':
                return 'S' if d == 'S' else 'BAD:documentOrder of a %s element' % {'T': 'transition'}.get(d, 'non-state')
            if a == 'postFixOrder':
                return 'T' if d == 'T' else 'BAD:postFixOrder of a %s element' % {'S': 'state'}.get(d, 'non-transition')
            if a == 'source':
                return 'S' if d == 'T' else 'BAD:source of a non-transition'
            if a == 'parent':
                return 'S' if d == 'S' else 'BAD:parent of a non-state'
            return None
        if ix[0] == 'count':
            return ix[2]
        if ix[0] == 'plus':
            return self.index_domain(ix[1])
        return None

    @staticmethod
    def show_index(ix):
        if ix is None:
            return '?'
        if ix[0] == 'attr':
            return '%s.%s' % (ix[1], ix[2])
        if ix[0] == 'count':
            return ix[1]
        if ix[0] == 'plus':
            return '%s+%s' % (Extractor.show_index(ix[1]), ix[2])
        return '?'

    def string_parts(self, n):
        """flatten a std::string concatenation into literal / index / other parts"""
        p = peel(n)
        if p is None:
            return []
        if p['k'] == 'CXXOperatorCallExpr' and p.get('op') == '+':
            return self.string_parts(p['c'][1]) + self.string_parts(p['c'][2])
        if p['k'] == 'StringLiteral':
            return [('lit', p.get('str', ''))]
        if p['k'] == 'CXXConstructExpr' and 'basic_string' in p.get('callee', {}).get('q', '') and p.get('c') and peel(p['c'][0])['k'] == 'StringLiteral':
            return [('lit', peel(p['c'][0]).get('str', ''))]
        ix = self.index_of(p)
        if ix:
            return [('idx', ix, p)]
        return [('other', self.fb.text(p)[:60], p)]

    def atom(self, parts, node):
        """signal atom from the parts of a VLINE argument / stream insertion"""
        lits = [x for x in parts if x[0] == 'lit']
        idx = [x for x in parts if x[0] == 'idx']
        oth = [x for x in parts if x[0] == 'other']
        if not idx and not oth:
            return ('const', ''.join(x[1] for x in lits).strip())
        pre = parts[0][1] if parts and parts[0][0] == 'lit' else ''
        suf = parts[-1][1] if len(parts) > 1 and parts[-1][0] == 'lit' else ''
        if len(idx) == 1 and not oth:
            return ('sig', pre.strip(), idx[0][1], suf.strip(), node)
        return ('sig', pre.strip(), ('other', ' '.join(x[1] for x in oth)), suf.strip(), node)

    # ------------------------------------------------------------ DSL trees
    def tree(self, n):
        """symbolic formula: ('assign', lhs, rhs) | ('or'|'and', [kids]) | ('not', k) | ('nop', k) | atom | ('cont', name) | ('ite', cond, a, b)"""
        p = peel(n)
        if p is None:
            raise AnalysisBroken('%s: empty DSL expression' % self.f.q)
        if p['k'] == 'CXXOperatorCallExpr' and p.get('op') == ',':
            left = self.tree(p['c'][1])
            right = self.tree(p['c'][2])
            if left[0] in ('or', 'and', 'assign*', 'not*', 'nop*'):
                return (left[0], left[1] + [right])
            raise AnalysisBroken('%s: comma applied to %s at %s' % (self.f.q, left[0], locstr(p)))
        if p['k'] == 'CXXOperatorCallExpr' and p.get('op') == '/':
            kind = newkind(p)
            if kind == 'line':
                arg = None
                for s in sub(p):
                    if s['k'] == 'CXXConstructExpr' and s.get('callee', {}).get('q', '').endswith('VLine::VLine'):
                        arg = s['c'][0]
                        break
                if arg is None:
                    raise AnalysisBroken('%s: VLINE without argument at %s' % (self.f.q, locstr(p)))
                return self.atom(self.string_parts(arg), p)
            if kind in ('or', 'and'):
                return (kind, [])
            if kind in ('assign', 'not', 'nop'):
                return (kind + '*', [])
            raise AnalysisBroken('%s: unknown DSL node at %s' % (self.f.q, locstr(p)))
        if p['k'] == 'ConditionalOperator':
            return ('ite', self.cond(p['c'][0]), self.tree(p['c'][1]), self.tree(p['c'][2]))
        if p['k'] == 'DeclRefExpr' and p['ref'].get('lid') in self.containers:
            return ('cont', self.containers[p['ref']['lid']]['name'])
        raise AnalysisBroken('%s: unrecognised DSL operand %s at %s' % (self.f.q, p['k'], locstr(p)))

    def finish(self, t):
        """close starred unary/assign nodes"""
        if not isinstance(t, tuple):
            return t
        k = t[0]
        if k in ('or', 'and'):
            return (k, [self.finish(x) for x in t[1]])
        if k == 'assign*':
            if len(t[1]) != 2:
                raise AnalysisBroken('%s: VASSIGN with %d operands' % (self.f.q, len(t[1])))
            return ('assign', self.finish(t[1][0]), self.finish(t[1][1]))
        if k in ('not*', 'nop*'):
            if len(t[1]) != 1:
                raise AnalysisBroken('%s: %s with %d operands' % (self.f.q, k, len(t[1])))
            return (k[:-1], self.finish(t[1][0]))
        if k == 'ite':
            return ('ite', t[1], self.finish(t[2]), self.finish(t[3]))
        return t

    # ------------------------------------------------------------ conditions
    def cond(self, n):
        p = peel(n)
        if p is None:
            return ('opaque', '')
        k = p['k']
        if k == 'BinaryOperator' and p.get('op') in ('||', '&&'):
            return ('or' if p['op'] == '||' else 'and', self.cond(p['c'][0]), self.cond(p['c'][1]))
        if k == 'UnaryOperator' and p.get('op') == '!':
            return ('not', self.cond(p['c'][0]))
        if k in ('BinaryOperator', 'CXXOperatorCallExpr') and p.get('op') in ('==', '!='):
            a, b = (p['c'][0], p['c'][1]) if k == 'BinaryOperator' else (p['c'][1], p['c'][2])
            pa, pb = peel(a), peel(b)
            res = None
            # relation bit test: R[idx] == '1'
            for x, y in ((pa, pb), (pb, pa)):
                if y is not None and y['k'] == 'CharacterLiteral':
                    r = self.relbit(x)
                    if r:
                        val = y.get('int', y.get('cval'))
                        res = r if val == ord('1') else ('not', r) if val == ord('0') else None
            if res is None:
                ea, eb = self.elem_of(a), self.elem_of(b)
                if ea and eb:
                    res = ('same', ea, eb)
            if res is None:
                # parent.size() == 0
                if pb is not None and pb['k'] == 'IntegerLiteral' and pb.get('int', pb.get('cval')) == 0 and pa['k'] == 'CXXMemberCallExpr' and pa.get('callee', {}).get('q', '').endswith('::size'):
                    at = self.attr_of(pa['c'][0]['c'][0])
                    if at and at[2] == 'parent':
                        res = ('root', at[1])
            if res is None:
                for x, y in ((a, pb), (b, pa)):
                    if y is not None and y['k'] == 'CXXBoolLiteralExpr':
                        inner = self.cond(x)
                        truth = bool(y.get('int', y.get('cval', y.get('val', 0))))
                        res = inner if truth else ('not', inner)
                    elif y is not None and y['k'] in ('GNUNullExpr', 'CXXNullPtrLiteralExpr') and self.elem_of(x):
                        res = ('not', ('exists', self.elem_of(x)))
            if res is None:
                return ('opaque', self.fb.text(p)[:80])
            return ('not', res) if p['op'] == '!=' else res
        if k in ('BinaryOperator', 'CXXOperatorCallExpr') and p.get('op') in ('<', '<=', '>', '>='):
            a, b = (p['c'][0], p['c'][1]) if k == 'BinaryOperator' else (p['c'][1], p['c'][2])
            ia, ib = self.index_of(a), self.index_of(b)
            if ia is not None and ib is not None:
                kind = 'num' if k == 'BinaryOperator' else 'str'
                op = p['op']
                # canonical: strict less-than, possibly negated
                if op == '<':
                    return ('cmp', ia, ib, kind)
                if op == '>':
                    return ('cmp', ib, ia, kind)
                if op == '>=':
                    return ('not', ('cmp', ia, ib, kind))
                return ('not', ('cmp', ib, ia, kind))
        if k in ('CallExpr', 'CXXMemberCallExpr'):
            q = p.get('callee', {}).get('q', '').split('::')[-1]
            if q in ('isCompound', 'isParallel', 'isAtomic', 'isFinal', 'isHistory'):
                e = self.elem_of(p['c'][-1])
                return ('kind', q[2:].lower(), e)
            if q == 'hasAttribute':
                obj = p['c'][0]['c'][0]
                nm = None
                for s in sub(p['c'][1]):
                    if s['k'] == 'DeclRefExpr' and s['ref'].get('name', '').startswith('kXMLChar'):
                        nm = s['ref']['name'][len('kXMLChar'):].lower()
                    if s['k'] == 'StringLiteral' and 'str' in s:
                        nm = s['str']
                return ('has', self.elem_of(obj), nm)
        r = self.relbit(p)
        if r:
            return r
        return ('opaque', self.fb.text(p)[:80])

    def relbit(self, p):
        """R[idx] / R.at(idx) -> ('rel', relation, owner element, index)"""
        p = peel(p)
        if p is None:
            return None
        base = idx = None
        if p['k'] == 'CXXOperatorCallExpr' and p.get('op') == '[]':
            base, idx = p['c'][1], p['c'][2]
        elif p['k'] == 'CXXMemberCallExpr' and p.get('callee', {}).get('q', '').endswith('::at'):
            base, idx = p['c'][0]['c'][0], p['c'][1]
        if base is None:
            return None
        a = self.attr_of(base)
        if not a:
            return None
        return ('rel', a[2], a[1], self.index_of(idx))

    # ------------------------------------------------------------ statements
    def block(self, st, ctx):
        st = st if st['k'] == 'CompoundStmt' else {'k': 'CompoundStmt', 'c': [st]}
        for s in st.get('c', []):
            if s is None:
                continue
            k = s['k']
            if k == 'CompoundStmt':
                self.block(s, ctx)
            elif k == 'DeclStmt':
                self.decl(s, ctx)
            elif k == 'IfStmt':
                kids = s['c']
                # children: [init?, cond, then, else?] -- clang exports cond first when there is no init/condvar
                cond = then = els = None
                real = [c for c in kids if c is not None]
                cond, then = real[0], real[1]
                els = real[2] if len(real) > 2 else None
                c = self.cond(cond)
                if self.only_continue(then) and els is None:
                    ctx = ctx.guard(('not', c))           # `if (c) continue;` guards the rest of the loop body
                    # statements inside the then-branch before the continue still run under c
                    self.block(then, ctx_with(ctx, c, drop_last=True))
                    continue
                self.block(then, ctx.guard(c))
                if els is not None:
                    self.block(els, ctx.guard(('not', c)))
            elif k == 'CXXForRangeStmt':
                dom = 'E'
                for c_ in s.get('c', []):
                    if c_ and c_['k'] == 'DeclStmt':
                        for d in c_.get('decls', []):
                            if d['name'].startswith('__range') and 'init' in d:
                                dom = self.member_domain(d['init'])
                lid = s.get('range', {}).get('lid')
                name = self.new_elem(lid, dom)
                self.depth[dom] += 1
                self.block(s['c'][-1], ctx.loop(('each', dom, name)))
                self.depth[dom] -= 1
            elif k == 'ForStmt':
                self.forstmt(s, ctx)
            elif k in ('ContinueStmt', 'BreakStmt', 'ReturnStmt', 'NullStmt'):
                pass
            else:
                self.expr_stmt(s, ctx)

    @staticmethod
    def only_continue(st):
        body = st.get('c', []) if st['k'] == 'CompoundStmt' else [st]
        # `if (c) break;` in a loop over a container that is sorted by the tested key ends the loop where `continue` would skip
        # every remaining element: same set of admitted elements (the order of _states/_transitions is C05's business)
        return bool(body) and body[-1] is not None and body[-1]['k'] in ('ContinueStmt', 'BreakStmt')

    def forstmt(self, s, ctx):
        init, cond, body = s['c'][0], s['c'][2], s['c'][-1]
        if init is not None and init['k'] == 'DeclStmt' and init.get('decls'):
            d = init['decls'][0]
            t = d.get('t', '') or ''
            ini = d.get('init')
            if ini is not None and any(x.get('callee', {}).get('q', '').endswith('::begin') for x in sub(ini)):
                dom = self.member_domain(ini)
                name = '%s%d' % (dom, self.depth[dom])
                self.dom[name] = dom
                self.iters[d['lid']] = (dom, name)
                self.depth[dom] += 1
                self.block(body, ctx.loop(('each', dom, name)))
                self.depth[dom] -= 1
                return
            # counter loop
            pc = peel(cond)
            if pc is not None and pc['k'] == 'BinaryOperator' and pc.get('op') in ('<', '<='):
                bound = self.index_of(pc['c'][1])
                bdom = self.index_domain(bound)
                if bound is None:
                    for x in sub(pc['c'][1]):
                        if x['k'] == 'MemberExpr' and x.get('ref', {}).get('name') in ('_states', '_transitions'):
                            bdom = 'S' if x['ref']['name'] == '_states' else 'T'
                            bound = ('all', bdom)
                start = peel(ini) if ini is not None else None
                from0 = start is not None and start['k'] == 'IntegerLiteral' and start.get('int', start.get('cval')) == 0
                name = '%s%s%s' % ('j' if from0 else 'j?', pc['op'], self.show_index(bound) if bound and bound[0] != 'all' else 'N' + str(bdom))
                self.counter[d['lid']] = ('count', name, bdom if bdom in ('S', 'T') else None, bound, pc['op'])
                self.block(body, ctx.loop(('count', bdom, name)))
                return
        self.block(body, ctx.loop(('other', None, self.fb.text(s)[:40])))

    def decl(self, s, ctx):
        for d in s.get('decls', []):
            ini = d.get('init')
            t = d.get('t', '') or ''
            if ini is None:
                continue
            if 'VContainer' in t:
                kind = newkind(ini)
                if kind not in ('or', 'and'):
                    raise AnalysisBroken('%s: container %s initialised with %s' % (self.f.q, d['name'], kind))
                self.containers[d['lid']] = {'name': d['name'], 'kind': kind, 'adds': [], 'node': s, 'ctx': ctx}
            elif 'VBranch' in t:
                tr = self.finish(self.tree(ini))
                if tr[0] != 'assign':
                    raise AnalysisBroken('%s: tree %s is not an assignment' % (self.f.q, d['name']))
                self.equations.append({'lhs': tr[1], 'rhs': tr[2], 'ctx': ctx, 'node': s})
            elif 'DOMElement' in t and '*' in t and 'list' not in t and 'vector' not in t:
                e = self.elem_of(ini)
                if e:
                    self.elem[d['lid']] = e
            elif 'list<' in t and 'DOMElement' in t:
                # filterChildElements(prefix + "final", _scxml): children of the root -> states
                lits = [x.get('str') for x in sub(ini) if x['k'] == 'StringLiteral']
                self.listvar[d['lid']] = 'S' if any(l in ('final', 'state', 'parallel', 'history') for l in lits) else 'E'
            elif 'basic_string' in t or 'std::string' in t:
                a = self.attr_of(ini)
                if a:
                    self.strvar[d['lid']] = a
            elif t.replace('const ', '').strip() in ('size_t', 'unsigned long', 'unsigned int', 'int', 'long', 'uint32_t', 'std::size_t'):
                ix = self.index_of(ini)
                if ix is not None:
                    self.idxvar[d['lid']] = ix

    def expr_stmt(self, s, ctx):
        p = peel(s)
        if p is None:
            return
        if p['k'] == 'CXXOperatorCallExpr' and p.get('op') == '+=' and p.get('callee', {}).get('q', '').endswith('VBranch::operator+='):
            tgt = None
            for x in sub(p['c'][1]):
                if x['k'] == 'DeclRefExpr' and x['ref'].get('lid') in self.containers:
                    tgt = self.containers[x['ref']['lid']]
                    break
            if tgt is None:
                raise AnalysisBroken('%s: += on an unknown container at %s' % (self.f.q, locstr(p)))
            tgt['adds'].append({'what': self.finish(self.tree(p['c'][2])), 'ctx': ctx, 'node': p})
            return
        if p['k'] == 'CXXOperatorCallExpr' and p.get('op') == '<<':
            ops = []
            from .tpl import flatten
            flatten(p, ops)
            parts = []
            for o in ops[1:]:
                oo = peel(o)
                if oo['k'] == 'DeclRefExpr' and oo['ref'].get('name') == 'endl':
                    parts.append(('lit', '\n'))
                else:
                    parts += self.string_parts(o)
            self.streams.append({'parts': parts, 'ctx': ctx, 'node': p})
            return
        # a call to another writer of the class (a function split in two): its body is processed in place
        if p['k'] in ('CXXMemberCallExpr', 'CallExpr') and p.get('callee') and not p['callee'].get('ext') and not p['callee'].get('virt') and p['callee']['m'] in self.fb.funcs:
            cf = self.fb.funcs[p['callee']['m']]
            if cf.m != self.f.m and cf.d.get('body') and any('ostream' in (pp.get('t') or '') for pp in cf.d.get('params', [])) and self._depth < 2 and (
                    cf.rec == self.f.rec or (cf.rec is None and cf.file == self.f.file)):
                import copy
                from .inline import _shift
                self._depth += 1
                self.inlined.append(cf.q)
                off = 1000000 * len(self.inlined)          # local ids are per function: shift the callee's
                body = copy.deepcopy(cf.d['body'])
                _shift(body, off)
                # bind element-typed parameters to the elements of the arguments
                args = p['c'][1:]
                for pp, a in zip(cf.d.get('params', []), args):
                    e = self.elem_of(a)
                    if e:
                        self.elem[pp['lid'] + off] = e
                self.block(body, ctx)
                self._depth -= 1
                return
        # tree->print(stream) and anything else: no effect on the extracted facts


def ctx_with(ctx, c, drop_last=False):
    g = ctx.guards[:-1] if drop_last else ctx.guards
    return Ctx(ctx.loops, g + (c,))


# ---------------------------------------------------------------- formulas
def show(t):
    if t[0] == 'sig':
        return '%s[%s]%s' % (t[1], Extractor.show_index(t[2]) if t[2][0] != 'other' else t[2][1], '')
    if t[0] == 'const':
        return t[1]
    if t[0] == 'cont':
        return '{%s}' % t[1]
    if t[0] in ('or', 'and'):
        return '%s(%s)' % (t[0], ', '.join(show(x) for x in t[1]))
    if t[0] in ('not', 'nop'):
        return '%s(%s)' % (t[0], show(t[1]))
    if t[0] == 'ite':
        return 'ite(%s, %s, %s)' % (show_cond(t[1]), show(t[2]), show(t[3]))
    if t[0] == 'assign':
        return '%s <= %s' % (show(t[1]), show(t[2]))
    return str(t)


def show_cond(c):
    k = c[0]
    if k in ('or', 'and'):
        return '(%s %s %s)' % (show_cond(c[1]), k, show_cond(c[2]))
    if k == 'not':
        return '!%s' % show_cond(c[1])
    if k == 'rel':
        return '%s(%s)[%s]' % (c[1], c[2], Extractor.show_index(c[3]))
    if k == 'kind':
        return 'is%s(%s)' % (c[1], c[2])
    if k == 'has':
        return 'has(%s.%s)' % (c[1], c[2])
    if k == 'same':
        return '%s==%s' % (c[1], c[2])
    if k == 'root':
        return 'root(%s)' % c[1]
    if k == 'exists':
        return 'exists(%s)' % c[1]
    if k == 'cmp':
        return '%s<%s%s' % (Extractor.show_index(c[1]), Extractor.show_index(c[2]), '' if c[3] == 'num' else ' (compared as STRINGS)')
    return 'opaque<%s>' % ' '.join(str(c[1]).split())


def atoms(t, out):
    if t[0] in ('sig', 'cont'):
        out.add(show(t))
    elif t[0] == 'const':
        if t[1] not in ("'1'", "'0'"):
            out.add(show(t))
    elif t[0] in ('or', 'and'):
        for x in t[1]:
            atoms(x, out)
    elif t[0] in ('not', 'nop'):
        atoms(t[1], out)
    elif t[0] == 'ite':
        out.add('?' + show_cond(t[1]))
        atoms(t[2], out)
        atoms(t[3], out)
    return out


def evaluate(t, env):
    k = t[0]
    if k in ('sig', 'cont'):
        return env[show(t)]
    if k == 'const':
        return True if t[1] == "'1'" else False if t[1] == "'0'" else env[show(t)]
    if k == 'or':
        return any(evaluate(x, env) for x in t[1])
    if k == 'and':
        return all(evaluate(x, env) for x in t[1])
    if k == 'not':
        return not evaluate(t[1], env)
    if k == 'nop':
        return evaluate(t[1], env)
    if k == 'ite':
        return evaluate(t[2], env) if env['?' + show_cond(t[1])] else evaluate(t[3], env)
    raise ValueError(k)


def truth_table(t, names):
    rows = []
    for vals in itertools.product((False, True), repeat=len(names)):
        rows.append(evaluate(t, dict(zip(names, vals))))
    return rows


# reference formulas are written as nested tuples over atom *names* (strings)
def ref_eval(r, env):
    if isinstance(r, str):
        if r == '1':
            return True
        if r == '0':
            return False
        return env[r]
    k = r[0]
    if k == 'or':
        return any(ref_eval(x, env) for x in r[1:])
    if k == 'and':
        return all(ref_eval(x, env) for x in r[1:])
    if k == 'not':
        return not ref_eval(r[1], env)
    if k == 'ite':
        return ref_eval(r[2], env) if env[r[1]] else ref_eval(r[3], env)
    raise ValueError(k)


def ref_atoms(r, out):
    if isinstance(r, str):
        if r not in ('0', '1'):
            out.add(r)
        return out
    if r[0] == 'ite':
        out.add(r[1])
        ref_atoms(r[2], out)
        ref_atoms(r[3], out)
        return out
    for x in r[1:]:
        ref_atoms(x, out)
    return out


def compare(t, ref):
    """(equal?, explanation) -- semantic comparison by truth table over the union of atoms"""
    a, b = atoms(t, set()), ref_atoms(ref, set())
    if a != b:
        return False, 'atoms differ: only in the writer %s, only in the reference %s' % (sorted(a - b), sorted(b - a))
    names = sorted(a)
    for vals in itertools.product((False, True), repeat=len(names)):
        env = dict(zip(names, vals))
        if evaluate(t, env) != ref_eval(ref, env):
            return False, 'differs for %s: writer gives %s' % ({k: int(v) for k, v in env.items()}, int(evaluate(t, env)))
    return True, '%d atoms, %d valuations agree' % (len(names), 2 ** len(names))
