"""A-CG: whole-program call graph over the fact base (direct calls, CHA for virtual calls,
address-taken functions as potential callees of the referencing function)."""
import collections

CALL_KINDS = ('CallExpr', 'CXXMemberCallExpr', 'CXXOperatorCallExpr', 'CXXConstructExpr', 'CXXTemporaryObjectExpr')


class CallGraph:
    def __init__(self, fb):
        self.fb = fb
        self.out = collections.defaultdict(set)      # mangled -> set(mangled) (defined targets only)
        self.ext = collections.defaultdict(set)      # mangled -> set(qualified external callee names)
        self.sites = collections.defaultdict(list)   # mangled -> [(node, [target Func...])]
        self.callers = collections.defaultdict(set)
        for m, f in fb.funcs.items():
            for n in f.walk():
                k = n['k']
                if k in CALL_KINDS and 'callee' in n:
                    tg = fb.targets(n)
                    self.sites[m].append((n, tg))
                    for t in tg:
                        self.out[m].add(t.m)
                        self.callers[t.m].add(m)
                    if not tg:
                        self.ext[m].add(n['callee']['q'])
                elif k == 'DeclRefExpr' and n.get('ref', {}).get('dk') in ('Function', 'CXXMethod'):
                    # address taken or callee expression; add as potential call
                    tm = n['ref'].get('m')
                    if tm in fb.funcs:
                        self.out[m].add(tm)
                        self.callers[tm].add(m)
                elif k == 'CXXNewExpr' or k == 'CXXDeleteExpr':
                    pass

    def reach(self, roots):
        """mangled names reachable from the given Func roots; returns dict m -> predecessor m (for paths)"""
        pred = {}
        work = []
        for r in roots:
            if r.m not in pred:
                pred[r.m] = None
                work.append(r.m)
        while work:
            m = work.pop()
            for t in self.out.get(m, ()):
                if t not in pred:
                    pred[t] = m
                    work.append(t)
        return pred

    def path(self, pred, m):
        p = []
        while m is not None:
            p.append(self.fb.funcs[m].q)
            m = pred.get(m)
        return list(reversed(p))
