"""CFG utilities over the exported clang CFG (A-DOM, base of A-PATH).

A *position* is (block id, element index).  Elements of a block are AST node ids in
evaluation order (clang CFG with setAllAlwaysAdd: every sub-expression is an element).
"""
import collections


class CFG:
    def __init__(self, func, eh=None):
        """eh: optional callable(node) -> iterable of thrown type names for call/throw nodes
        (adds exception edges: to the matching handler block or to the pseudo block ABEXIT)."""
        self.f = func
        c = func.d.get('cfg')
        if not c:
            raise ValueError('no CFG for ' + func.q)
        self.blocks = {b['id']: b for b in c['blocks']}
        self.entry, self.exit = c['entry'], c['exit']
        self.ABEXIT = -1
        self.pos = {}
        for b in self.blocks.values():
            for i, el in enumerate(b['el']):
                self.pos.setdefault(el, (b['id'], i))
        self.handler_block = {}   # catch stmt node id -> block id
        for b in self.blocks.values():
            if b.get('labelk') == 'CXXCatchStmt' and b.get('label') is not None:
                self.handler_block[b['label']] = b['id']
        self.eh_edges = collections.defaultdict(list)  # (block, idx) -> [(target block, type)]

    def succ(self, bid):
        if bid == self.ABEXIT:
            return []
        out = []
        for s in self.blocks[bid]['succ']:
            if s is None or isinstance(s, list):
                continue
            out.append(s)
        return out

    def succ_labeled(self, bid):
        """[(succ id, label)] label True/False for two-way conditional blocks (clang order: true first)."""
        b = self.blocks[bid]
        ss = b['succ']
        res = []
        two = b.get('cond') is not None and len(ss) == 2 and b.get('termk') in (
            'IfStmt', 'ConditionalOperator', 'BinaryOperator', 'WhileStmt', 'ForStmt', 'DoStmt', 'CXXForRangeStmt')
        for i, s in enumerate(ss):
            if s is None or isinstance(s, list):
                continue
            res.append((s, (i == 0) if two else None))
        return res

    def preds(self):
        p = collections.defaultdict(set)
        for b in self.blocks:
            for s in self.succ(b):
                p[s].add(b)
        return p

    def reachable_blocks(self, start=None):
        start = self.entry if start is None else start
        seen = {start}
        work = [start]
        while work:
            b = work.pop()
            for s in self.succ(b):
                if s not in seen:
                    seen.add(s)
                    work.append(s)
        return seen

    def node_reachable(self, nid):
        return nid in self.pos and self.pos[nid][0] in self.reachable_blocks()

    # ---- path queries on positions
    def can_reach(self, frm, targets, avoid=()):
        """Is there a path starting *after* position frm that reaches one of the target node ids (or 'EXIT')
        without passing a node id in avoid?  Returns the witness list of node ids/blocks or None."""
        targets = set(targets)
        avoid = set(avoid)
        b0, i0 = frm
        seen = set()
        work = [(b0, i0 + 1, ())]
        throws0 = getattr(self, 'throws', None)
        if throws0 and b0 in self.blocks and 0 <= i0 < len(self.blocks[b0]['el']):
            for tgt, t in throws0.get(self.blocks[b0]['el'][i0], ()):
                if tgt == self.ABEXIT:
                    if 'EXIT' in targets:
                        return [('exception-exit', self.blocks[b0]['el'][i0])]
                else:
                    work.append((tgt, 0, (('exception', tgt),)))
        while work:
            b, i, path = work.pop()
            if (b, i) in seen:
                continue
            seen.add((b, i))
            blk = self.blocks[b]
            blocked = False
            throws = getattr(self, 'throws', None)
            for j in range(i, len(blk['el'])):
                el = blk['el'][j]
                if el in targets:
                    return list(path) + [('node', el)]
                if el in avoid:
                    blocked = True
                    break
                if throws and el in throws:
                    # exception edges (EHCFG): control may leave the block here
                    for tgt, t in throws[el]:
                        if tgt == self.ABEXIT:
                            if 'EXIT' in targets:
                                return list(path) + [('exception-exit', el)]
                        else:
                            work.append((tgt, 0, path + (('exception', tgt),)))
            if blocked:
                continue
            if b == self.exit and 'EXIT' in targets:
                return list(path) + [('exit', b)]
            for s in self.succ(b):
                work.append((s, 0, path + (('block', s),)))
        return None

    def entry_pos(self):
        return (self.entry, -1)

    def all_paths_pass(self, frm, through, to=('EXIT',)):
        """every path from after frm to `to` passes one of `through` (node ids)."""
        return self.can_reach(frm, to, avoid=through) is None

    # ---- dominators on blocks
    def dominators(self):
        rb = self.reachable_blocks()
        preds = self.preds()
        dom = {b: set(rb) for b in rb}
        dom[self.entry] = {self.entry}
        changed = True
        order = sorted(rb, reverse=True)
        while changed:
            changed = False
            for b in order:
                if b == self.entry:
                    continue
                ps = [p for p in preds[b] if p in rb]
                new = set.intersection(*(dom[p] for p in ps)) if ps else set()
                new = new | {b}
                if new != dom[b]:
                    dom[b] = new
                    changed = True
        return dom

    def dominates(self, a_nid, b_nid, dom=None):
        """node a is evaluated on every path from entry to node b"""
        if a_nid not in self.pos or b_nid not in self.pos:
            return False
        (ba, ia), (bb, ib) = self.pos[a_nid], self.pos[b_nid]
        if ba == bb:
            return ia < ib
        dom = dom or self.dominators()
        return ba in dom.get(bb, ())
