"""A-QUANT: quantifier-shape analysis on the CFG.

Many helper functions of the step algorithm have the form "accept x only if EVERY y satisfies T(x, y)" (transition domain,
least common compound ancestor, in-final tests).  The defect class is "last one wins" / "any instead of all": a result
site that can be reached although some evaluation of T failed.  The analysis is an exact product of the CFG with a small
state:  values of the function's bool locals (flag idioms), `failed` (may: some membership test evaluated to "not a
member" since the last reset) and `kindok` (must: the candidate passed the kind test since the last reset).
Tests are recognised structurally (callee / operator shape), never by position.
"""
from . import cfg as cfgm
from .facts import strip, sub, locstr, AnalysisBroken


class Spec:
    """member(n) -> +1 if node n evaluates to True when the element IS a member, -1 if True means NOT a member, 0 otherwise
       kind(n)   -> +1 if True means 'candidate has the required kind', -1 if True means it has not, 0 otherwise"""
    def __init__(self, member, kind=None, reset=None):
        self.member, self.kind, self.reset = member, kind or (lambda n: 0), reset or (lambda n: False)


def _bool_locals(func):
    out = set()
    for n in func.walk():
        if n['k'] == 'DeclStmt':
            for d in n.get('decls', []):
                if (d.get('t') or '') in ('bool', '_Bool'):
                    out.add(d['lid'])
    return out


class Quant:
    def __init__(self, func, spec):
        self.f, self.spec = func, spec
        self.g = cfgm.CFG(func)
        self.locals = _bool_locals(func)

    # eval returns a set of (value, failed_delta, kindok_delta)
    def ev(self, n, env):
        n = strip(n)
        if n is None:
            return {(True, False, False), (False, False, False)}
        m = self.spec.member(n)
        if m == 2:
            # an existential test (std::any_of "is a member"): neither outcome says that every element is a member
            return {(True, True, False), (False, True, False)}
        if m:
            # value True  <=> member (m=+1) / not member (m=-1)
            return {(True, m < 0, False), (False, m > 0, False)}
        kd = self.spec.kind(n)
        if kd:
            return {(True, False, kd > 0), (False, False, kd < 0)}
        k = n['k']
        if k == 'CXXMemberCallExpr' and '::operator bool' in n.get('callee', {}).get('q', '') and n.get('c') and n['c'][0].get('c'):
            return self.ev(n['c'][0]['c'][0], env)        # bitset reference -> bool
        if k == 'CXXBoolLiteralExpr':
            v = bool(n.get('int', n.get('cval', n.get('val', 0))))
            return {(v, False, False)}
        if k == 'IntegerLiteral' and n.get('int', n.get('cval')) in (0, 1):
            return {(bool(n.get('int', n.get('cval'))), False, False)}
        if k == 'DeclRefExpr' and n.get('ref', {}).get('lid') in self.locals:
            lid = n['ref']['lid']
            if lid in env:
                return {(env[lid], False, False)}
            return {(True, False, False), (False, False, False)}
        if k == 'UnaryOperator' and n.get('op') == '!':
            return {(not v, f, kk) for v, f, kk in self.ev(n['c'][0], env)}
        if k == 'BinaryOperator' and n.get('op') in ('&&', '||'):
            out = set()
            for va, fa, ka in self.ev(n['c'][0], env):
                if (n['op'] == '&&' and not va) or (n['op'] == '||' and va):
                    out.add((va, fa, ka))
                else:
                    for vb, fb_, kb in self.ev(n['c'][1], env):
                        out.add((vb, fa or fb_, ka or kb))
            return out
        if k == 'ConditionalOperator':
            out = set()
            for vc, fc, kc in self.ev(n['c'][0], env):
                for v, f2, k2 in self.ev(n['c'][1] if vc else n['c'][2], env):
                    out.add((v, fc or f2, kc or k2))
            return out
        if k == 'BinaryOperator' and n.get('op') in ('==', '!='):
            # comparison with a bool literal
            a, b = strip(n['c'][0]), strip(n['c'][1])
            for x, y in ((a, b), (b, a)):
                if y is not None and y['k'] == 'CXXBoolLiteralExpr':
                    lit = bool(y.get('int', y.get('cval', y.get('val', 0))))
                    res = self.ev(x, env)
                    same = (n['op'] == '==') == lit
                    return {(v if same else not v, f, kk) for v, f, kk in res}
        # anything else: unknown value; tests nested inside (e.g. as call arguments) still count as evaluated
        f_any = any(self.spec.member(s) for s in sub(n) if s is not n)
        if f_any:
            return {(True, True, False), (False, True, False), (True, False, False), (False, False, False)}
        return {(True, False, False), (False, False, False)}

    def values_at(self, assigns):
        """assigns: {node id of an assignment: value expression}.  Returns {node id: set of (assigned value, a membership test said
        'not a member' on the path or inside the value)} over all CFG paths (same exact product as run())."""
        seen_vals = {k: set() for k in assigns}
        g = self.g
        init = (g.entry, 0, frozenset(), False, False)
        seen = {init}
        work = [init]
        while work:
            b, i, envf, failed, kindok = work.pop()
            env = dict(envf)
            blk = g.blocks[b]
            els = blk['el']
            j = i
            forked = False
            while j < len(els):
                nid = els[j]
                n = self.f.nodes.get(nid)
                if n is not None:
                    if self.spec.reset(n):
                        failed, kindok = False, False
                    if nid in assigns:
                        for v, fd, kd in self.ev(assigns[nid], env):
                            seen_vals[nid].add((v, failed or fd))
                    tgt = rhs = None
                    if n['k'] == 'DeclStmt':
                        for d in n.get('decls', []):
                            if d['lid'] in self.locals and d.get('init') is not None:
                                tgt, rhs = d['lid'], d['init']
                    elif n['k'] in ('BinaryOperator', 'CompoundAssignOperator') and n.get('op') == '=':
                        l = strip(n['c'][0])
                        if l['k'] == 'DeclRefExpr' and l.get('ref', {}).get('lid') in self.locals:
                            tgt, rhs = l['ref']['lid'], n['c'][1]
                    if tgt is not None:
                        for v, fd, kd in self.ev(rhs, env):
                            e2 = dict(env)
                            e2[tgt] = v
                            st = (b, j + 1, frozenset(e2.items()), failed or fd, kindok or kd)
                            if st not in seen:
                                seen.add(st)
                                work.append(st)
                        forked = True
                        break
                j += 1
            if forked:
                continue
            succ = g.succ_labeled(b)
            cond = blk.get('cond')
            cn = self.f.nodes.get(cond) if cond is not None else None
            if cn is not None and any(l is not None for s_, l in succ):
                outs = self.ev(cn, env)
                for s_, lab in succ:
                    for v, fd, kd in outs:
                        if lab is None or v == lab:
                            st = (s_, 0, frozenset(env.items()), failed or fd, kindok or kd)
                            if st not in seen:
                                seen.add(st)
                                work.append(st)
            else:
                for s_, lab in succ:
                    st = (s_, 0, frozenset(env.items()), failed, kindok)
                    if st not in seen:
                        seen.add(st)
                        work.append(st)
        return seen_vals

    def run(self, results, need_kind=False, only_after_failure=False):
        """results: node ids of result sites.  Returns list of (node id, reason, path) for result sites reachable in a bad state."""
        g = self.g
        results = set(results)
        bad = []
        init = (g.entry, 0, frozenset(), False, False)
        seen = {init}
        work = [(init, ())]
        reported = set()
        while work:
            (b, i, envf, failed, kindok), path = work.pop()
            env = dict(envf)
            blk = g.blocks[b]
            els = blk['el']
            j = i
            while j < len(els):
                nid = els[j]
                n = self.f.nodes.get(nid)
                if n is not None:
                    if self.spec.reset(n):
                        failed, kindok = False, False
                    if nid in results:
                        why = []
                        if only_after_failure:
                            if not failed:
                                why.append('no membership test has failed on this path (the loop is left before every element was examined)')
                        elif failed:
                            why.append('a membership test failed on this path')
                        if need_kind and not kindok:
                            why.append('the candidate was not tested for the required kind on this path')
                        if why and (nid, tuple(why)) not in reported:
                            reported.add((nid, tuple(why)))
                            bad.append((nid, '; '.join(why), list(path)))
                    # assignments to bool locals
                    tgt = rhs = None
                    if n['k'] == 'DeclStmt':
                        for d in n.get('decls', []):
                            if d['lid'] in self.locals and d.get('init') is not None:
                                tgt, rhs = d['lid'], d['init']
                    elif n['k'] in ('BinaryOperator', 'CompoundAssignOperator') and n.get('op') in ('=', '&=', '|='):
                        l = strip(n['c'][0])
                        if l['k'] == 'DeclRefExpr' and l.get('ref', {}).get('lid') in self.locals:
                            tgt, rhs = l['ref']['lid'], n['c'][1]
                            if n['op'] != '=':
                                rhs = {'k': 'BinaryOperator', 'op': '&&' if n['op'] == '&=' else '||', 'c': [n['c'][0], n['c'][1]], 'id': -1, 'loc': n['loc']}
                    if tgt is not None:
                        outs = self.ev(rhs, env)
                        if len(outs) > 1:
                            for v, fd, kd in outs:
                                e2 = dict(env)
                                e2[tgt] = v
                                st = (b, j + 1, frozenset(e2.items()), failed or fd, kindok or kd)
                                if st not in seen:
                                    seen.add(st)
                                    work.append((st, path))
                            break
                        v, fd, kd = next(iter(outs))
                        env[tgt] = v
                        failed, kindok = failed or fd, kindok or kd
                j += 1
            else:
                # end of block: follow successors
                succ = g.succ_labeled(b)
                cond = blk.get('cond')
                cn = self.f.nodes.get(cond) if cond is not None else None
                if cn is not None and any(l is not None for s, l in succ):
                    outs = self.ev(cn, env)
                    for s, lab in succ:
                        for v, fd, kd in outs:
                            if lab is None or v == lab:
                                st = (s, 0, frozenset(env.items()), failed or fd, kindok or kd)
                                if st not in seen:
                                    seen.add(st)
                                    work.append((st, path + (('%s at %s' % ('true' if lab else 'false', locstr(cn))),)))
                else:
                    for s, lab in succ:
                        st = (s, 0, frozenset(env.items()), failed, kindok)
                        if st not in seen:
                            seen.add(st)
                            work.append((st, path))
        return bad
