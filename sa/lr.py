"""A-LR: reader for the LALR(1) tables of a checked-in bison parser (promela.tab.cpp).

Tables come from the AST facts (array initialisers of yypact, yytable, ...); the scalar constants that exist
only as macros are read from the `#define` lines.  parse() walks the tables exactly like bison's yyparse skeleton
and returns the derivation tree, so "how does `c op1 c op2 c` group" is answered by the shipped automaton itself.
"""
import os, re
from .facts import AnalysisBroken, REPO, strip, sub


def _ints(init):
    vals = []
    n = init
    while n and n['k'] != 'InitListExpr' and n.get('c'):
        n = n['c'][0]
    if not n or n['k'] != 'InitListExpr':
        raise AnalysisBroken('table initialiser is not an init list')
    for c in n.get('c', []):
        s = strip(c)
        if 'int' in s and s['k'] == 'IntegerLiteral':
            vals.append(s['int'])
        elif 'cval' in c:
            vals.append(c['cval'])
        elif 'cval' in s:
            vals.append(s['cval'])
        else:
            raise AnalysisBroken('non-constant table entry')
    return vals


def _strs(init):
    n = init
    while n and n['k'] != 'InitListExpr' and n.get('c'):
        n = n['c'][0]
    out = []
    for c in n.get('c', []):
        lit = None
        for s in sub(c):
            if s['k'] == 'StringLiteral':
                lit = s.get('str')
        out.append(lit)
    return out


class Tables:
    def __init__(self, fb, relfile):
        need = ['yypact', 'yydefact', 'yypgoto', 'yydefgoto', 'yytable', 'yycheck', 'yyr1', 'yyr2', 'yytname']
        for t in need:
            if t not in fb.vars:
                raise AnalysisBroken('parser table %s not found in %s' % (t, relfile))
        for t in need[:-1]:
            setattr(self, t, _ints(fb.vars[t]['init']))
        self.yytname = _strs(fb.vars['yytname']['init'])
        src = open(os.path.join(REPO, relfile), errors='replace').read()
        self.const = {}
        for name in ('YYFINAL', 'YYLAST', 'YYNTOKENS', 'YYPACT_NINF', 'YYTABLE_NINF'):
            m = re.search(r'#define\s+%s\s+(-?\d+)' % name, src)
            if not m:
                raise AnalysisBroken('constant %s not found in %s' % (name, relfile))
            self.const[name] = int(m.group(1))
        self.sym = {n: i for i, n in enumerate(self.yytname) if n}
        if len(self.yytable) != self.const['YYLAST'] + 1 or len(self.yycheck) != len(self.yytable):
            raise AnalysisBroken('table sizes inconsistent with YYLAST')

    def symbol(self, name):
        if name not in self.sym:
            raise AnalysisBroken('grammar symbol %s not in yytname' % name)
        return self.sym[name]

    def parse(self, tokens):
        """tokens: list of symbol names (terminals), without $end.  Returns tree (sym, rule, children) or raises ValueError."""
        C = self.const
        toks = [self.symbol(t) for t in tokens] + [0]
        pos = 0
        states = [0]
        vals = []
        steps = 0
        while True:
            steps += 1
            if steps > 10000:
                raise ValueError('parser does not terminate')
            state = states[-1]
            if state == C['YYFINAL']:
                if vals and vals[-1][0] == '$end' and len(vals) >= 2:
                    return vals[-2]
                return vals[-1] if vals else None
            yyn = self.yypact[state]
            act = None
            if yyn != C['YYPACT_NINF']:
                tok = toks[pos]
                idx = yyn + tok
                if 0 <= idx <= C['YYLAST'] and self.yycheck[idx] == tok:
                    a = self.yytable[idx]
                    if a <= 0:
                        if a == 0 or a == C['YYTABLE_NINF']:
                            raise ValueError('syntax error at token %d (%s)' % (pos, self.yytname[tok]))
                        act = ('reduce', -a)
                    else:
                        act = ('shift', a)
            if act is None:
                r = self.yydefact[state]
                if r == 0:
                    raise ValueError('syntax error at token %d (%s)' % (pos, self.yytname[toks[pos]]))
                act = ('reduce', r)
            if act[0] == 'shift':
                states.append(act[1])
                vals.append((self.yytname[toks[pos]], None, []))
                pos += 1
            else:
                r = act[1]
                n = self.yyr2[r]
                kids = vals[len(vals) - n:] if n else []
                if n:
                    del vals[len(vals) - n:]
                    del states[len(states) - n:]
                lhs = self.yyr1[r]
                top = states[-1]
                g = self.yypgoto[lhs - C['YYNTOKENS']] + top
                if 0 <= g <= C['YYLAST'] and self.yycheck[g] == top:
                    ns = self.yytable[g]
                else:
                    ns = self.yydefgoto[lhs - C['YYNTOKENS']]
                states.append(ns)
                vals.append((self.yytname[lhs], r, kids))


def simplify(tree):
    """collapse unit productions; binary: ('bin', op, l, r); unary: ('un', op, x); leaf: token name"""
    sym, rule, kids = tree
    if rule is None:
        return sym
    ks = [simplify(k) for k in kids]
    if len(ks) == 1:
        return ks[0]
    if len(ks) == 3 and isinstance(ks[1], str) and ks[1].startswith('PML_') and kids[1][1] is None:
        return ('bin', ks[1], ks[0], ks[2])
    if len(ks) == 2 and isinstance(ks[0], str) and kids[0][1] is None and ks[0].startswith('PML_'):
        return ('un', ks[0], ks[1])
    if len(ks) == 3 and ks[0] == "'('" and ks[2] == "')'":
        return ('paren', ks[1])
    return (sym, ks)
