"""Verdicts, known-findings matching, evidence and replay files (DESIGN 1.3, 3.2)."""
import json, os, re, sys, time

from .facts import VERIF, AnalysisBroken

KNOWN = os.path.join(VERIF, 'known_findings.txt')


def load_known():
    """finding: property=<id> key=<rule>|<signature> :: text      -> suppresses exactly that key
       fixed: property=<id> <commit> <text>                        -> suppresses nothing"""
    res = {}
    if not os.path.exists(KNOWN):
        return res
    for line in open(KNOWN):
        line = line.strip()
        m = re.match(r'finding:\s+property=(C\d+)\s+key=(\S+)\s+::\s*(.*)$', line)
        if m:
            res[(m.group(1), m.group(2))] = m.group(3)
    return res


class Report:
    def __init__(self, pid, tier, seed=0):
        self.pid, self.tier, self.seed = pid, tier, seed
        self.t0 = time.time()
        self.obligations = []     # (rule, instance, ok, detail)
        self.violations = []      # dict
        self.known_hits = []
        self.notes = []
        self.analysed = {}
        self.rules = {}           # rule -> description
        self.assumptions = []
        self.samples = []
        self.known = load_known()
        self.mins = []            # (rule, found, minimum)
        self.short = []           # instance counts below the hand-confirmed minimum (deferred analysis-broken)

    # ---- bookkeeping
    def rule(self, rid, text):
        self.rules[rid] = text

    def covered(self, **kw):
        for k, v in kw.items():
            self.analysed[k] = v

    def assume(self, text):
        if text not in self.assumptions:
            self.assumptions.append(text)

    def note(self, text):
        self.notes.append(text)
        print('note: ' + text)

    def ok(self, rule, instance, detail=''):
        self.obligations.append((rule, instance, True, detail))

    def fail(self, rule, sig, site, what, path=None):
        """sig: stable signature (no line numbers) used for the known-findings key."""
        key = ('%s|%s' % (rule, sig)).replace(' ', '%20')
        self.obligations.append((rule, sig, False, what))
        rec = {'property': self.pid, 'rule': rule, 'rule_text': self.rules.get(rule, ''), 'key': key, 'site': site,
               'what': what, 'path': path or []}
        if (self.pid, key) in self.known:
            self.known_hits.append(rec)
        else:
            self.violations.append(rec)

    def check(self, cond, rule, sig, site, what, path=None):
        if cond:
            self.ok(rule, sig, what)
        else:
            self.fail(rule, sig, site, what, path)
        return cond

    def minimum(self, rule, found, minimum, what):
        """non-vacuity: fewer rule instances than hand-confirmed => analysis broken"""
        self.mins.append((rule, found, minimum))
        if found < minimum:
            # deferred to finish(): the remaining rules still run, so a change that removes instances AND breaks a rule is
            # reported as the violation it is; without a violation the shortfall makes the run analysis-broken (exit 2)
            self.short.append('%s: only %d instances of "%s" found, hand-confirmed minimum is %d' % (rule, found, what, minimum))

    def sample(self, s):
        if len(self.samples) < 12:
            self.samples.append(s)

    # ---- output
    def finish(self, broken=None):
        wall = time.time() - self.t0
        if self.short:
            broken = '; '.join(self.short + ([broken] if broken else []))
            # a rule that found fewer instances than confirmed did not see the code it judges: its own reports are not decisions
            short_rules = {m.split(':')[0] for m in self.short}
            self.violations = [v for v in self.violations if v['key'].split('|')[0] not in short_rules]
        evdir = os.environ.get('VERIF_EVIDENCE_DIR') or os.path.join(VERIF, 'evidence')     # self-tests on scratch copies write elsewhere
        outdir = os.environ.get('VERIF_OUT_DIR') or os.path.join(VERIF, 'out')
        os.makedirs(evdir, exist_ok=True)
        os.makedirs(outdir, exist_ok=True)
        n_obl = len(self.obligations)
        n_ok = sum(1 for o in self.obligations if o[2])
        distinct = len({(o[0], o[1]) for o in self.obligations})
        per_rule = {}
        for r, inst, ok, _ in self.obligations:
            d = per_rule.setdefault(r, {'text': self.rules.get(r, ''), 'obligations': 0, 'discharged': 0})
            d['obligations'] += 1
            d['discharged'] += 1 if ok else 0
        samples = list(self.samples)
        for r, inst, ok, det in self.obligations:
            if len(samples) >= 12:
                break
            samples.append({'rule': r, 'instance': inst, 'discharged': ok, 'detail': det})
        ev = {
            'property_id': self.pid, 'tier': self.tier, 'seed': self.seed, 'level': 'other',
            'coverage': {
                'explanation': ('static analysis over the clang AST/CFG fact base of /repo\'s current tree; '
                                'every obligation is one rule instance (site, path set or table entry) decided from source; '
                                'rules: ' + '; '.join('%s = %s' % kv for kv in sorted(self.rules.items()))),
                'obligations': n_obl, 'discharged': n_ok,
                'evaluations': max(n_obl, 1), 'distinct_nontrivial': distinct,
                'rule': 'one evaluation = one rule instance bound to a concrete site of the current tree; distinct = distinct (rule, site-signature) pairs',
                'samples': samples or [{'note': 'no obligations'}],
                'analysed': self.analysed, 'per_rule': per_rule,
                'instance_minimums': [{'rule': r, 'found': f, 'min': m} for r, f, m in self.mins],
                'known_findings_matched': [k['key'] for k in self.known_hits],
                'trusted_base': ['clang 14 parser/sema/CFG', 'class-hierarchy call graph', 'library model (DESIGN 3.3)'],
                'checker_cmd': './check %s --tier %s' % (self.pid, self.tier),
                'notes': self.notes[:40],
            },
            'assumptions': self.assumptions,
            'wall_s': round(wall, 2),
            'violations': len(self.violations),
        }
        if broken:
            ev['coverage']['analysis_broken'] = broken
        json.dump(ev, open(os.path.join(evdir, self.pid + '.json'), 'w'), indent=1, default=lambda o: sorted(o) if isinstance(o, (set, frozenset)) else str(o))
        print('analysed: ' + json.dumps(self.analysed))
        for r in sorted(per_rule):
            print('rule %s: %d/%d obligations discharged -- %s' % (r, per_rule[r]['discharged'], per_rule[r]['obligations'], per_rule[r]['text'][:110]))
        for k in self.known_hits:
            print('KNOWN-FINDING: property=%s %s %s: %s' % (self.pid, k['key'], k['site'], k['what']))
        if broken:
            print('ANALYSIS-BROKEN property=%s: %s' % (self.pid, broken))
            if not self.violations:
                return 2
            print('note: the violations below were decided on concrete sites before / independent of the part that could not be analysed')
        if self.violations:
            for i, v in enumerate(self.violations):
                p = os.path.join(outdir, '%s_violation_%d.json' % (self.pid, i))
                v['rerun'] = './check %s --tier %s' % (self.pid, self.tier)
                json.dump(v, open(p, 'w'), indent=1)
                print('  %s at %s: %s' % (v['key'], v['site'], v['what']))
                for step in v['path'][:30]:
                    print('      ' + str(step))
                print('VIOLATION property=%s replay=%s' % (self.pid, p))
            return 1
        print('PASS property=%s tier=%s obligations=%d known_findings=%d wall=%.1fs' % (self.pid, self.tier, n_obl, len(self.known_hits), wall))
        return 0


class Renamed:
    """View of a Report under which a rule function written for one property reports under the rule ids of another:
    ids in `mapping` are translated, everything the function says about other rules is dropped (they are decided where they live)."""

    def __init__(self, rep, mapping):
        self._rep = rep
        self._map = dict(mapping)

    def rule(self, rid, text):
        if rid in self._map:
            self._rep.rule(self._map[rid], text)

    def ok(self, rule, instance, detail=''):
        if rule in self._map:
            self._rep.ok(self._map[rule], instance, detail)

    def fail(self, rule, sig, site, what, path=None):
        if rule in self._map:
            self._rep.fail(self._map[rule], sig, site, what, path)

    def check(self, cond, rule, sig, site, what, path=None):
        if rule in self._map:
            self._rep.check(cond, self._map[rule], sig, site, what, path)
        return cond

    def minimum(self, rule, found, minimum, what):
        if rule in self._map:
            self._rep.minimum(self._map[rule], found, minimum, what)

    def covered(self, **kw):
        pass

    def assume(self, text):
        pass

    def note(self, text):
        pass

    def sample(self, s):
        pass
