"""A-EXC: typed exception flow over the call graph.

mayThrow(f) = least fix-point of: types thrown by `throw` sites in f (static type of the operand; `throw;`
re-throws what the enclosing handler caught), plus mayThrow of every callee (CHA for virtual calls), plus the
library-thrower table below -- minus what an enclosing try's handlers catch (by value/reference of a base class,
or `...`).  Each (function, type) keeps one witness so reports can print a chain down to the throw site.
"""
import re
from .facts import strip, sub, children, locstr
from .cg import CALL_KINDS

# Library calls assumed to throw (DESIGN 3.3).  Deliberately minimal: only APIs for which the repository itself
# has a handler, i.e. the authors' stated belief that they throw; bounds-checked accessors whose precondition the
# caller establishes locally (map::at after find, substr with pos <= size) are not listed.
LIB_THROW = [
    (re.compile(r'^boost::lexical_cast'), 'boost::bad_lexical_cast'),
    (re.compile(r'^luabridge::LuaRef::operator\(\)'), 'luabridge::LuaException'),
    (re.compile(r'^luabridge::LuaException::'), 'luabridge::LuaException'),
    (re.compile(r'^xercesc_3_2::(XercesDOMParser|AbstractDOMParser|DOMLSParserImpl|SAX2XMLReaderImpl)::parse'), 'xercesc_3_2::XMLException'),
    (re.compile(r'^xercesc_3_2::(XercesDOMParser|AbstractDOMParser)::parse'), 'xercesc_3_2::SAXParseException'),
    (re.compile(r'^xercesc_3_2::XMLPlatformUtils::Initialize'), 'xercesc_3_2::XMLException'),
]

STD_BASES = {
    'std::out_of_range': ['std::logic_error'], 'std::invalid_argument': ['std::logic_error'], 'std::length_error': ['std::logic_error'],
    'std::logic_error': ['std::exception'], 'std::runtime_error': ['std::exception'], 'std::bad_alloc': ['std::exception'],
    'std::bad_cast': ['std::exception'], 'boost::bad_lexical_cast': ['std::bad_cast'], 'std::bad_weak_ptr': ['std::exception'],
    'std::system_error': ['std::runtime_error'], 'luabridge::LuaException': ['std::exception'],
    'xercesc_3_2::SAXParseException': ['xercesc_3_2::SAXException'], 'xercesc_3_2::RuntimeException': ['xercesc_3_2::XMLException'],
}


def norm(t):
    if t is None:
        return None
    t = re.sub(r'\b(const|volatile|class|struct)\b', '', t).replace('&', '').strip()
    t = re.sub(r'\s+', ' ', t)
    if t == 'Event':
        t = 'uscxml::Event'
    if t == 'ErrorEvent':
        t = 'uscxml::ErrorEvent'
    return t


class ExcFlow:
    # user-supplied plug-in interfaces that are outside the claims (DESIGN 3.3): calls through them are not followed
    OPAQUE = ('uscxml::InterpreterMonitor::', 'uscxml::Logger::', 'uscxml::LoggerImpl::', 'uscxml::StreamLogger::')

    def __init__(self, fb, infeasible=(), cut=()):
        """infeasible: set of (function q, thrown type) throw sites declared infeasible with a reason elsewhere"""
        self.fb = fb
        self.infeasible = set(infeasible)
        self.cut = set(cut)          # (caller q, callee q) call edges not followed (justified by the rule that passes them)
        self.items = {}
        for m, f in fb.funcs.items():
            self.items[m] = self._scan(f)
        self.may = {m: {} for m in fb.funcs}    # m -> {type: witness}
        self.live = set()                       # (m, catch node id): handler can be entered
        self.live_types = {}                    # (m, catch node id) -> set of types that enter it
        self._cur_q = None
        self._fix()

    # ---- class relation
    def is_sub(self, t, base):
        if t == base:
            return True
        for b in self.fb.bases.get(t, ()):
            if self.is_sub(norm(b), base):
                return True
        for b in STD_BASES.get(t, ()):
            if self.is_sub(b, base):
                return True
        return False

    def caught_by(self, t, stack):
        """innermost-first: which handler (catch node) catches type t, if any"""
        for handlers in reversed(stack):
            for ct, h in handlers:
                if ct == '...' or t == '<any>' and ct == '...' or (t != '<any>' and self.is_sub(t, ct)):
                    return h
        return None

    # ---- per function scan
    def _scan(self, f):
        items = []

        def walk(n, stack, incatch):
            if not isinstance(n, dict):
                return
            k = n.get('k')
            if k == 'CXXTryStmt':
                ch = n.get('c', [])
                handlers = [(norm(h.get('caught')), h) for h in ch[1:]]
                walk(ch[0], stack + [handlers], incatch)
                for h in ch[1:]:
                    walk(h, stack, incatch + [(norm(h.get('caught')), h['id'])])
                return
            if k == 'LambdaExpr':
                return
            if k == 'CXXThrowExpr':
                t = n.get('thrown')
                if t == '<rethrow>':
                    items.append({'kind': 'rethrow', 'types': [c[0] for c in incatch[-1:]], 'stack': stack, 'node': n, 'in': [c[1] for c in incatch]})
                else:
                    items.append({'kind': 'throw', 'type': norm(t), 'stack': stack, 'node': n, 'in': [c[1] for c in incatch]})
            if 'callee' in n and k in CALL_KINDS:
                items.append({'kind': 'call', 'stack': stack, 'node': n, 'in': [c[1] for c in incatch]})
            for c in children(n):
                walk(c, stack, incatch)
        walk(f.d.get('body'), [], [])
        for i in f.d.get('inits', []):
            walk(i.get('init'), [], [])
        return items

    def call_throws(self, n):
        """types a call node may raise (before looking at enclosing handlers): {type: witness}"""
        res = {}
        c = n['callee']
        if c['q'].startswith(self.OPAQUE):
            return res
        for t in self.fb.targets(n):
            if self.cut and (self._cur_q, t.q) in self.cut:
                continue
            for ty, w in self.may.get(t.m, {}).items():
                res.setdefault(ty, ('call', n, t.m))
        q = c['q']
        if c.get('ext', True) or c['m'] not in self.fb.funcs:
            for rx, ty in LIB_THROW:
                if rx.search(q):
                    res.setdefault(ty, ('lib', n, q))
        return res

    def _fix(self):
        changed = True
        while changed:
            changed = False
            for m, its in self.items.items():
                f = self.fb.funcs[m]
                self._cur_q = f.q
                for it in its:
                    if any((m, cid) not in self.live for cid in it['in']):
                        continue            # inside a handler nothing can enter (so far)
                    if it['kind'] == 'throw':
                        if (f.q, it['type']) in self.infeasible:
                            continue
                        ts = {it['type']: ('throw', it['node'], None)}
                    elif it['kind'] == 'rethrow':
                        ts = {}
                        for ct in it['types']:
                            # `throw;` re-raises the dynamic object: every type that can enter the handler
                            for lt in self.live_types.get((m, it['in'][-1]), ()) if it['in'] else ():
                                ts[lt] = ('rethrow', it['node'], None)
                    else:
                        ts = self.call_throws(it['node'])
                    for t, w in ts.items():
                        h = self.caught_by(t, it['stack'])
                        if h is None:
                            if t not in self.may[m]:
                                self.may[m][t] = w
                                changed = True
                        else:
                            key = (m, h['id'])
                            if key not in self.live:
                                self.live.add(key)
                                changed = True
                            lt = self.live_types.setdefault(key, set())
                            if t not in lt:
                                lt.add(t)
                                changed = True

    # ---- queries
    def escaping(self, func, node, stack=None):
        """types that may leave `func` from call node `node` (i.e. not caught by the try blocks enclosing it)"""
        self._cur_q = func.q
        for it in self.items[func.m]:
            if it['node'] is node:
                ts = self.call_throws(node) if it['kind'] == 'call' else {it.get('type'): None}
                return {t: w for t, w in ts.items() if self.caught_by(t, it['stack']) is None}
        return {}

    def enclosing_handlers(self, func, node):
        for it in self.items[func.m]:
            if it['node'] is node:
                return it['stack']
        return []

    def chain(self, m, t, limit=10):
        """witness chain from function m down to the throw site of type t"""
        out = []
        cur = m
        for _ in range(limit):
            w = self.may.get(cur, {}).get(t)
            if not w:
                break
            kind, node, nxt = w
            if kind == 'call':
                out.append('%s calls %s at %s' % (self.fb.funcs[cur].q, node['callee']['q'], locstr(node)))
                if t not in self.may.get(nxt, {}):
                    break
                cur = nxt
            elif kind == 'lib':
                out.append('%s calls library thrower %s at %s' % (self.fb.funcs[cur].q, nxt, locstr(node)))
                break
            else:
                out.append('%s: %s %s at %s' % (self.fb.funcs[cur].q, kind, t, locstr(node)))
                break
        return out
