"""A-TAB: table extraction from if-chains and switch statements; A-GUARD: non-emptiness must-analysis."""
from .facts import strip, sub, children, AnalysisBroken
from . import cfg as cfgm

TERMINATORS = ('BreakStmt', 'ReturnStmt', 'ContinueStmt', 'GotoStmt', 'CXXThrowExpr')


def const_of(n):
    n = strip(n)
    if n is None:
        return None
    if 'int' in n and n['k'] in ('IntegerLiteral', 'CharacterLiteral', 'CXXBoolLiteralExpr'):
        return n['int']
    if 'cval' in n:
        return n['cval']
    if n['k'] == 'DeclRefExpr' and 'val' in n.get('ref', {}):
        return n['ref']['val']
    return None


def enum_name(n):
    n = strip(n)
    if n and n['k'] == 'DeclRefExpr' and n['ref'].get('dk') == 'EnumConstant':
        return n['ref']['name']
    return None


def ends_control(stmts):
    if not stmts:
        return False
    last = stmts[-1]
    k = last['k']
    if k in TERMINATORS:
        return True
    if k == 'ExprWithCleanups' and last.get('c') and last['c'][0]['k'] == 'CXXThrowExpr':
        return True
    if k == 'CompoundStmt':
        return ends_control(last.get('c', []))
    if k == 'IfStmt' and len(last.get('c', [])) >= 3 and last['c'][2] is not None:
        # if / else where both branches leave
        return ends_control([last['c'][1]]) and ends_control([last['c'][2]])
    if k == 'SwitchStmt':
        # a nested switch with a default arm whose arms all leave by return / throw / goto / continue (a break only leaves
        # the nested switch)
        try:
            arms = switch_arms(last)
        except Exception:
            return False
        def leaves(stmts):
            return ends_control(stmts) and not _ends_with_break(stmts)
        return bool(arms) and any(a['default'] for a in arms) and all(leaves(a['eff']) for a in arms)
    return False


def _ends_with_break(stmts):
    last = stmts[-1]
    if last['k'] == 'CompoundStmt':
        return bool(last.get('c')) and _ends_with_break(last['c'])
    return last['k'] == 'BreakStmt'


def switch_arms(sw):
    """[{'values': [ints], 'names': [enum names], 'default': bool, 'stmts': [...own...], 'eff': [...with fallthrough...]}]"""
    body = sw['c'][-1]
    if body['k'] != 'CompoundStmt':
        raise AnalysisBroken('switch body is not a compound statement at %s' % (sw.get('loc'),))
    arms = []
    cur = None
    for ch in body.get('c', []):
        if ch['k'] in ('CaseStmt', 'DefaultStmt'):
            vals, names, dflt = [], [], False
            n = ch
            while n['k'] in ('CaseStmt', 'DefaultStmt'):
                if n['k'] == 'CaseStmt':
                    vals.append(n.get('int', const_of(n['c'][0])))
                    names.append(enum_name(n['c'][0]))
                    n = n['c'][-1]
                else:
                    dflt = True
                    n = n['c'][-1] if n.get('c') else None
                if n is None:
                    break
            cur = {'values': vals, 'names': names, 'default': dflt, 'stmts': [n] if n is not None else [], 'node': ch}
            arms.append(cur)
        elif cur is not None:
            cur['stmts'].append(ch)
    for i, a in enumerate(arms):
        eff = list(a['stmts'])
        j = i
        while not ends_control(arms[j]['stmts']) and j + 1 < len(arms):
            j += 1
            eff += arms[j]['stmts']
        a['eff'] = eff
    return arms


def if_chain(ifstmt):
    """[(cond node, then node)], else node   for  if..else if..else chains"""
    res = []
    n = ifstmt
    els = None
    while n is not None and n['k'] == 'IfStmt':
        c = n['c']
        res.append((c[0], c[1]))
        els = c[2] if len(c) > 2 else None
        n = els
        if n is not None and n['k'] != 'IfStmt':
            break
        if n is not None:
            els = None
    return res, els


# --------------------------------------------------------------------------
# container non-emptiness (A-GUARD)

def container_id(call):
    """identity of the receiver of a member call: ('lid', n) | ('mem', name) | None"""
    if not call.get('c'):
        return None
    me = call['c'][0]
    if me['k'] != 'MemberExpr' or not me.get('c'):
        return None
    base = strip(me['c'][0])
    if base['k'] == 'DeclRefExpr' and 'lid' in base['ref']:
        return ('lid', base['ref']['lid'], base['ref']['name'])
    if base['k'] == 'MemberExpr' and base.get('c') and strip(base['c'][0])['k'] == 'CXXThisExpr':
        return ('mem', base['ref']['name'], base['ref']['name'])
    return None


def method_name(call):
    q = call.get('callee', {}).get('q', '')
    return q.split('::')[-1]


NEEDS = ('back', 'front', 'pop_back', 'pop_front')
MAKES = ('push_back', 'push_front', 'emplace_back', 'emplace_front')
KILLS = ('pop_back', 'pop_front', 'clear', 'erase', 'remove', 'splice', 'swap', 'operator=')


def nonempty_violations(func, is_container=lambda call: True):
    """Forward must-analysis: set of containers known non-empty.  Returns list of (node, container name)
    for back/front/pop_* calls reached on some path without the container known non-empty."""
    g = cfgm.CFG(func)
    nodes = func.nodes
    # per edge refinement from the block's terminator condition
    def cond_facts(bid):
        b = g.blocks[bid]
        c = b.get('cond')
        if c is None or c not in nodes:
            return None
        n = strip(nodes[c])
        # clang reports the whole `a || b` as condition of the block that evaluates only its last operand
        while n['k'] == 'BinaryOperator' and n.get('op') in ('||', '&&') and b.get('termk') != 'BinaryOperator':
            n = strip(n['c'][1])
        neg = False
        while n['k'] == 'UnaryOperator' and n.get('op') == '!':
            neg = not neg
            n = strip(n['c'][0])
        if n['k'] == 'CXXMemberCallExpr' and method_name(n) == 'empty':
            cid = container_id(n)
            if cid:
                # cond true means empty (unless negated)
                return (cid, 'false' if not neg else 'true')
        if n['k'] == 'BinaryOperator' and n.get('op') in ('>', '!=', '==', '<', '>=', '<='):
            l, r = strip(n['c'][0]), strip(n['c'][1])
            if l['k'] == 'CXXMemberCallExpr' and method_name(l) == 'size' and const_of(r) is not None:
                cid = container_id(l)
                k = const_of(r)
                op = n['op']
                if cid:
                    if (op == '>' and k >= 0) or (op == '!=' and k == 0) or (op == '>=' and k >= 1):
                        return (cid, 'true' if not neg else 'false')
                    if (op == '==' and k == 0) or (op == '<' and k == 1) or (op == '<=' and k == 0):
                        return (cid, 'false' if not neg else 'true')
        return None

    TOP = None
    state_in = {g.entry: frozenset()}
    work = [g.entry]
    viol = {}
    ok_sites = set()
    while work:
        bid = work.pop()
        st = set(state_in[bid])
        for el in g.blocks[bid]['el']:
            n = nodes.get(el)
            if not n or n['k'] != 'CXXMemberCallExpr':
                continue
            cid = container_id(n)
            if not cid or not is_container(n):
                continue
            key = cid[:2]
            m = method_name(n)
            if m in NEEDS:
                if key not in st:
                    viol[el] = (n, cid[2])
                else:
                    ok_sites.add(el)
            if m in KILLS:
                st.discard(key)
            if m in MAKES:
                st.add(key)
        cf = cond_facts(bid)
        for s, lab in g.succ_labeled(bid):
            out = set(st)
            if cf and lab is not None:
                cid, when = cf
                if (when == 'true' and lab is True) or (when == 'false' and lab is False):
                    out.add(cid[:2])
            out = frozenset(out)
            if s not in state_in:
                state_in[s] = out
                work.append(s)
            else:
                new = state_in[s] & out
                if new != state_in[s]:
                    state_in[s] = new
                    work.append(s)
    # re-evaluate at fix-point (violations recorded during iteration may have been on stale states, but
    # states only shrink, so anything recorded stays a violation; ok_sites may be stale -> recompute)
    final_viol = {}
    final_ok = set()
    for bid, st0 in state_in.items():
        st = set(st0)
        for el in g.blocks[bid]['el']:
            n = nodes.get(el)
            if not n or n['k'] != 'CXXMemberCallExpr':
                continue
            cid = container_id(n)
            if not cid or not is_container(n):
                continue
            key = cid[:2]
            m = method_name(n)
            if m in NEEDS:
                if key not in st:
                    final_viol[el] = (n, cid[2], m)
                else:
                    final_ok.add(el)
            if m in KILLS:
                st.discard(key)
            if m in MAKES:
                st.add(key)
    return list(final_viol.values()), len(final_ok)
