"""A-LOCK: lock sets (flow-sensitive inside a function, must-hold-on-entry across calls) and the lock-order graph
with pseudo-locks for libevent callbacks and thread joins."""
import collections
from .facts import strip, sub, locstr, AnalysisBroken
from . import cfg as cfgm

GUARD_TYPES = ('std::lock_guard<', 'std::unique_lock<', 'std::scoped_lock<')


def expr_text(fb, n):
    t = fb.text(n).strip()
    return ' '.join(t.split())


def mutex_of(fb, init):
    """(base repr, 'Class::member') of the mutex expression in a guard initialiser / lock call receiver"""
    for s in sub(init):
        if s['k'] == 'MemberExpr' and 'mutex' in s.get('ref', {}).get('t', '').lower():
            base = strip(s['c'][0]) if s.get('c') else None
            if base is None or base['k'] == 'CXXThisExpr':
                b = 'this'
            else:
                b = expr_text(fb, base)
            return (b, s['ref'].get('rec', '?') + '::' + s['ref']['name'])
        if s['k'] == 'DeclRefExpr' and 'mutex' in s.get('ref', {}).get('t', '').lower() and 'q' in s['ref']:
            return ('global', s['ref']['q'])
    return None


class FuncLocks:
    """locks held at every CFG element of one function (by this function's own acquisitions)"""

    def __init__(self, fb, func):
        self.fb, self.f = fb, func
        self.g = cfgm.CFG(func)
        nodes = func.nodes
        self.guards = {}      # lid -> (mutex, scope node-id set, decl node)
        self.acq_sites = []   # (node, mutex)
        for n in func.walk():
            if n['k'] == 'DeclStmt':
                for d in n.get('decls', []):
                    if d['t'].startswith(GUARD_TYPES) and 'init' in d:
                        mu = mutex_of(fb, d['init'])
                        if mu is None:
                            continue
                        par = func.parent(n)
                        scope = {s['id'] for s in sub(par)} if par else set()
                        deferred = any(x.get('ref', {}).get('name') in ('defer_lock', 'try_to_lock') for x in sub(d['init']))
                        self.guards[d['lid']] = (mu, scope, n, deferred)
        # transfer functions per element
        self.gen = collections.defaultdict(list)
        self.kill = collections.defaultdict(list)
        for lid, (mu, scope, n, deferred) in self.guards.items():
            if not deferred:
                self.gen[n['id']].append(('g', lid, mu))
                self.acq_sites.append((n, mu))
        for n in func.walk():
            if n['k'] == 'CXXMemberCallExpr' and n.get('c'):
                q = n.get('callee', {}).get('q', '')
                name = q.split('::')[-1]
                me = n['c'][0]
                base = strip(me['c'][0]) if me.get('c') else None
                if base is None:
                    continue
                if name in ('lock', 'unlock', 'try_lock'):
                    if base['k'] == 'DeclRefExpr' and base['ref'].get('lid') in self.guards:
                        lid = base['ref']['lid']
                        mu = self.guards[lid][0]
                        if name == 'unlock':
                            self.kill[n['id']].append(('g', lid, mu))
                        else:
                            self.gen[n['id']].append(('g', lid, mu))
                            self.acq_sites.append((n, mu))
                    elif 'mutex' in base.get('t', '').lower():
                        mu = mutex_of(fb, base)
                        if mu:
                            if name == 'unlock':
                                self.kill[n['id']].append(('r', None, mu))
                            else:
                                self.gen[n['id']].append(('r', None, mu))
                                self.acq_sites.append((n, mu))
        self._solve()

    def _solve(self):
        g = self.g
        IN = {g.entry: frozenset()}
        work = [g.entry]
        self.before = {}
        while work:
            b = work.pop()
            st = set(IN[b])
            for el in g.blocks[b]['el']:
                st = {x for x in st if x[0] != 'g' or el in self.guards[x[1]][1]}
                for k in self.kill.get(el, ()):
                    st = {x for x in st if not (x[0] == k[0] and x[1] == k[1] and x[2] == k[2])}
                for x in self.gen.get(el, ()):
                    st.add(x)
            out = frozenset(st)
            for s in g.succ(b):
                if s not in IN:
                    IN[s] = out
                    work.append(s)
                else:
                    new = IN[s] & out
                    if new != IN[s]:
                        IN[s] = new
                        work.append(s)
        # final pass: state before each element
        for b, st0 in IN.items():
            st = set(st0)
            for el in g.blocks[b]['el']:
                st = {x for x in st if x[0] != 'g' or el in self.guards[x[1]][1]}
                self.before[el] = frozenset(x[2] for x in st)
                for k in self.kill.get(el, ()):
                    st = {x for x in st if not (x[0] == k[0] and x[1] == k[1] and x[2] == k[2])}
                for x in self.gen.get(el, ()):
                    st.add(x)

    def held_at(self, n):
        """mutexes held (by this function) when node n is evaluated; searches enclosing nodes that are CFG elements"""
        x = n
        while x is not None:
            if x['id'] in self.before:
                return self.before[x['id']]
            x = self.f.parent(x)
        return frozenset()


class LockAnalysis:
    def __init__(self, fb, callgraph):
        self.fb, self.cg = fb, callgraph
        self._fl = {}
        self._entry = None

    def fl(self, func):
        if func.m not in self._fl:
            self._fl[func.m] = FuncLocks(self.fb, func)
        return self._fl[func.m]

    def _receiver(self, call):
        if call['k'] != 'CXXMemberCallExpr' or not call.get('c'):
            return None
        me = call['c'][0]
        base = strip(me['c'][0]) if me.get('c') else None
        if base is None or base['k'] == 'CXXThisExpr':
            return 'this'
        return expr_text(self.fb, base)

    def entry_locks(self):
        """must-hold on entry per function (as callee-relative names): intersection over all call sites in the repo"""
        if self._entry is not None:
            return self._entry
        TOP = None
        entry = {m: TOP for m in self.fb.funcs}
        # functions never called from repo code start with the empty set
        called = set()
        for m, sites in self.cg.sites.items():
            for n, tg in sites:
                for t in tg:
                    called.add(t.m)
        for m in self.fb.funcs:
            if m not in called:
                entry[m] = frozenset()
        changed = True
        rounds = 0
        while changed and rounds < 30:
            changed = False
            rounds += 1
            for m, sites in self.cg.sites.items():
                if entry[m] is TOP:
                    continue
                caller = self.fb.funcs[m]
                fl = self.fl(caller) if sites else None
                for n, tg in sites:
                    if not tg:
                        continue
                    local = fl.held_at(n)
                    recv = self._receiver(n)
                    held = set()
                    for (b, mem) in set(local) | set(entry[m]):
                        if recv is not None and b == recv:
                            held.add(('this', mem))
                        elif b == 'global':
                            held.add((b, mem))
                        else:
                            held.add(('caller:' + b, mem))
                    held = frozenset(held)
                    for t in tg:
                        if entry[t.m] is TOP:
                            entry[t.m] = held
                            changed = True
                        else:
                            new = entry[t.m] & held
                            if new != entry[t.m]:
                                entry[t.m] = new
                                changed = True
        for m in entry:
            if entry[m] is TOP:
                entry[m] = frozenset()
        self._entry = entry
        return entry

    def held(self, func, node):
        return set(self.fl(func).held_at(node)) | set(self.entry_locks().get(func.m, ()))


# --------------------------------------------------------------------------
# lock-order graph with instance roles and pseudo-locks

FACADE_PTRS = ('_impl', '_implDelayed', '_implBase', 'getImpl()', 'getImplDelayed()', 'getImplBase()')
BLOCKING_EVENT_CALLS = ('event_del', 'event_free', 'event_del_block')
REGISTER_CALLS = ('event_new', 'evtimer_new', 'event_assign')
DISPATCH_CALLS = ('event_base_loop', 'event_base_dispatch')
CLASS_ROLE = {'uscxml::BasicDelayedEventQueue': '_delayQueue', 'uscxml::InterpreterImpl': 'session', 'uscxml::USCXMLInvoker': 'invoker',
              'uscxml::USCXMLInvoker::ParentQueueImpl': '_parentQueue'}


QUEUE_MEMBERS = ('_externalQueue', '_internalQueue', '_delayQueue', '_parentQueue')
QUEUE_CLASSES = ('uscxml::BasicEventQueue', 'uscxml::EventQueueImpl', 'uscxml::DelayedEventQueueImpl', 'uscxml::EventQueue', 'uscxml::DelayedEventQueue')


def class_role(rec):
    if rec is None:
        return 'global'
    if rec in ('uscxml::BasicDelayedEventQueue', 'PausableDelayedEventQueue', 'uscxml::PausableDelayedEventQueue'):
        return '_delayQueue'
    if rec == 'uscxml::USCXMLInvoker::ParentQueueImpl':
        return '_parentQueue'
    if rec in QUEUE_CLASSES:
        return '$queue'
    return CLASS_ROLE.get(rec, rec.split('::')[-1])


def norm_role(fb, func, base):
    """kind of a receiver expression: ('same',) | ('queue', name) | ('prefix', p)"""
    if base is None or base == 'this':
        return ('same',)
    b = base.replace('this->', '')
    if '_invokedInterpreter' in b:
        return ('prefix', 'child')
    for qn in QUEUE_MEMBERS:
        if b == qn or b.endswith('->' + qn) or b.endswith('.' + qn):
            return ('queue', qn)
    return ('same',)


def simplify_role(r):
    parts = r.split('/')
    out = []
    for p_ in parts:
        if out and ((out[-1] == 'child' and p_ == 'parent') or (out[-1] == 'parent' and p_ == 'child')):
            out.pop()
            continue
        out.append(p_)
    # at most one session prefix is kept
    pre = [x for x in out[:-1] if x in ('child', 'parent')]
    return '/'.join(pre[-1:] + out[-1:])


def compose(kind, r):
    if kind[0] == 'same' or r == 'global':
        return r
    if kind[0] == 'queue':
        res = kind[1] if r == '$queue' else r
        if kind[1] == '_parentQueue':
            # everything reached through the parent queue belongs to the parent session
            return simplify_role('parent/' + res) if res != '_parentQueue' else res
        return res
    if kind[0] == 'prefix':
        return simplify_role(kind[1] + '/' + r)
    return r


class LockOrder:
    def __init__(self, fb, callgraph, la):
        self.fb, self.cg, self.la = fb, callgraph, la
        self.callbacks_of_class = collections.defaultdict(set)   # class -> {callback Func}
        self.field_cb = {}                                         # (class, field name) -> callback q
        self.thread_root_of = {}                                   # (class, thread member) -> root Func
        self._discover()
        self.direct = {}       # m -> [(node, (name, role), kind)]
        for m, f in fb.funcs.items():
            self.direct[m] = self._direct(f)
        self.trans = {m: set(x[1] for x in d) for m, d in self.direct.items()}
        self._closure()
        self.edges = collections.defaultdict(list)   # (a, b) -> [witness str]
        self._edges()

    # -- discovery of callback registrations and thread roots
    def _discover(self):
        fb = self.fb
        for f in fb.funcs.values():
            for n in f.walk():
                q = n.get('callee', {}).get('q')
                if q in REGISTER_CALLS:
                    cb = None
                    for a in n.get('c', [])[1:]:
                        for s in sub(a):
                            if s['k'] == 'DeclRefExpr' and s.get('ref', {}).get('dk') in ('Function', 'CXXMethod') and s['ref'].get('m') in fb.funcs:
                                cb = fb.funcs[s['ref']['m']]
                    if cb is None or not f.rec:
                        continue
                    self.callbacks_of_class[f.rec].add(cb.m)
                    # which field receives the event*?   X = event_new(...)  /  T* e = event_new(...); Y.event = e;
                    p = f.parent(n)
                    hops = 0
                    target = None
                    while p is not None and hops < 4:
                        if p['k'] == 'BinaryOperator' and p.get('op') == '=':
                            for s in sub(p['c'][0]):
                                if s['k'] == 'MemberExpr':
                                    target = s['ref']['name']
                                    break
                            break
                        if p['k'] == 'DeclStmt':
                            lid = p['decls'][0]['lid']
                            for x in f.walk():
                                if x['k'] == 'BinaryOperator' and x.get('op') == '=' and any(
                                        s['k'] == 'DeclRefExpr' and s.get('ref', {}).get('lid') == lid for s in sub(x['c'][1])):
                                    for s in sub(x['c'][0]):
                                        if s['k'] == 'MemberExpr':
                                            target = s['ref']['name']
                                            break
                            break
                        p = f.parent(p)
                        hops += 1
                    if target:
                        self.field_cb[(f.rec, target)] = cb.m
                if q and q.startswith('std::thread::thread') and f.rec:
                    root = None
                    for s in sub(n):
                        if s['k'] == 'DeclRefExpr' and s.get('ref', {}).get('dk') in ('Function', 'CXXMethod') and s['ref'].get('m') in fb.funcs:
                            root = fb.funcs[s['ref']['m']]
                    if root is not None:
                        self.thread_root_of[f.rec] = root.m

    def _role_of_base(self, f, base_node):
        if base_node is None or base_node['k'] == 'CXXThisExpr':
            return ('same',)
        return norm_role(self.fb, f, expr_text(self.fb, base_node))

    def _direct(self, f):
        out = []
        fl = None
        try:
            fl = self.la.fl(f)
        except Exception:
            return out
        for n, (b, name) in fl.acq_sites:
            owner = name.rsplit('::', 1)[0]
            # role of the object owning the mutex: by the class of the function when it is this object (or the
            # callback's own object in static members), by receiver otherwise
            role = class_role(f.rec if (b == 'this' or f.d.get('static')) else owner)
            if role == '$queue' and f.rec in ('uscxml::BasicDelayedEventQueue',):
                role = '_delayQueue'
            kind = norm_role(self.fb, f, b) if b != 'this' else ('same',)
            role = compose(kind, role)
            if b == 'global':
                role = 'global'       # a static / namespace-scope mutex is one object for every session
            out.append((n, (name, role), 'lock'))
        for n in f.walk():
            q = n.get('callee', {}).get('q')
            if q in BLOCKING_EVENT_CALLS and f.rec:
                field = None
                for s in sub(n['c'][1]) if len(n.get('c', [])) > 1 else []:
                    if s['k'] == 'MemberExpr':
                        field = s['ref']['name']
                        break
                cb = self.field_cb.get((f.rec, field))
                cbs = [cb] if cb else sorted(self.callbacks_of_class.get(f.rec, ()))
                for c in cbs:
                    if c == f.m:
                        continue      # event_free of the running event from inside its own callback does not block
                    out.append((n, ('CB(%s)' % self.fb.funcs[c].q.split('::')[-1], class_role(f.rec)), 'event_del'))
            if q and q.endswith('thread::join') and f.rec and f.rec in self.thread_root_of:
                out.append((n, ('T(%s)' % self.fb.funcs[self.thread_root_of[f.rec]].q.split('uscxml::')[-1], class_role(f.rec)), 'join'))
        return out

    def _callee_sets(self, f, n, tg):
        """acquisitions reachable through call n, mapped into f's frame"""
        kind = ('same',)
        if n['k'] == 'CXXMemberCallExpr' and n.get('c') and n['c'][0].get('c'):
            kind = self._role_of_base(f, strip(n['c'][0]['c'][0]))
        res = set()
        for t in tg:
            for (name, role) in self.trans.get(t.m, ()):
                res.add((name, compose(kind, role)))
        # dispatch loops run the callbacks registered by the class
        if n.get('callee', {}).get('q') in DISPATCH_CALLS and f.rec:
            for c in self.callbacks_of_class.get(f.rec, ()):
                res.add(('CB(%s)' % self.fb.funcs[c].q.split('::')[-1], class_role(f.rec)))
                for (name, role) in self.trans.get(c, ()):
                    res.add((name, role))
        return res

    def _closure(self):
        changed = True
        while changed:
            changed = False
            for m, sites in self.cg.sites.items():
                f = self.fb.funcs[m]
                for n, tg in sites:
                    new = self._callee_sets(f, n, tg) - self.trans[m]
                    if new:
                        self.trans[m] |= new
                        changed = True

    def _resolve(self, f, node):
        name, role = node
        if role == '$queue':
            role = 'anyqueue'
        return '%s@%s' % (name.replace('uscxml::', ''), role)

    def _edges(self):
        for m, f in self.fb.funcs.items():
            try:
                fl = self.la.fl(f)
            except Exception:
                continue
            if not fl.acq_sites and not any(k != 'lock' for _, _, k in self.direct[m]) and m not in self.cg.sites:
                continue
            held_names = {}

            def held_at(n):
                hs = set()
                for (b, name) in fl.held_at(n):
                    owner = name.rsplit('::', 1)[0]
                    role = class_role(f.rec if (b == 'this' or f.d.get('static')) else owner)
                    if role == '$queue' and f.rec in ('uscxml::BasicDelayedEventQueue',):
                        role = '_delayQueue'
                    kind = norm_role(self.fb, f, b) if b != 'this' else ('same',)
                    hs.add((name, 'global' if b == 'global' else compose(kind, role)))
                return hs
            for n, x, kind in self.direct[m]:
                for h in held_at(n):
                    a, b = self._resolve(f, h), self._resolve(f, x)
                    if a != b:
                        self.edges[(a, b)].append('%s acquires %s at %s holding %s' % (f.q, b, locstr(n), a))
            for n, tg in self.cg.sites.get(m, ()):
                hs = held_at(n)
                if not hs:
                    continue
                for x in self._callee_sets(f, n, tg):
                    for h in hs:
                        a, b = self._resolve(f, h), self._resolve(f, x)
                        if a != b:
                            self.edges[(a, b)].append('%s calls %s at %s holding %s; callee acquires %s' % (f.q, n['callee']['q'], locstr(n), a, b))
        # pseudo-lock holders: callback f holds CB(f); thread root r holds T(r)
        for cls, cbs in self.callbacks_of_class.items():
            for c in cbs:
                f = self.fb.funcs[c]
                a = self._resolve(f, ('CB(%s)' % f.q.split('::')[-1], class_role(f.rec)))
                for x in self.trans.get(c, ()):
                    b = self._resolve(f, x)
                    if a != b:
                        self.edges[(a, b)].append('libevent runs %s (holding %s), which acquires %s' % (f.q, a, b))
        for cls, r in self.thread_root_of.items():
            f = self.fb.funcs[r]
            a = self._resolve(f, ('T(%s)' % f.q.split('uscxml::')[-1], class_role(f.rec)))
            for x in self.trans.get(r, ()):
                b = self._resolve(f, x)
                if a != b:
                    self.edges[(a, b)].append('thread %s (joined as %s) acquires %s' % (f.q, a, b))

    def cycles(self, maxlen=5):
        g = collections.defaultdict(set)
        for (a, b) in self.edges:
            g[a].add(b)
        out = set()

        def dfs(start, cur, pathl):
            for nx in g.get(cur, ()):
                if nx == start:
                    i = pathl.index(min(pathl))
                    out.add(tuple(pathl[i:] + pathl[:i]))
                elif nx not in pathl and len(pathl) < maxlen and nx > start:
                    dfs(start, nx, pathl + [nx])
        for s in sorted(g):
            dfs(s, s, [s])
        return sorted(out)
