"""A-LOCK: lock sets (flow-sensitive inside a function, must-hold-on-entry across calls) and the lock-order graph
with pseudo-locks for libevent callbacks and thread joins."""
import collections
from .facts import strip, sub, locstr, AnalysisBroken
from . import cfg as cfgm

GUARD_TYPES = ('std::lock_guard<', 'std::unique_lock<', 'std::scoped_lock<')


def expr_text(fb, n):
    t = fb.text(n).strip()
    return ' '.join(t.split())


def mutex_of(fb, init):
    """(base repr, 'Class::member') of the mutex expression in a guard initialiser / lock call receiver"""
    for s in sub(init):
        if s['k'] == 'MemberExpr' and 'mutex' in s.get('ref', {}).get('t', '').lower():
            base = strip(s['c'][0]) if s.get('c') else None
            if base is None or base['k'] == 'CXXThisExpr':
                b = 'this'
            else:
                b = expr_text(fb, base)
            return (b, s['ref'].get('rec', '?') + '::' + s['ref']['name'])
        if s['k'] == 'DeclRefExpr' and 'mutex' in s.get('ref', {}).get('t', '').lower() and 'q' in s['ref']:
            return ('global', s['ref']['q'])
    return None


class FuncLocks:
    """locks held at every CFG element of one function (by this function's own acquisitions)"""

    def __init__(self, fb, func):
        self.fb, self.f = fb, func
        self.g = cfgm.CFG(func)
        nodes = func.nodes
        self.guards = {}      # lid -> (mutex, scope node-id set, decl node)
        self.acq_sites = []   # (node, mutex)
        for n in func.walk():
            if n['k'] == 'DeclStmt':
                for d in n.get('decls', []):
                    if d['t'].startswith(GUARD_TYPES) and 'init' in d:
                        mu = mutex_of(fb, d['init'])
                        if mu is None:
                            continue
                        par = func.parent(n)
                        scope = {s['id'] for s in sub(par)} if par else set()
                        deferred = any(x.get('ref', {}).get('name') in ('defer_lock', 'try_to_lock') for x in sub(d['init']))
                        self.guards[d['lid']] = (mu, scope, n, deferred)
        # transfer functions per element
        self.gen = collections.defaultdict(list)
        self.kill = collections.defaultdict(list)
        for lid, (mu, scope, n, deferred) in self.guards.items():
            if not deferred:
                self.gen[n['id']].append(('g', lid, mu))
                self.acq_sites.append((n, mu))
        for n in func.walk():
            if n['k'] == 'CXXMemberCallExpr' and n.get('c'):
                q = n.get('callee', {}).get('q', '')
                name = q.split('::')[-1]
                me = n['c'][0]
                base = strip(me['c'][0]) if me.get('c') else None
                if base is None:
                    continue
                if name in ('lock', 'unlock', 'try_lock'):
                    if base['k'] == 'DeclRefExpr' and base['ref'].get('lid') in self.guards:
                        lid = base['ref']['lid']
                        mu = self.guards[lid][0]
                        if name == 'unlock':
                            self.kill[n['id']].append(('g', lid, mu))
                        else:
                            self.gen[n['id']].append(('g', lid, mu))
                            self.acq_sites.append((n, mu))
                    elif 'mutex' in base.get('t', '').lower():
                        mu = mutex_of(fb, base)
                        if mu:
                            if name == 'unlock':
                                self.kill[n['id']].append(('r', None, mu))
                            else:
                                self.gen[n['id']].append(('r', None, mu))
                                self.acq_sites.append((n, mu))
        self._solve()

    def _solve(self):
        g = self.g
        IN = {g.entry: frozenset()}
        work = [g.entry]
        self.before = {}
        while work:
            b = work.pop()
            st = set(IN[b])
            for el in g.blocks[b]['el']:
                st = {x for x in st if x[0] != 'g' or el in self.guards[x[1]][1]}
                for k in self.kill.get(el, ()):
                    st = {x for x in st if not (x[0] == k[0] and x[1] == k[1] and x[2] == k[2])}
                for x in self.gen.get(el, ()):
                    st.add(x)
            out = frozenset(st)
            for s in g.succ(b):
                if s not in IN:
                    IN[s] = out
                    work.append(s)
                else:
                    new = IN[s] & out
                    if new != IN[s]:
                        IN[s] = new
                        work.append(s)
        # final pass: state before each element
        for b, st0 in IN.items():
            st = set(st0)
            for el in g.blocks[b]['el']:
                st = {x for x in st if x[0] != 'g' or el in self.guards[x[1]][1]}
                self.before[el] = frozenset(x[2] for x in st)
                for k in self.kill.get(el, ()):
                    st = {x for x in st if not (x[0] == k[0] and x[1] == k[1] and x[2] == k[2])}
                for x in self.gen.get(el, ()):
                    st.add(x)

    def held_at(self, n):
        """mutexes held (by this function) when node n is evaluated; searches enclosing nodes that are CFG elements"""
        x = n
        while x is not None:
            if x['id'] in self.before:
                return self.before[x['id']]
            x = self.f.parent(x)
        return frozenset()


class LockAnalysis:
    def __init__(self, fb, callgraph):
        self.fb, self.cg = fb, callgraph
        self._fl = {}
        self._entry = None

    def fl(self, func):
        if func.m not in self._fl:
            self._fl[func.m] = FuncLocks(self.fb, func)
        return self._fl[func.m]

    def _receiver(self, call):
        if call['k'] != 'CXXMemberCallExpr' or not call.get('c'):
            return None
        me = call['c'][0]
        base = strip(me['c'][0]) if me.get('c') else None
        if base is None or base['k'] == 'CXXThisExpr':
            return 'this'
        return expr_text(self.fb, base)

    def entry_locks(self):
        """must-hold on entry per function (as callee-relative names): intersection over all call sites in the repo"""
        if self._entry is not None:
            return self._entry
        TOP = None
        entry = {m: TOP for m in self.fb.funcs}
        # functions never called from repo code start with the empty set
        called = set()
        for m, sites in self.cg.sites.items():
            for n, tg in sites:
                for t in tg:
                    called.add(t.m)
        for m in self.fb.funcs:
            if m not in called:
                entry[m] = frozenset()
        changed = True
        rounds = 0
        while changed and rounds < 30:
            changed = False
            rounds += 1
            for m, sites in self.cg.sites.items():
                if entry[m] is TOP:
                    continue
                caller = self.fb.funcs[m]
                fl = self.fl(caller) if sites else None
                for n, tg in sites:
                    if not tg:
                        continue
                    local = fl.held_at(n)
                    recv = self._receiver(n)
                    held = set()
                    for (b, mem) in set(local) | set(entry[m]):
                        if recv is not None and b == recv:
                            held.add(('this', mem))
                        elif b == 'global':
                            held.add((b, mem))
                        else:
                            held.add(('caller:' + b, mem))
                    held = frozenset(held)
                    for t in tg:
                        if entry[t.m] is TOP:
                            entry[t.m] = held
                            changed = True
                        else:
                            new = entry[t.m] & held
                            if new != entry[t.m]:
                                entry[t.m] = new
                                changed = True
        for m in entry:
            if entry[m] is TOP:
                entry[m] = frozenset()
        self._entry = entry
        return entry

    def held(self, func, node):
        return set(self.fl(func).held_at(node)) | set(self.entry_locks().get(func.m, ()))
