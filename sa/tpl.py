"""A-TPL: reconstruction of the text a straight-line writer function emits (stream insertions of literals)."""
from .facts import strip, sub, AnalysisBroken, locstr


def flatten(n, out):
    n = strip(n)
    if n['k'] == 'CXXOperatorCallExpr' and n.get('op') == '<<':
        flatten(n['c'][1], out)
        out.append(strip(n['c'][2]))
        return
    out.append(n)


def template(fb, func, allow=()):
    """returns (text with <<?i>> placeholders, [non-literal operand nodes], [other statement nodes])"""
    res, nonlit, ctrl = [], [], []
    body = func.d['body']
    for st in body.get('c', []):
        s = strip(st)
        if s['k'] == 'CXXOperatorCallExpr' and s.get('op') == '<<':
            ops = []
            flatten(s, ops)
            for o in ops[1:]:
                if o['k'] == 'StringLiteral':
                    res.append(o.get('str', ''))
                elif o['k'] == 'DeclRefExpr' and o['ref']['name'] == 'endl':
                    res.append('\n')
                elif o['k'] == 'ImplicitCastExpr' and o.get('c') and o['c'][0]['k'] == 'DeclRefExpr' and o['c'][0]['ref']['name'] == 'endl':
                    res.append('\n')
                else:
                    res.append('<<?%d>>' % len(nonlit))
                    nonlit.append(o)
        else:
            ctrl.append(s)
    return ''.join(res), nonlit, ctrl
