"""A-TPL: reconstruction of the text a straight-line writer function emits (stream insertions of literals)."""
from .facts import strip, sub, AnalysisBroken, locstr


def flatten(n, out):
    n = strip(n)
    if n['k'] == 'CXXOperatorCallExpr' and n.get('op') == '<<':
        flatten(n['c'][1], out)
        out.append(strip(n['c'][2]))
        return
    out.append(n)


def _flatten_plus(n, out):
    """operands of a std::string concatenation a + b + c, wrappers removed"""
    n = strip(n)
    while n is not None and n['k'] in ('CXXConstructExpr', 'CXXBindTemporaryExpr', 'MaterializeTemporaryExpr', 'CXXFunctionalCastExpr', 'ExprWithCleanups') and n.get('c') and len([c for c in n['c'] if c]) == 1:
        n = strip([c for c in n['c'] if c][0])
    if n is None:
        return
    if n['k'] == 'CXXOperatorCallExpr' and n.get('op') == '+' and len(n.get('c', [])) >= 3:
        _flatten_plus(n['c'][1], out)
        _flatten_plus(n['c'][2], out)
        return
    out.append(n)


def _literal_array(d):
    """strings of  T name[] = {"...", "..."}  (every element a string literal), else None"""
    init = d.get('init')
    if init is None:
        return None
    x = strip(init)
    if x is None or x['k'] != 'InitListExpr':
        return None
    out = []
    for e in x.get('c', []):
        e = strip(e)
        if e is None or e['k'] != 'StringLiteral':
            return None
        out.append(e)
    return out or None


def template(fb, func, allow=(), bind=None, depth=0):
    """returns (text with <<?i>> placeholders, [non-literal operand nodes], [other statement nodes]).
    A call to a repository function that is itself a straight-line writer on the same stream (an extracted helper) is
    expanded in place; its parameters that are bound to string literals at the call site count as literals.  A range-for
    over a local array of string literals whose body is stream insertions is unrolled."""
    res, nonlit, ctrl = [], [], []
    arrays = {}
    strlocals = {}

    def stmts(lst, bind):
        nonlocal nonlit, ctrl
        for st in lst:
            s = strip(st)
            if s is None:
                continue
            if s['k'] == 'CXXOperatorCallExpr' and s.get('op') == '<<':
                ops = []
                flatten(s, ops)
                for o in ops[1:]:
                    if o['k'] == 'DeclRefExpr' and o.get('ref', {}).get('lid') in strlocals:
                        # a local string built from literals and other operands (`const std::string es = _prefix + "ctx.entry_set";`)
                        for part in strlocals[o['ref']['lid']]:
                            if part['k'] == 'StringLiteral':
                                res.append(part.get('str', ''))
                            else:
                                res.append('<<?%d>>' % len(nonlit))
                                nonlit.append(part)
                        continue
                    if o['k'] == 'DeclRefExpr' and o.get('ref', {}).get('lid') in bind:
                        b = strip(bind[o['ref']['lid']])
                        # const char* parameters bound to a literal
                        while b is not None and b['k'] in ('CXXConstructExpr',) and b.get('c'):
                            b = strip(b['c'][0])
                        if b is not None and b['k'] == 'StringLiteral':
                            res.append(b.get('str', ''))
                            continue
                    if o['k'] == 'StringLiteral':
                        res.append(o.get('str', ''))
                    elif o['k'] == 'DeclRefExpr' and o['ref']['name'] == 'endl':
                        res.append('\n')
                    elif o['k'] == 'ImplicitCastExpr' and o.get('c') and o['c'][0]['k'] == 'DeclRefExpr' and o['c'][0]['ref']['name'] == 'endl':
                        res.append('\n')
                    else:
                        res.append('<<?%d>>' % len(nonlit))
                        nonlit.append(o)
            elif s['k'] in ('CallExpr', 'CXXMemberCallExpr') and depth < 3 and s.get('callee') and not s['callee'].get('ext') and s['callee']['m'] in fb.funcs and _is_writer(fb.funcs[s['callee']['m']]):
                cf = fb.funcs[s['callee']['m']]
                args = s['c'][1:]
                b2 = {}
                for p, a in zip(cf.d.get('params', []), args):
                    b2[p['lid']] = a
                t2, nl2, ct2 = template(fb, cf, allow, b2, depth + 1)
                # renumber the callee's placeholders
                for i in range(len(nl2) - 1, -1, -1):
                    t2 = t2.replace('<<?%d>>' % i, '<<?%d>>' % (i + len(nonlit)))
                res.append(t2)
                nonlit += nl2
                ctrl += ct2
            elif s['k'] in ('DeclStmt', 'NullStmt') and not any('ostream' in (d.get('t') or '') for d in s.get('decls', [])):
                # locals are harmless as long as they are not inserted (an inserted local is a non-literal operand and reported as such)
                for d in s.get('decls', []):
                    la = _literal_array(d)
                    if la:
                        arrays[d['lid']] = la
                    elif 'lid' in d and 'string' in (d.get('t') or '') and isinstance(d.get('init'), dict):
                        parts = []
                        _flatten_plus(d['init'], parts)
                        if any(p_['k'] == 'StringLiteral' for p_ in parts):
                            strlocals[d['lid']] = parts
                continue
            elif s['k'] == 'CXXForRangeStmt' and _unrollable(s, arrays):
                arr, var, body = _unrollable(s, arrays)
                for lit in arr:
                    b3 = dict(bind)
                    b3[var] = lit
                    stmts(body.get('c', []) if body['k'] == 'CompoundStmt' else [body], b3)
            else:
                ctrl.append(s)
    body = func.d['body']
    stmts(body.get('c', []), dict(bind or {}))
    return ''.join(res), nonlit, ctrl


def _unrollable(s, arrays):
    """(literals, loop variable lid, body) of  for (T v : literalArray) { stream << ...; }  else None"""
    kids = s.get('c', [])
    decls = [c for c in kids if c is not None and c['k'] == 'DeclStmt']
    if len(decls) < 2 or kids[-1] is None:
        return None
    rng = decls[0]['decls'][0]
    refs = [x.get('ref', {}).get('lid') for x in sub(rng.get('init') or {}) if x['k'] == 'DeclRefExpr']
    if len(refs) != 1 or refs[0] not in arrays:
        return None
    body = kids[-1]
    inner = body.get('c', []) if body['k'] == 'CompoundStmt' else [body]
    for st in inner:
        x = strip(st)
        if not (x['k'] == 'CXXOperatorCallExpr' and x.get('op') == '<<'):
            return None
    return arrays[refs[0]], decls[-1]['decls'][0]['lid'], body


def _is_writer(cf):
    """a function taking a std::ostream& whose body consists of stream insertions only"""
    if not any('ostream' in (p.get('t') or '') for p in cf.d.get('params', [])):
        return False
    body = cf.d.get('body')
    if not isinstance(body, dict):
        return False
    for st in body.get('c', []):
        s = strip(st)
        if not (s['k'] == 'CXXOperatorCallExpr' and s.get('op') == '<<'):
            return False
    return True
