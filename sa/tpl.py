"""A-TPL: reconstruction of the text a straight-line writer function emits (stream insertions of literals)."""
from .facts import strip, sub, AnalysisBroken, locstr


def flatten(n, out):
    n = strip(n)
    if n['k'] == 'CXXOperatorCallExpr' and n.get('op') == '<<':
        flatten(n['c'][1], out)
        out.append(strip(n['c'][2]))
        return
    out.append(n)


def template(fb, func, allow=(), bind=None, depth=0):
    """returns (text with <<?i>> placeholders, [non-literal operand nodes], [other statement nodes]).
    A call to a repository function that is itself a straight-line writer on the same stream (an extracted helper) is
    expanded in place; its parameters that are bound to string literals at the call site count as literals."""
    res, nonlit, ctrl = [], [], []
    bind = bind or {}
    body = func.d['body']
    for st in body.get('c', []):
        s = strip(st)
        if s['k'] == 'CXXOperatorCallExpr' and s.get('op') == '<<':
            ops = []
            flatten(s, ops)
            for o in ops[1:]:
                if o['k'] == 'DeclRefExpr' and o.get('ref', {}).get('lid') in bind and func.d.get('params') is not None:
                    b = strip(bind[o['ref']['lid']])
                    # const char* parameters bound to a literal
                    while b is not None and b['k'] in ('CXXConstructExpr',) and b.get('c'):
                        b = strip(b['c'][0])
                    if b is not None and b['k'] == 'StringLiteral':
                        res.append(b.get('str', ''))
                        continue
                if o['k'] == 'StringLiteral':
                    res.append(o.get('str', ''))
                elif o['k'] == 'DeclRefExpr' and o['ref']['name'] == 'endl':
                    res.append('\n')
                elif o['k'] == 'ImplicitCastExpr' and o.get('c') and o['c'][0]['k'] == 'DeclRefExpr' and o['c'][0]['ref']['name'] == 'endl':
                    res.append('\n')
                else:
                    res.append('<<?%d>>' % len(nonlit))
                    nonlit.append(o)
        elif s['k'] in ('CallExpr', 'CXXMemberCallExpr') and depth < 3 and s.get('callee') and not s['callee'].get('ext') and s['callee']['m'] in fb.funcs and _is_writer(fb.funcs[s['callee']['m']]):
            cf = fb.funcs[s['callee']['m']]
            args = s['c'][1:]
            b2 = {}
            for p, a in zip(cf.d.get('params', []), args):
                b2[p['lid']] = a
            t2, nl2, ct2 = template(fb, cf, allow, b2, depth + 1)
            # renumber the callee's placeholders
            for i in range(len(nl2) - 1, -1, -1):
                t2 = t2.replace('<<?%d>>' % i, '<<?%d>>' % (i + len(nonlit)))
            res.append(t2)
            nonlit += nl2
            ctrl += ct2
        elif s['k'] in ('DeclStmt', 'NullStmt') and not any('ostream' in (d.get('t') or '') for d in s.get('decls', [])):
            # locals are harmless as long as they are not inserted (an inserted local is a non-literal operand and reported as such)
            continue
        else:
            ctrl.append(s)
    return ''.join(res), nonlit, ctrl


def _is_writer(cf):
    """a function taking a std::ostream& whose body consists of stream insertions only"""
    if not any('ostream' in (p.get('t') or '') for p in cf.d.get('params', [])):
        return False
    body = cf.d.get('body')
    if not isinstance(body, dict):
        return False
    for st in body.get('c', []):
        s = strip(st)
        if not (s['k'] == 'CXXOperatorCallExpr' and s.get('op') == '<<'):
            return False
    return True
