"""A-PATH: protocol (path-language) checks = product of a function's CFG, extended with exception edges from
A-EXC, with a DFA over classified events.  A-FLAG: exact abstract interpretation over one small flag word.
A-ORIG: local origin of a value (which member a loop variable / argument derives from)."""
import collections
from .facts import strip, sub, locstr, AnalysisBroken
from . import cfg as cfgm


# --------------------------------------------------------------------------
# origins

def local_defs(func):
    """lid -> list of initialiser / assigned expression nodes"""
    defs = collections.defaultdict(list)
    for n in func.walk():
        if n['k'] == 'DeclStmt':
            for d in n.get('decls', []):
                if 'init' in d:
                    defs[d['lid']].append(d['init'])
        elif n['k'] == 'CXXForRangeStmt':
            # loop variable <- range initialiser
            rng = None
            lv = n.get('range', {}).get('lid')
            for c in n.get('c', []):
                if c and c['k'] == 'DeclStmt':
                    for d in c.get('decls', []):
                        if d['name'].startswith('__range') and 'init' in d:
                            rng = d['init']
            if lv is not None and rng is not None:
                defs[lv].append(rng)
        elif n['k'] in ('BinaryOperator', 'CXXOperatorCallExpr') and n.get('op') == '=' and len(n.get('c', [])) >= 2:
            lhs = strip(n['c'][-2])
            if lhs and lhs['k'] == 'DeclRefExpr' and 'lid' in lhs.get('ref', {}):
                defs[lhs['ref']['lid']].append(n['c'][-1])
    return defs


def origin_members(func, expr, defs=None, depth=4):
    """member names an expression derives from, following local variable definitions"""
    defs = defs if defs is not None else local_defs(func)
    out = set()
    seen = set()

    def go(e, d):
        for s in sub(e):
            if s['k'] == 'MemberExpr' and 'name' in s.get('ref', {}):
                out.add(s['ref']['name'])
            elif s['k'] == 'DeclRefExpr' and 'lid' in s.get('ref', {}) and d > 0:
                lid = s['ref']['lid']
                if lid in seen:
                    continue
                seen.add(lid)
                for i in defs.get(lid, ()):
                    go(i, d - 1)
    go(expr, depth)
    return out


# --------------------------------------------------------------------------
# CFG with exception edges

class EHCFG(cfgm.CFG):
    def __init__(self, func, ex=None):
        super().__init__(func)
        self.throws = {}     # node id -> [(target block or ABEXIT, type)]
        if ex is not None:
            for it in ex.items[func.m]:
                n = it['node']
                if n['id'] not in self.pos:
                    continue
                if it['kind'] == 'call':
                    ex._cur_q = func.q
                    ts = ex.call_throws(n)
                elif it['kind'] == 'throw':
                    ts = {it['type']: None}
                elif it['kind'] == 'rethrow':
                    ts = {t: None for t in (ex.live_types.get((func.m, it['in'][-1]), ()) if it['in'] else ())}
                else:
                    ts = {}
                for t in ts:
                    h = ex.caught_by(t, it['stack'])
                    tgt = self.handler_block.get(h['id'], self.ABEXIT) if h is not None else self.ABEXIT
                    self.throws.setdefault(n['id'], []).append((tgt, t))


def check_dfa(g, events, dfa, start, accepting, abexit_ok=None, ignore_unknown=True, entry=None):
    """Explore (position, dfa state).  events: node id -> label.  dfa: state -> {label: state}.
    Returns list of violations: dict(kind, event, state, path) with a shortest witness (list of (label, node))."""
    viol = []
    seen = {}
    b0 = g.entry if entry is None else entry
    q = collections.deque()
    q.append((b0, 0, start, None))
    parent = {}
    reported = set()

    def witness(key):
        path = []
        while key is not None:
            ev = parent.get(key, (None, None))[1]
            if ev is not None:
                path.append(ev)
            key = parent.get(key, (None, None))[0]
        return list(reversed(path))

    while q:
        b, i, st, _ = q.popleft()
        key = (b, i, st)
        if key in seen:
            continue
        seen[key] = True
        if b == g.ABEXIT:
            if abexit_ok is None or st not in abexit_ok:
                if ('abexit', st) not in reported:
                    reported.add(('abexit', st))
                    viol.append({'kind': 'abnormal-exit', 'state': st, 'path': witness(key)})
            continue
        blk = g.blocks[b]
        els = blk['el']
        advanced = False
        cur = st
        j = i
        stop = False
        while j < len(els):
            el = els[j]
            lab = events.get(el)
            if lab is not None:
                nxt = dfa.get(cur, {}).get(lab)
                if nxt is None:
                    if lab in ALPHABET_CACHE.get(id(dfa), ()) or not ignore_unknown:
                        if (lab, cur) not in reported:
                            reported.add((lab, cur))
                            viol.append({'kind': 'unexpected', 'event': lab, 'node': el, 'state': cur, 'path': witness(key) + [(lab, el)]})
                        stop = True
                        break
                else:
                    nk = (b, j + 1, nxt)
                    if nk not in parent:
                        parent[nk] = (key, (lab, el))
                    q.append((b, j + 1, nxt, None))
                    stop = True
                    # exception edges of this element use the state after the event
                    for tgt, t in g.throws.get(el, ()):
                        ek = (tgt, 0, nxt)
                        if ek not in parent:
                            parent[ek] = (key, (lab + ' throws ' + t.split('<')[0], el))
                        q.append((tgt, 0, nxt, None))
                    break
            for tgt, t in g.throws.get(el, ()):
                ek = (tgt, 0, cur)
                if ek not in parent:
                    parent[ek] = (key, ('exception ' + t.split('<')[0], el))
                q.append((tgt, 0, cur, None))
            j += 1
        if stop:
            continue
        if b == g.exit:
            if cur not in accepting and ('exit', cur) not in reported:
                reported.add(('exit', cur))
                viol.append({'kind': 'exit-in-state', 'state': cur, 'path': witness(key)})
            continue
        for s in g.succ(b):
            nk = (s, 0, cur)
            if nk not in parent:
                parent[nk] = (key, None)
            q.append((s, 0, cur, None))
    return viol, len(seen)


ALPHABET_CACHE = {}


def make_dfa(trans):
    """trans: state -> {label: state}; registers the alphabet so that labels outside it are ignored"""
    alpha = set()
    for st, d in trans.items():
        alpha |= set(d)
    ALPHABET_CACHE[id(trans)] = alpha
    return trans


# --------------------------------------------------------------------------
# A-FLAG

class FlagInterp:
    """exact interpretation of tests and updates of one integral member (`_flags`, `ctx->flags`)"""

    def __init__(self, func, is_flag, width=8, extra_eval=None):
        self.f = func
        self.nodes = func.nodes
        self.is_flag = is_flag
        self.mask = (1 << width) - 1
        self.extra_eval = extra_eval

    def ev(self, n, flags):
        n = strip(n)
        if n is None:
            return None
        if self.is_flag(n):
            return flags
        if 'cval' in n:
            return n['cval']
        if 'int' in n and n['k'] in ('IntegerLiteral', 'CXXBoolLiteralExpr', 'CharacterLiteral'):
            return n['int']
        k = n['k']
        if k == 'DeclRefExpr' and 'val' in n.get('ref', {}):
            return n['ref']['val']
        if k == 'BinaryOperator':
            op = n['op']
            a = self.ev(n['c'][0], flags)
            b = self.ev(n['c'][1], flags)
            if op == '&&':
                if a == 0 or b == 0:
                    return 0
                return None if a is None or b is None else 1
            if op == '||':
                if (a is not None and a != 0) or (b is not None and b != 0):
                    return 1
                return None if a is None or b is None else 0
            if a is None or b is None:
                return None
            try:
                return {'&': a & b, '|': a | b, '==': int(a == b), '!=': int(a != b), '^': a ^ b, '<<': a << b if 0 <= b < 32 else None}.get(op)
            except Exception:
                return None
        if k == 'UnaryOperator':
            a = self.ev(n['c'][0], flags)
            if a is None:
                return None
            return {'!': int(not a), '~': ~a, '-': -a}.get(n['op'])
        if k == 'CallExpr' and n.get('callee', {}).get('q') == '__builtin_expect':
            return self.ev(n['c'][1], flags)
        if self.extra_eval:
            return self.extra_eval(n, flags)
        return None

    def apply(self, el, flags):
        n = self.nodes.get(el)
        if n and n['k'] in ('CompoundAssignOperator', 'BinaryOperator') and n.get('op') in ('|=', '&=', '=', '^=') and self.is_flag(n['c'][0]):
            v = self.ev(n['c'][1], flags)
            if v is None:
                raise AnalysisBroken('flag update with non-constant operand at %s' % locstr(n))
            if n['op'] == '|=':
                return (flags | v) & self.mask
            if n['op'] == '&=':
                return (flags & v) & self.mask
            if n['op'] == '^=':
                return (flags ^ v) & self.mask
            return v & self.mask
        return flags

    def relation(self, g, events, init_values, ret_label=None, stop_at=None):
        """for each initial flag value: set of (return label, flags', frozenset(events seen)) over all CFG paths
        with conditions on the flag word evaluated exactly (everything else non-deterministic)."""
        rel = {}
        explored = 0
        for init in init_values:
            out = set()
            seen = set()
            work = [(g.entry, init, None, frozenset())]
            while work:
                b, fl, ret, evs = work.pop()
                if (b, fl, ret, evs) in seen:
                    continue
                seen.add((b, fl, ret, evs))
                if b == g.ABEXIT:
                    out.add(('<exception>', fl, evs))
                    continue
                blk = g.blocks[b]
                for el in blk['el']:
                    fl = self.apply(el, fl)
                    lab = events.get(el)
                    if lab is not None:
                        evs = evs | {lab}
                    n = self.nodes.get(el)
                    if n and n['k'] == 'ReturnStmt' and ret_label:
                        ret = ret_label(n)
                    for tgt, t in getattr(g, 'throws', {}).get(el, ()):
                        work.append((tgt, fl, ret, evs))
                if b == g.exit:
                    out.add((ret, fl, evs))
                    continue
                succ = g.succ_labeled(b)
                cond = blk.get('cond')
                nxt = [s for s, _ in succ]
                if cond is not None and cond in self.nodes and len(succ) == 2 and succ[0][1] is not None:
                    cn = self.nodes[cond]
                    v = self.ev(cn, fl)
                    if v is not None:
                        nxt = [s for s, lab in succ if lab is bool(v)]
                for s in nxt:
                    work.append((s, fl, ret, evs))
            explored += len(seen)
            rel[init] = out
        return rel, explored
