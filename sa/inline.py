"""Inlining of extracted helpers into the engine step functions (fact level).

The path rules of C01/C02/C03/C07/C08/C10/C11/C13 are phrased over the CFG of `step()`.  A maintainer may move a block
of step() (e.g. "notify, run the transition's content, notify") into a private helper; the behaviour is the same and so
must the verdict be.  For the configured root functions every call to a repository function of the same class (or a
file-static function of the same file) whose body contains *skeleton events* (callback calls, monitor notifications,
writes of the run-state members) is replaced by the callee's body:

* AST: the callee body (node ids and local ids shifted by a per-call offset) becomes an extra child of the call node,
  preceded by synthetic declarations binding the parameters to the argument expressions (so origin queries still see
  which loop variable an argument derives from); ancestors of an inlined node therefore lead into the caller's loops
  and try statements.
* CFG: the block holding the call is split after the call element; the first half continues into the callee's entry
  block, the callee's exit block continues into the second half.  Exception edges are added afterwards by EHCFG as for
  any other element.
Recursion and virtual calls are never inlined; depth is bounded.
"""
import copy

ROOTS = ('uscxml::LargeMicroStep::step', 'uscxml::FastMicroStep::step')
STATE_MEMBERS = ('_configuration', '_configurationPostFix', '_history', '_invocations', '_initializedData', '_flags', '_exitSet', '_entrySet',
                 '_transSet', '_targetSet', '_microstepConfigurations', '_event')
OFFSET = 1000000


def _walk(n):
    stack = [n]
    while stack:
        x = stack.pop()
        if not isinstance(x, dict):
            continue
        yield x
        for c in x.get('c', ()) or ():
            if isinstance(c, dict):
                stack.append(c)
        for d in x.get('decls', ()) or ():
            if isinstance(d.get('init'), dict):
                stack.append(d['init'])


MUTATORS = ('insert', 'erase', 'clear', 'push_back', 'push_front', 'pop_back', 'pop_front', 'reset', 'set', 'flip', 'swap', 'resize', 'operator=',
            'operator|=', 'operator&=', 'operator^=', 'operator[]')


def has_skeleton_events(func):
    """does the function call engine callbacks / monitors or mutate the run-state members?"""
    body = func.d.get('body')
    if not isinstance(body, dict):
        return False
    for n in _walk(body):
        q = n.get('callee', {}).get('q', '')
        if q.startswith(('uscxml::MicroStepCallbacks::', 'uscxml::InterpreterMonitor::')):
            return True
        if any(m[0].startswith('USCXML_MONITOR_CALLBACK') for m in (n.get('mac') or [])):
            return True
        k = n.get('k')
        # mutating member call on a run-state member:  _configuration.insert(..)
        if k == 'CXXMemberCallExpr' and q.split('::')[-1] in MUTATORS and n.get('c') and n['c'][0].get('c'):
            if any(x.get('k') == 'MemberExpr' and x.get('ref', {}).get('name') in STATE_MEMBERS for x in _walk(n['c'][0]['c'][0])):
                return True
        # assignment / compound assignment / overloaded mutating operator with a run-state member on the left
        if k in ('BinaryOperator', 'CompoundAssignOperator') and n.get('op') in ('=', '|=', '&=', '^=', '+=', '-=') and n.get('c'):
            if any(x.get('k') == 'MemberExpr' and x.get('ref', {}).get('name') in STATE_MEMBERS for x in _walk(n['c'][0])):
                return True
        if k == 'CXXOperatorCallExpr' and n.get('op') in ('=', '|=', '&=', '^=', '-=') and len(n.get('c', [])) > 1:
            if any(x.get('k') == 'MemberExpr' and x.get('ref', {}).get('name') in STATE_MEMBERS for x in _walk(n['c'][1])):
                return True
    return False


def _shift(node, off):
    for x in _walk(node):
        if 'id' in x:
            x['id'] += off
        r = x.get('ref')
        if isinstance(r, dict) and 'lid' in r:
            r['lid'] += off
        if 'lid' in x and isinstance(x['lid'], int):
            x['lid'] += off
        for d in x.get('decls', ()) or ():
            if 'lid' in d:
                d['lid'] += off
        rg = x.get('range')
        if isinstance(rg, dict) and 'lid' in rg:
            rg['lid'] += off


LIBEVENT = ('event_del', 'event_free', 'event_add', 'event_new', 'evtimer_new', 'event_base_loopexit', 'event_base_loopbreak')


def has_timer_calls(func):
    body = func.d.get('body')
    return isinstance(body, dict) and any(n.get('callee', {}).get('q', '') in LIBEVENT for n in _walk(body))


# further roots: every function of these classes is a root; a callee is inlined when the predicate holds for it
CLASS_ROOTS = {'uscxml::BasicDelayedEventQueue': has_timer_calls}


def inline_root(fb, root, max_depth=3, want=None, members=True):
    """returns a dict `d` for a new Func (or None when nothing is to be inlined)"""
    from .facts import Func
    d = None
    count = 0
    depth_of = {}
    changed = True
    inlined_callees = []
    while changed:
        changed = False
        src = d if d is not None else root.d
        body = src.get('body')
        if not isinstance(body, dict):
            return None
        for n in _walk(body):
            c = n.get('callee')
            if not c or c.get('ext') or c.get('virt') or n.get('inlined'):
                continue
            callee = fb.funcs.get(c['m'])
            if callee is None or callee.m == root.m or not isinstance(callee.d.get('body'), dict) or not callee.d.get('cfg'):
                continue
            same_class = callee.rec is not None and callee.rec == root.rec
            file_static = callee.rec is None and callee.file == root.file
            if not ((same_class and members) or file_static):
                continue
            if callee.q.split('::')[-1].startswith('~') or (callee.rec and callee.q.split('::')[-1] == callee.rec.split('::')[-1]):
                continue          # constructors / destructors are never inlined
            if not (want or has_skeleton_events)(callee):
                continue
            dep = depth_of.get(n.get('id'), 0)
            if dep >= max_depth:
                continue
            if d is None:
                d = copy.deepcopy(root.d)
                # restart the walk on the private copy
                changed = True
                break
            count += 1
            off = OFFSET * count
            cb = copy.deepcopy(callee.d['body'])
            _shift(cb, off)
            for x in _walk(cb):
                if x.get('callee'):
                    depth_of[x['id']] = dep + 1
            # parameter bindings
            args = n['c'][1:] if n['k'] != 'CXXOperatorCallExpr' else n['c'][1:]
            binds = []
            for p, a in zip(callee.d.get('params', []), args):
                binds.append({'lid': p['lid'] + off, 'name': p['name'], 't': p.get('t', ''), 'init': a})
            wrapper = {'k': 'CompoundStmt', 'id': off - 1, 'loc': n['loc'], 'end': n.get('end', n['loc'][1:]), 'inlined_from': callee.q,
                       'c': ([{'k': 'DeclStmt', 'id': off - 2, 'loc': n['loc'], 'decls': binds}] if binds else []) + [cb]}
            n.setdefault('c', []).append(wrapper)
            n['inlined'] = callee.q
            # CFG splice
            cfg = d['cfg']
            blocks = {b['id']: b for b in cfg['blocks']}
            host = None
            for b in cfg['blocks']:
                if n['id'] in b['el']:
                    host = b
                    break
            if host is None:
                # the call is not an element of the caller's CFG (unreachable code): nothing to splice
                changed = True
                break
            i = host['el'].index(n['id'])
            new_id = max(blocks) + 1
            post = {'id': new_id, 'el': host['el'][i + 1:], 'succ': host['succ']}
            for k in ('term', 'termk', 'cond'):
                if k in host:
                    post[k] = host.pop(k)
            host['el'] = host['el'][:i + 1]
            ccfg = copy.deepcopy(callee.d['cfg'])
            boff = new_id + 1
            for b in ccfg['blocks']:
                b['id'] += boff
                b['el'] = [e + off for e in b['el']]
                b['succ'] = [(s + boff) if isinstance(s, int) else s for s in b['succ']]
                for k in ('term', 'cond', 'label'):
                    if isinstance(b.get(k), int):
                        b[k] += off
            host['succ'] = [ccfg['entry'] + boff]
            for b in ccfg['blocks']:
                if b['id'] == ccfg['exit'] + boff:
                    b['succ'] = [new_id]
            cfg['blocks'].append(post)
            cfg['blocks'].extend(ccfg['blocks'])
            if cfg['exit'] == host['id']:
                cfg['exit'] = new_id
            inlined_callees.append(callee.q)
            changed = True
            break
    if d is None or not inlined_callees:
        return None
    d['inlined'] = inlined_callees
    return d
