#!/bin/sh
# usage: run.sh <build dir>; exits non-zero when the defect shows
B=${1:?build dir}
D=$(cd "$(dirname "$0")" && pwd)
WT=$(cd "$B/.." && pwd)
T=$(mktemp -d)
rc=0

g++ -std=gnu++11 -w -I"$WT/src" -I"$B" -I"$WT/contrib/src" -DXERCESC_NS=xercesc_3_2 "$D/match.cpp" -o "$T/match" \
	-L"$B/lib" -luscxml -lxerces-c -Wl,-rpath,"$B/lib" || { echo "cannot build match.cpp"; exit 2; }
"$T/match" || rc=1

echo "--- interpreter on case.scxml (expected: pass)"
if "$B/bin/test-state-pass" "$D/case.scxml" >"$T/interp.log" 2>&1; then
	echo "interpreter: pass"
else
	echo "DEFECT: interpreter does not end in pass:"; grep -E "^(Internal Event|Transition|Entering)" "$T/interp.log" | head -8; rc=1
fi

echo "--- Promela: statically resolved matches (transition 0 is event=\"foo*\", transition 2 is event=\".\")"
"$B/bin/uscxml-transform" -tpml -i "$D/case.scxml" -o "$T/case.pml" >"$T/tr.log" 2>&1
grep -n -E '\(i == [0-9]+ && \(false' "$T/case.pml"
grep -q -E 'i == 0 && \(false \|\| ROOT__event == FOO' "$T/case.pml" && { echo "DEFECT: event=\"foo*\" resolved to event foo"; rc=1; }
grep -q -E 'i == 2 && \(false( \|\| ROOT__event == [A-Z_0-9]+){2,}' "$T/case.pml" && { echo "DEFECT: event=\".\" resolved to every event"; rc=1; }

echo "--- VHDL: statically resolved matches"
"$B/bin/uscxml-transform" -tvhdl -i "$D/case.scxml" -o "$T/case.vhdl" >"$T/tr2.log" 2>&1
grep -n -E 'in_optimal_transition_set_[0-9]+_sig <=|or event_' "$T/case.vhdl" | head -12
rm -rf "$T"
exit $rc
