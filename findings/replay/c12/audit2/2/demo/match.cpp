// calls uscxml::nameMatch directly and compares with the relation of the property:
// a descriptor matches iff it is '*', or - after dropping ONE trailing ".*" or "." - equals the name
// or is a token-wise prefix of it.
#include "uscxml/util/String.h"
#include <iostream>
#include <string>
#include <vector>

static bool ref(const std::string& descs, const std::string& name) {
	size_t i = 0;
	while (i < descs.size()) {
		while (i < descs.size() && isspace((unsigned char)descs[i])) i++;
		size_t s = i;
		while (i < descs.size() && !isspace((unsigned char)descs[i])) i++;
		if (s == i) break;
		std::string d = descs.substr(s, i - s);
		if (d == "*") return true;
		if (d.size() >= 2 && d.compare(d.size() - 2, 2, ".*") == 0) d.erase(d.size() - 2);
		else if (d[d.size() - 1] == '.') d.erase(d.size() - 1);
		if (d.empty()) continue; // "." / ".*": nothing is left, not the wildcard
		if (d == name) return true;
		if (name.size() > d.size() && name.compare(0, d.size(), d) == 0 && name[d.size()] == '.') return true;
	}
	return false;
}

int main() {
	// hand-picked
	const char* cases[][2] = {
		{"foo*", "foo"}, {"foo*", "foo.bar"}, {"error* x", "error.execution"},
		{".", "foo"}, {".*", "foo"}, {"x . y", "anything.at.all"},
		{"foo.*", "foo"}, {"foo.", "foo.bar"}, {"*", "foo"}, {"foo*", "foobar"}
	};
	int bad = 0;
	for (auto& c : cases) {
		bool a = uscxml::nameMatch(c[0], c[1]), r = ref(c[0], c[1]);
		std::cout << "nameMatch(\"" << c[0] << "\", \"" << c[1] << "\") = " << a << "  expected " << r << (a != r ? "   <-- differs" : "") << std::endl;
		if (a != r) bad++;
	}
	// exhaustive: descriptor lists over {a b . * ' '} up to 5, names over {a b .} up to 4
	std::string dal = "ab.* ", nal = "ab.";
	std::vector<std::string> ds(1, ""), ns(1, "");
	{ size_t b = 0; for (int l = 1; l <= 5; l++) { size_t e = ds.size(); for (size_t k = b; k < e; k++) for (char c : dal) ds.push_back(ds[k] + c); b = e; } }
	{ size_t b = 0; for (int l = 1; l <= 4; l++) { size_t e = ns.size(); for (size_t k = b; k < e; k++) for (char c : nal) ns.push_back(ns[k] + c); b = e; } }
	size_t diffs = 0, falseNeg = 0, total = 0;
	for (auto& d : ds) for (auto& n : ns) {
		if (n.empty()) continue;
		total++;
		bool a = uscxml::nameMatch(d, n), r = ref(d, n);
		if (a != r) { diffs++; if (!a) falseNeg++; }
	}
	std::cout << "exhaustive: " << diffs << " of " << total << " pairs differ (" << falseNeg << " of them matches that are missed, the rest matches that should not be)" << std::endl;
	return (bad || diffs) ? 1 : 0;
}
