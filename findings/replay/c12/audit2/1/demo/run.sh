#!/bin/sh
# usage: run.sh <build dir>; exits non-zero when the defect shows
B=${1:?build dir}
D=$(cd "$(dirname "$0")" && pwd)
T=$(mktemp -d)
rc=0

# 1. the interpreter is case sensitive and ends in pass
if "$B/bin/test-state-pass" "$D/case.scxml" >"$T/interp.log" 2>&1; then
	echo "interpreter: pass (event a skips event=\"A\" and takes event=\"a\")"
else
	echo "interpreter: did not pass (unexpected)"; rc=2
fi

# 2. the Promela model of the same document
"$B/bin/uscxml-transform" -tpml -i "$D/case.scxml" -o "$T/case.pml" >"$T/transform.log" 2>&1
echo "--- literal macros and statically resolved matches in the generated model:"
grep -n -E '^#define [A-Za-z0-9_]+ [0-9]+ /\* (a|A|go) \*/' "$T/case.pml"
grep -n -E '\(i == [0-9]+ && \(false' "$T/case.pml"

if grep -q -E '^#define [0-9]' "$T/case.pml"; then
	echo "DEFECT: an event name was given a purely numeric macro name"; rc=1
fi
if grep -q -E '_event == [0-9]+[ )]' "$T/case.pml"; then
	echo "DEFECT: a transition is matched against a bare number (the code of another literal) instead of its own event"; rc=1
fi
if command -v spin >/dev/null 2>&1 && command -v gcc >/dev/null 2>&1; then
	( cd "$T" && spin -a case.pml >spin.log 2>&1 ) || { echo "DEFECT: spin rejects the model as generated:"; head -3 "$T/spin.log"; rc=1; }
	# illustration only: drop the line cpp rejects and verify what is left, i.e. the matcher exactly as generated
	grep -v -E '^#define [0-9]' "$T/case.pml" > "$T/case2.pml"
	( cd "$T" && spin -a case2.pml >spin2.log 2>&1 && gcc -DMEMLIM=1024 -DVECTORSZ=8192 -O1 -DXUSAFE -w pan.c -o pan >gcc.log 2>&1 && ./pan -a -m100000 -n -N w3c >pan.log 2>&1 )
	if grep -q "errors: 0" "$T/pan.log" 2>/dev/null; then
		echo "model without the bad #define: ltl 'eventually pass' holds"
	else
		echo "DEFECT: model without the bad #define: ltl 'eventually pass' is violated - event a takes event=\"A\" (ends in fail)"
		grep -E "errors:|acceptance cycle|assertion" "$T/pan.log" | head -3
		rc=1
	fi
fi
rm -rf "$T"
exit $rc
