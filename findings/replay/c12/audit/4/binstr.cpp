// calls uscxml::toBinStr directly and checks: result has exactly `margin` characters, all '0'/'1', value round-trips
#include "uscxml/util/String.h"
#include <iostream>
int main() {
	int bad = 0;
	for (size_t margin = 1; margin <= 5; margin++) {
		for (size_t val = 0; val < ((size_t)1 << margin); val++) {
			std::string s = uscxml::toBinStr(val, margin);
			bool ok = s.size() == margin;
			size_t back = 0;
			for (char c : s) { if (c != '0' && c != '1') ok = false; back = back * 2 + (c - '0'); }
			if (back != val) ok = false;
			if (!ok) { bad++; if (margin <= 4) std::cout << "toBinStr(" << val << ", " << margin << ") = \"" << s << "\"" << std::endl; }
		}
	}
	std::cout << bad << " wrong results" << std::endl;
	return bad ? 1 : 0;
}
