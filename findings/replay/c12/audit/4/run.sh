#!/bin/bash
# usage: run.sh <build dir>     (source tree is taken as <build dir>/.. unless SRC is set)
# ghdl is not available; the event codes in the generated VHDL are checked textually: every code must be a bit string
# of the width of the event bus.
B=$(readlink -f "${1:?build dir}")
SRC=${SRC:-$(readlink -f $B/..)}
HERE=$(cd "$(dirname "$0")" && pwd)
TMP=$(mktemp -d)
rc=0
g++ -std=gnu++11 -w -I$SRC/src -I$B -I$SRC/contrib/src -DXERCESC_NS=xercesc_3_2 $HERE/binstr.cpp -o $TMP/binstr -L$B/lib -luscxml -lxerces-c -Wl,-rpath,$B/lib || exit 2
echo "--- uscxml::toBinStr called directly"
$TMP/binstr || rc=1
echo "--- five_events.scxml -> VHDL"
$B/bin/uscxml-transform -tvhdl -i $HERE/five_events.scxml -o $TMP/m.vhdl >$TMP/t.out 2>&1 || exit 2
grep -n "signal next_event :" $TMP/m.vhdl
width=$(( $(grep "signal next_event :" $TMP/m.vhdl | grep -o "[0-9]* downto" | grep -o "[0-9]*") + 1 ))
grep -n 'when "\|event_bus <= "' $TMP/m.vhdl
for code in $(grep -o 'when "[^"]*"\|event_bus <= "[^"]*"' $TMP/m.vhdl | grep -o '"[^"]*"' | tr -d '"'); do
	if [ ${#code} != $width ] || echo "$code" | grep -q '[^01]'; then echo "   DEFECT: event code \"$code\" is not a $width-bit string"; rc=1; fi
done
rm -rf $TMP
exit $rc
