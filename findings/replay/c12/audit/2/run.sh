#!/bin/bash
# usage: run.sh <build dir>     (source tree is taken as <build dir>/.. unless SRC is set)
# ghdl is not available, so the generated VHDL text is inspected:
#  - every event name must get its own signal (one 'signal event_*_sig' declaration per name, no duplicates, also
#    when compared case-insensitively as VHDL does)
#  - the signal names must be VHDL identifiers
B=$(readlink -f "${1:?build dir}")
SRC=${SRC:-$(readlink -f $B/..)}
HERE=$(cd "$(dirname "$0")" && pwd)
TMP=$(mktemp -d)
rc=0
g++ -std=gnu++11 -w -I$SRC/src -I$B -I$SRC/contrib/src -DXERCESC_NS=xercesc_3_2 $HERE/escape.cpp -o $TMP/escape -L$B/lib -luscxml -lxerces-c -Wl,-rpath,$B/lib || exit 2
echo "--- uscxml::escapeMacro called directly"
$TMP/escape || rc=1
for doc in collide twodots case; do
	echo "--- $doc.scxml"
	$B/bin/uscxml-transform -tvhdl -i $HERE/$doc.scxml -o $TMP/$doc.vhdl >$TMP/$doc.out 2>&1 || { echo "transform failed"; exit 2; }
	grep -a "^signal event_.*_sig : std_logic;" $TMP/$doc.vhdl | grep -av "event_bus\|event_we" | cat -v | sed 's/^/   /'
	dups=$(grep -a "^signal event_.*_sig : std_logic;" $TMP/$doc.vhdl | tr 'A-Z' 'a-z' | sort | uniq -d | wc -l)
	ctrl=$(grep -a "^signal event_.*_sig : std_logic;" $TMP/$doc.vhdl | LC_ALL=C grep -ac '[^A-Za-z0-9_ :;]')
	[ $dups -gt 0 ] && { echo "   DEFECT: two event names share one signal (duplicate declaration)"; rc=1; }
	[ $ctrl -gt 0 ] && { echo "   DEFECT: signal name is not a VHDL identifier"; rc=1; }
done
echo "--- collide.scxml: the transition for 'a.bc' (transition 0) is enabled by the signal that 'ab.c' raises:"
grep -a -n "in_optimal_transition_set_0_sig <=" -A 8 $TMP/collide.vhdl | grep -a "event_" | sed 's/^/   /'
grep -a -n 'when "' -A 2 $TMP/collide.vhdl | sed 's/^/   /'
rm -rf $TMP
exit $rc
