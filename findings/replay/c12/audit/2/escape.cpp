// calls uscxml::escapeMacro directly
#include "uscxml/util/String.h"
#include <iostream>
#include <cstdio>
static std::string show(const std::string& s) {
	std::string r; char buf[8];
	for (unsigned char c : s) { if (c > 32 && c < 127) r += c; else { snprintf(buf, sizeof buf, "\\x%02x", c); r += buf; } }
	return r;
}
int main() {
	int bad = 0;
	const char* pairs[][2] = { {"a.bc", "ab.c"}, {"foo.bar", "foob.ar"}, {"error.execution", "errorexecution."} };
	for (auto& p : pairs) {
		std::string x = uscxml::escapeMacro(p[0]), y = uscxml::escapeMacro(p[1]);
		std::cout << p[0] << " -> " << show(x) << "   " << p[1] << " -> " << show(y) << (x == y ? "   SAME" : "") << std::endl;
		if (x == y) bad = 1;
	}
	for (auto n : {"foo.bar.baz", "done.state.s1", "a.b.c.d"}) {
		std::string x = uscxml::escapeMacro(n);
		bool ident = true;
		for (unsigned char c : x) if (!(isalnum(c) || c == '_')) ident = false;
		std::cout << n << " -> " << show(x) << (ident ? "" : "   NOT AN IDENTIFIER") << std::endl;
		if (!ident) bad = 1;
	}
	return bad;
}
