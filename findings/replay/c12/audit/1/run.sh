#!/bin/bash
# usage: run.sh <build dir>
# Runs each document in the interpreter and as a Promela model under spin.
# The generated model carries  ltl w3c { eventually (config[PASS]) } ; "errors: 1" means 'pass' is not reached.
# Exits 1 when the interpreter reaches 'pass' but the Promela model does not (for wildcard_in_list.scxml).
B=$(readlink -f "${1:?build dir}")
HERE=$(cd "$(dirname "$0")" && pwd)
TMP=$(mktemp -d)
rc=0
for doc in wildcard_in_list glob_star; do
	f=$HERE/$doc.scxml
	$B/bin/test-state-pass $f >$TMP/$doc.int.out 2>&1; int=$?
	$B/bin/uscxml-transform -tpml -i $f -o $TMP/$doc.pml >$TMP/$doc.tp.out 2>&1 || { echo "transform failed"; exit 2; }
	( cd $TMP && rm -f pan pan.* && spin -a $doc.pml >$doc.spin.out 2>&1 && gcc -DMEMLIM=1024 -DVECTORSZ=2048 -O2 -DXUSAFE -w -o pan pan.c && ./pan -m10000 -a > $doc.pan.out 2>&1 )
	errs=$(grep -o "errors: [0-9]*" $TMP/$doc.pan.out | head -1)
	echo "$doc: interpreter $( [ $int = 0 ] && echo pass || echo fail ), spin '$errs'"
	echo "   generated match clause(s):"; grep -n "|| (i == 0" $TMP/$doc.pml | sed 's/^/   /'
	if [ "$doc" = wildcard_in_list ] && [ $int = 0 ] && [ "$errs" != "errors: 0" ]; then rc=1; fi
done
rm -rf $TMP
[ $rc = 1 ] && echo "DEFECT: event=\"foo *\" matches 'bar' in the interpreter but not in the Promela model"
exit $rc
