// runs a document in the default (large) engine and in the fast engine; prints final outcome each
#include "uscxml/uscxml.h"
#include "uscxml/interpreter/InterpreterImpl.h"
#include "uscxml/interpreter/FastMicroStep.h"
#include "uscxml/interpreter/LargeMicroStep.h"
#include <iostream>
using namespace uscxml;
static int run(const std::string& url, bool fast) {
	Interpreter interpreter = Interpreter::fromURL(url);
	ActionLanguage al;
	if (fast) al.microStepper = MicroStep(std::shared_ptr<MicroStepImpl>(new FastMicroStep(interpreter.getImpl().get())));
	else al.microStepper = MicroStep(std::shared_ptr<MicroStepImpl>(new LargeMicroStep(interpreter.getImpl().get())));
	interpreter.setActionLanguage(al);
	InterpreterState state = USCXML_UNDEF;
	int steps = 0;
	while (state != USCXML_FINISHED && steps++ < 10000) state = interpreter.step(200);
	if (state != USCXML_FINISHED) return 2;
	return interpreter.isInState("pass") ? 0 : 1;
}
int main(int argc, char** argv) {
	const char* names[] = {"pass", "fail", "did not finish"};
	int l = run(argv[1], false), f = run(argv[1], true);
	std::cout << "large engine: " << names[l] << std::endl << "fast engine: " << names[f] << std::endl;
	return (l ? 1 : 0) | (f ? 2 : 0);
}
