#!/bin/bash
# usage: run.sh <build dir>     (source tree is taken as <build dir>/.. unless SRC is set)
B=$(readlink -f "${1:?build dir}")
SRC=${SRC:-$(readlink -f $B/..)}
HERE=$(cd "$(dirname "$0")" && pwd)
TMP=$(mktemp -d)
f=$HERE/empty_event.scxml
g++ -std=gnu++11 -w -I$SRC/src -I$B -I$SRC/contrib/src -DXERCESC_NS=xercesc_3_2 $HERE/both.cpp -o $TMP/both -L$B/lib -luscxml -lxerces-c -Wl,-rpath,$B/lib || exit 2
echo "--- interpreters, empty_event.scxml"
$TMP/both $f 2>&1 | grep "engine:"; int=${PIPESTATUS[0]}
echo "--- interpreters, loop.scxml (10000 steps allowed)"
$TMP/both $HERE/loop.scxml 2>&1 | grep "engine:"
echo "--- generated C with the shipped scaffolding, empty_event.scxml"
$B/bin/uscxml-transform -tc -i $f -o $TMP/m.machine.c >$TMP/tc.out 2>&1 || exit 2
g++ -O0 -std=c++11 -w -o $TMP/m.bin -I$SRC/contrib/src -I$SRC/src -I$B -include $TMP/m.machine.c -DAUTOINCLUDE_TEST=ON -DXERCESC_NS=xercesc_3_2 $SRC/test/src/test-gen-c.cpp -L$B/lib -luscxml -lxerces-c -Wl,-rpath,$B/lib >$TMP/cc.out 2>&1 || { tail $TMP/cc.out; exit 2; }
( cd $TMP && timeout 30 ./m.bin >c.out 2>&1 ); c=$?
grep -a "Outcome" $TMP/c.out | head -1; echo "generated C: $( [ $c = 0 ] && echo pass || echo "fail ($c)" )"
echo "--- Promela, empty_event.scxml"
$B/bin/uscxml-transform -tpml -i $f -o $TMP/m.pml >$TMP/tp.out 2>&1 || exit 2
( cd $TMP && spin -a m.pml >spin.out 2>&1 && gcc -DMEMLIM=1024 -DVECTORSZ=2048 -O2 -DXUSAFE -w -o pan pan.c && ./pan -m10000 -a >pan.out 2>&1 )
errs=$(grep -o "errors: [0-9]*" $TMP/pan.out | head -1); echo "spin: $errs  (ltl: eventually pass)"
rm -rf $TMP
if [ $int != 0 ] && [ $c = 0 ] && [ "$errs" = "errors: 0" ]; then
	echo "DEFECT: <transition event=\"\"> is taken as an eventless transition by the interpreters, never by the generated C / Promela"
	exit 1
fi
exit 0
