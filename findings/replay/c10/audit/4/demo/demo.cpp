// Delivering the unblock event of cancel(), or an event of another session, to an interpreter whose external queue
// does not exist yet dereferences a null queue (SIGSEGV). Only receive() was made safe.
// usage: demo engine | failedinit | session
#include "common.h"

int main(int argc, char** argv) {
	std::string mode = argc > 1 ? argv[1] : "engine";

	if (mode == "engine") {
		// cancel() before the first step() of an interpreter that was given the fast engine (or any ActionLanguage with a micro-stepper)
		Interpreter i = Interpreter::fromXML("<scxml><state id=\"s\"/></scxml>", "");
		useFast(i);
		std::cout << "cancel() before the first step(), fast engine selected ..." << std::endl;
		i.cancel();
		std::cout << "returned;";
		for (int k = 0; k < 4; k++)
			std::cout << " " << stName(i.step(0));
		std::cout << std::endl;

	} else if (mode == "failedinit") {
		// first step() fails (unknown data model), the caller gives up and cancels
		Interpreter i = Interpreter::fromXML("<scxml datamodel=\"nonexistent\"><state id=\"s\"/></scxml>", "");
		try {
			i.step(0);
		} catch (Event& e) {
			std::cout << "step() threw " << e.name << ", state is " << stName(i.getState()) << std::endl;
		}
		std::cout << "cancel() after the failed step() ..." << std::endl;
		i.cancel();
		std::cout << "returned" << std::endl;

	} else {
		// a running session sends to another session that exists but was not stepped yet
		Interpreter b = Interpreter::fromXML("<scxml><state id=\"idle\"/></scxml>", "");
		std::string xml = "<scxml><state id=\"s\"><onentry><send target=\"#_scxml_" + b.getImpl()->getSessionId() +
		                  "\" event=\"hello\"/></onentry></state></scxml>";
		Interpreter a = Interpreter::fromXML(xml, "");
		std::cout << "session a sends to session b, which was created but never stepped ..." << std::endl;
		for (int k = 0; k < 5; k++)
			a.step(0);
		std::cout << "returned" << std::endl;
	}
	return 0;
}
