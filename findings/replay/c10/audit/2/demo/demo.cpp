// cancel() is never honoured while the chart keeps itself busy (eventless loop, or internal events raised in a loop);
// a parent that invoked such a chart can neither leave the invoking state nor be destroyed.
// usage: demo cancel | leave | destroy
#include "common.h"
#include <signal.h>
#include <unistd.h>

static const char* what = "";
static void onAlarm(int) {
	char buf[200];
	int n = snprintf(buf, sizeof(buf), "DEFECT: %s did not return within 5s\n", what);
	if (write(1, buf, n)) {}
	_exit(1);
}

static const char* loopSpontaneous =
    "<scxml><state id=\"a\"><onexit><log label=\"onexit\" expr=\"1\"/></onexit><transition target=\"b\"/></state>"
    "<state id=\"b\"><transition target=\"a\"/></state></scxml>";
static const char* loopInternal =
    "<scxml><state id=\"a\"><onentry><raise event=\"tick\"/></onentry>"
    "<transition event=\"tick\"><raise event=\"tick\"/></transition></state></scxml>";

static int cancelNeverFinishes(const char* name, const char* xml, bool fast) {
	Interpreter i = Interpreter::fromXML(xml, "");
	if (fast)
		useFast(i);
	for (int k = 0; k < 10; k++)
		i.step(0);
	i.cancel();
	int n = 0;
	InterpreterState s = USCXML_UNDEF;
	while (n < 200000 && (s = i.step(0)) != USCXML_FINISHED)
		n++;
	std::cout << name << " / " << (fast ? "fast" : "large") << " engine: " << n << " steps after cancel(), last result "
	          << stName(s) << (s == USCXML_FINISHED ? "" : "  <-- DEFECT: never CANCELLED, never FINISHED") << std::endl;
	return s != USCXML_FINISHED;
}

int main(int argc, char** argv) {
	std::string mode = argc > 1 ? argv[1] : "cancel";
	signal(SIGALRM, onAlarm);

	if (mode == "cancel") {
		int r = 0;
		r |= cancelNeverFinishes("eventless loop", loopSpontaneous, false);
		r |= cancelNeverFinishes("eventless loop", loopSpontaneous, true);
		r |= cancelNeverFinishes("raise loop", loopInternal, false);
		r |= cancelNeverFinishes("raise loop", loopInternal, true);
		return r;
	}

	// the invoked child keeps itself busy with internal events; the parent leaves the invoking state after 100ms
	const char* xml =
	    "<scxml><state id=\"s\"><onentry><send event=\"leave\" delay=\"100ms\"/></onentry>"
	    "<invoke type=\"scxml\"><content><scxml><state id=\"c\"><onentry><raise event=\"tick\"/></onentry>"
	    "<transition event=\"tick\"><raise event=\"tick\"/></transition></state></scxml></content></invoke>"
	    "<transition event=\"leave\" target=\"t\"/></state><state id=\"t\"/></scxml>";
	{
		Interpreter i = Interpreter::fromXML(xml, "");
		while (i.step(0) != USCXML_IDLE) {}
		std::cout << "parent is idle in s, the child is running" << std::endl;
		alarm(5);
		if (mode == "leave") {
			what = "step() of the parent (uninvoke at the end of the macrostep that left s)";
			while (!i.isInState("t"))
				i.step(200);
			while (i.step(0) != USCXML_IDLE) {}
			std::cout << "parent reached t and is idle" << std::endl;
		}
		what = "destruction of the parent";
	}
	alarm(0);
	std::cout << "parent destroyed" << std::endl;
	return 0;
}
