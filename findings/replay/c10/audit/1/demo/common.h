#include "uscxml/config.h"
#include "uscxml/Interpreter.h"
#include "uscxml/interpreter/InterpreterMonitor.h"
#include "uscxml/interpreter/InterpreterImpl.h"
#include "uscxml/plugins/Factory.h"
#include "uscxml/util/DOM.h"
#include <iostream>
#include <thread>
#include <chrono>
using namespace uscxml;
static const char* stName(InterpreterState s) {
  switch(s){case USCXML_FINISHED:return "FINISHED";case USCXML_UNDEF:return "UNDEF";case USCXML_IDLE:return "IDLE";case USCXML_INITIALIZED:return "INITIALIZED";case USCXML_INSTANTIATED:return "INSTANTIATED";case USCXML_MICROSTEPPED:return "MICROSTEPPED";case USCXML_MACROSTEPPED:return "MACROSTEPPED";case USCXML_CANCELLED:return "CANCELLED";}
  return "?";
}
static void useFast(Interpreter& i) {
  ActionLanguage al;
  al.microStepper = Factory::getInstance()->createMicroStepper("fast", (MicroStepCallbacks*)(i.getImpl().get()));
  i.setActionLanguage(al);
}
