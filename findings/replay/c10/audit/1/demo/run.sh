#!/bin/sh
# usage: run.sh <build dir>   (sources are expected next to it: <build dir>/../src; override with USCXML_SRC)
# exit status: 0 = defect not observed, 1 = defect observed, 2 = could not build the demo
BUILD=$(cd "${1:?build dir}" && pwd)
SRC=${USCXML_SRC:-$(cd "$BUILD/.." && pwd)}
HERE=$(cd "$(dirname "$0")" && pwd)
OUTBIN=$(mktemp -d)
g++ -g -O0 -std=gnu++11 -I"$SRC/src" -I"$BUILD" -I"$SRC/contrib/src" -DXERCESC_NS=xercesc_3_2 \
    "$HERE/demo.cpp" -o "$OUTBIN/demo" -L"$BUILD/lib" -luscxml -lxerces-c -lpthread -Wl,-rpath,"$BUILD/lib" || exit 2
rc=0
for mode in reset destroy; do
	"$OUTBIN/demo" $mode 20000 > "$OUTBIN/log" 2>&1 || rc=1
	grep -v "^\[Info\]" "$OUTBIN/log"
done
rm -rf "$OUTBIN"
exit $rc
