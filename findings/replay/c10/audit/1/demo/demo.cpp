// reset() / destruction of an interpreter hang forever when they coincide with a delayed event becoming due.
// usage: demo reset|destroy [iterations]
#include "common.h"
#include <random>
#include <signal.h>
#include <unistd.h>

static volatile int iteration = 0;
static const char* what = "";
static void onAlarm(int) {
	char buf[200];
	int n = snprintf(buf, sizeof(buf), "DEFECT: %s did not return within 5s (iteration %d) - main thread and timer thread are deadlocked\n", what, iteration);
	if (write(1, buf, n)) {}
	_exit(1);
}

int main(int argc, char** argv) {
	// one delayed event, nothing else
	const char* xml = "<scxml><state id=\"s\"><onentry><send event=\"e\" delay=\"2ms\"/></onentry></state></scxml>";
	bool destroy = argc > 1 && std::string(argv[1]) == "destroy";
	int iters = argc > 2 ? atoi(argv[2]) : 20000;
	what = destroy ? "destruction of the interpreter" : "reset()";
	signal(SIGALRM, onAlarm);
	std::mt19937 rng(1);
	Interpreter i = Interpreter::fromXML(xml, "");
	for (int k = 0; k < iters; k++) {
		iteration = k;
		if (destroy)
			i = Interpreter::fromXML(xml, "");
		auto t0 = std::chrono::steady_clock::now();
		while (i.step(0) != USCXML_IDLE) {}
		// request reset / destruction at about the time the delayed event is due
		int us = 1900 + (rng() % 400);
		while (std::chrono::steady_clock::now() - t0 < std::chrono::microseconds(us)) {}
		alarm(5);
		if (destroy)
			i = Interpreter();
		else
			i.reset();
		alarm(0);
	}
	std::cout << "no hang of " << what << " in " << iters << " iterations" << std::endl;
	return 0;
}
