// reset() keeps the data model (variables, _event) and the running invocations of the previous run:
// the second run of a reset interpreter differs from the run of a freshly created one.
#include "common.h"

static std::string runOnce(Interpreter& i) {
	int n = 0;
	InterpreterState s;
	std::string seq;
	while ((s = i.step(0)) != USCXML_FINISHED && n++ < 1000) {}
	std::string cfg;
	for (auto e : i.getConfiguration()) {
		if (HAS_ATTR(e, X("id")))
			cfg += ATTR(e, X("id")) + " ";
	}
	return cfg;
}

static int compare(const char* name, const char* xml, bool fast) {
	std::string first, afterReset, fresh;
	{
		Interpreter i = Interpreter::fromXML(xml, "");
		if (fast) useFast(i);
		first = runOnce(i);
		i.reset();
		afterReset = runOnce(i);
	}
	{
		Interpreter i = Interpreter::fromXML(xml, "");
		if (fast) useFast(i);
		fresh = runOnce(i);
	}
	std::cout << name << " / " << (fast ? "fast" : "large") << ": first run ends in { " << first << "}, run after reset() in { "
	          << afterReset << "}, fresh interpreter in { " << fresh << "}" << (afterReset != fresh ? "  <-- DEFECT" : "") << std::endl;
	return afterReset != fresh;
}

int main(int argc, char** argv) {
	int r = 0;

	// (a) late binding, as W3C test 280: y is unbound until t is entered
	const char* late =
	    "<scxml datamodel=\"lua\" binding=\"late\">"
	    "<state id=\"s\"><transition cond=\"y == nil\" target=\"t\"/><transition target=\"fail\"/></state>"
	    "<state id=\"t\"><datamodel><data id=\"y\" expr=\"1\"/></datamodel><transition target=\"pass\"/></state>"
	    "<final id=\"pass\"/><final id=\"fail\"/></scxml>";
	r |= compare("late binding", late, false);
	r |= compare("late binding", late, true);

	// (b) as W3C test 319: _event is unbound until the first event is processed
	const char* ev =
	    "<scxml datamodel=\"lua\"><state id=\"s\"><onentry><send event=\"go\"/></onentry>"
	    "<transition cond=\"_event ~= nil\" target=\"fail\"/><transition event=\"go\" target=\"pass\"/></state>"
	    "<final id=\"pass\"/><final id=\"fail\"/></scxml>";
	r |= compare("_event unbound", ev, false);
	r |= compare("_event unbound", ev, true);

	// (c) a global created by a script
	const char* script =
	    "<scxml datamodel=\"lua\"><script>if seen == nil then seen = 0 end seen = seen + 1</script>"
	    "<state id=\"s\"><transition cond=\"seen == 1\" target=\"pass\"/><transition target=\"fail\"/></state>"
	    "<final id=\"pass\"/><final id=\"fail\"/></scxml>";
	r |= compare("script global", script, false);

	// (d) reset() while an invocation runs: the child of the previous run survives and keeps talking to the new run
	const char* inv =
	    "<scxml datamodel=\"lua\"><state id=\"s\"><invoke type=\"scxml\"><content><scxml datamodel=\"lua\"><state id=\"c\">"
	    "<onentry><send event=\"tick\" delay=\"20ms\"/></onentry>"
	    "<transition event=\"tick\" target=\"c\"><send target=\"#_parent\" event=\"ping\"/></transition>"
	    "</state></scxml></content></invoke>"
	    "<transition event=\"ping\"/></state></scxml>";
	{
		Interpreter i = Interpreter::fromXML(inv, "");
		std::set<std::string> senders;
		struct M : public InterpreterMonitor {
			std::set<std::string>* s;
			void beforeProcessingEvent(const std::string&, const Event& e) {
				if (e.name == "ping") s->insert(e.invokeid);
			}
		} mon;
		mon.s = &senders;
		i.addMonitor(&mon);
		auto until = [&](int ms) {
			auto end = std::chrono::steady_clock::now() + std::chrono::milliseconds(ms);
			while (std::chrono::steady_clock::now() < end) i.step(10);
		};
		until(200);
		size_t sessions1 = InterpreterImpl::getInstances().size(), invokers1 = i.getImpl()->getInvokers().size();
		i.reset();
		std::this_thread::sleep_for(std::chrono::milliseconds(100));
		size_t sessions2 = InterpreterImpl::getInstances().size(), invokers2 = i.getImpl()->getInvokers().size();
		senders.clear();
		until(300);
		size_t sessions3 = InterpreterImpl::getInstances().size(), invokers3 = i.getImpl()->getInvokers().size();
		std::cout << "invocation: run 1: " << sessions1 << " sessions, " << invokers1 << " invoker; after reset(), before any step: "
		          << sessions2 << " sessions, " << invokers2 << " invoker; run 2: " << sessions3 << " sessions, " << invokers3
		          << " invokers, 'ping' received from " << senders.size() << " different invokeids"
		          << ((sessions2 != 1 || invokers3 != 1 || senders.size() != 1) ? "  <-- DEFECT (fresh interpreter: 1 / 0, then 2 / 1 / 1)" : "") << std::endl;
		r |= (sessions2 != 1 || invokers3 != 1 || senders.size() != 1);
	}
	return r;
}
