// Replay for C09 finding R09.1 on the current tree: lock-order cycle  queue _mutex -> CB(timerCallback) -> queue _mutex.
// The canceller is descheduled right after it took the queue mutex inside cancelDelayed (modelled by taking the
// recursive mutex a little earlier, which is what cancelDelayed does itself); the timer fires meanwhile, its
// callback is started by libevent and blocks on the mutex; event_del then waits for the running callback: dead-lock.
#include "uscxml/uscxml.h"
#include "uscxml/interpreter/BasicDelayedEventQueue.h"
#include <chrono>
#include <iostream>
#include <thread>
#include <unistd.h>
using namespace uscxml;
struct CB : public DelayedEventQueueCallbacks { void eventReady(Event& e, const std::string& uuid) { std::cout << "delivered" << std::endl; } };
struct Q : public BasicDelayedEventQueue {
	Q(DelayedEventQueueCallbacks* cb) : BasicDelayedEventQueue(cb) {}
	void cancelSlowly(const std::string& id) {
		std::lock_guard<std::recursive_mutex> lock(_mutex);                // first statement of cancelDelayed
		std::this_thread::sleep_for(std::chrono::milliseconds(300));        // pre-empted here; timer (50 ms) fires
		cancelDelayed(id);                                                   // event_del() under the mutex
	}
};
int main() {
	CB cb; Q q(&cb);
	Event e; e.name = "foo";
	q.enqueueDelayed(e, 50, "uuid-1");
	std::thread watchdog([] { std::this_thread::sleep_for(std::chrono::seconds(5)); std::cout << "DEADLOCK: cancelDelayed did not return within 5s" << std::endl; _exit(3); });
	watchdog.detach();
	q.cancelSlowly("uuid-1");
	std::cout << "cancelDelayed returned" << std::endl;
	return 0;
}
