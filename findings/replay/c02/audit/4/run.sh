#!/bin/bash
# usage: run.sh <build dir>   -- exits non-zero when the defect shows
B=$(cd "${1:?build dir}" && pwd)
D=$(cd "$(dirname "$0")" && pwd)
SRC=$(sed -n 's/^CMAKE_HOME_DIRECTORY:INTERNAL=//p' "$B/CMakeCache.txt")
T=$(mktemp -d)
CHART=$D/history_chain.scxml
EVENTS="go"
ENGINES="large fast"
WITH_C=1
g++ -w -O1 -std=gnu++11 -DXERCESC_NS=xercesc_3_2 -I"$SRC/src" -I"$B" -I"$SRC/contrib/src" \
    "$D/check_config.cpp" -o "$T/check_config" -L"$B/lib" -luscxml -lxerces-c -Wl,-rpath,"$B/lib" || exit 99
rc=0
for e in $ENGINES; do
	echo "--- interpreter, micro-step engine: $e"
	"$T/check_config" $e "$CHART" $EVENTS 2>/dev/null | grep -v '^\[Info'
	[ ${PIPESTATUS[0]} -eq 1 ] && rc=1
done
if [ "$WITH_C" = 1 ]; then
	echo "--- generated C machine (uscxml-transform -tc)"
	"$B/bin/uscxml-transform" -tc -i "$CHART" -o "$T/machine.c" >/dev/null 2>&1
	gcc -w -DMACHINE_FILE="\"$T/machine.c\"" "$D/charness.c" -o "$T/machine" || exit 99
	"$T/machine" $EVENTS
	[ $? -eq 1 ] && rc=1
fi
rm -rf "$T"
[ $rc -ne 0 ] && echo "DEFECT SHOWN: illegal configuration reached" || echo "no defect observed"
exit $rc
