// drv <large|fast> file.scxml [events...]   (event "-" = none); checks config legality after every step
#include "uscxml/Interpreter.h"
#include "uscxml/interpreter/InterpreterImpl.h"
#include "uscxml/interpreter/InterpreterMonitor.h"
#include "uscxml/interpreter/FastMicroStep.h"
#include "uscxml/interpreter/LargeMicroStep.h"
#include "uscxml/debug/InterpreterIssue.h"
#include "uscxml/util/DOM.h"
#include "uscxml/util/Predicates.h"
#include <iostream>
#include <set>

using namespace uscxml;
using namespace XERCESC_NS;

static std::string nameOf(DOMElement* e) {
	std::string n = (std::string)X(e->getLocalName());
	if (HAS_ATTR(e, X("id"))) n += "#" + ATTR(e, X("id"));
	return n;
}
static bool isProper(DOMElement* e) {
	std::string n = (std::string)X(e->getLocalName());
	return n == "state" || n == "parallel" || n == "final";
}
static std::list<DOMElement*> kids(DOMElement* e) {
	std::list<DOMElement*> r;
	for (auto c = e->getFirstElementChild(); c; c = c->getNextElementSibling())
		if (isProper(c)) r.push_back(c);
	return r;
}

static int verbose = 0;

static std::string confStr(const std::list<DOMElement*>& conf) {
	std::string s;
	for (auto e : conf) s += nameOf(e) + " ";
	return s;
}

static bool legal(DOMElement* root, const std::list<DOMElement*>& conf, std::string& why) {
	std::set<DOMElement*> c(conf.begin(), conf.end());
	if (c.size() != conf.size()) { why = "duplicate entries"; return false; }
	if (!c.count(root)) { why = "root not active"; return false; }
	bool atomic = false;
	for (auto e : conf) {
		std::string n = (std::string)X(e->getLocalName());
		if (e != root && !isProper(e)) { why = "pseudo state active: " + nameOf(e); return false; }
		if (e != root) {
			DOMNode* p = e->getParentNode();
			if (!p || !c.count((DOMElement*)p)) { why = "parent of " + nameOf(e) + " not active"; return false; }
		}
		auto k = kids(e);
		if (k.empty()) { atomic = true; continue; }
		size_t act = 0;
		for (auto ch : k) if (c.count(ch)) act++;
		if (n == "parallel") {
			if (act != k.size()) { why = "parallel " + nameOf(e) + " has inactive child"; return false; }
		} else {
			if (act != 1) { why = "compound " + nameOf(e) + " has " + std::to_string(act) + " active children"; return false; }
		}
	}
	if (!atomic) { why = "no atomic state"; return false; }
	return true;
}

class Mon : public InterpreterMonitor {
public:
	DOMElement* root = NULL;
	int rootEntered = 0, rootExited = 0;
	virtual void beforeEnteringState(const std::string& sid, const std::string& name, const DOMElement* s) {
		if (verbose) std::cerr << "  enter " << nameOf((DOMElement*)s) << std::endl;
		if (s == root) rootEntered++;
	}
	virtual void beforeExitingState(const std::string& sid, const std::string& name, const DOMElement* s) {
		if (verbose) std::cerr << "  exit " << nameOf((DOMElement*)s) << std::endl;
		if (s == root) rootExited++;
	}
};

int main(int argc, char** argv) {
	if (argc < 3) return 2;
	if (getenv("DRV_VERBOSE")) verbose = 1;
	std::string engine = argv[1];
	int rc = 0;
	try {
		Interpreter interp = Interpreter::fromURL(argv[2]);
		auto issues = interp.validate();
		for (auto& is : issues) {
			if (is.severity == InterpreterIssue::USCXML_ISSUE_FATAL) {
				if (verbose) std::cerr << "FATAL issue: " << is.message << std::endl;
				std::cout << "INVALID" << std::endl;
				return 3;
			}
		}
		ActionLanguage al;
		if (engine == "fast")
			al.microStepper = MicroStep(std::shared_ptr<MicroStepImpl>(new FastMicroStep((MicroStepCallbacks*)interp.getImpl().get())));
		else
			al.microStepper = MicroStep(std::shared_ptr<MicroStepImpl>(new LargeMicroStep((MicroStepCallbacks*)interp.getImpl().get())));
		interp.setActionLanguage(al);
		Mon mon;
		interp.addMonitor(&mon);

		int next = 3;
		int steps = 0;
		bool entered = false;
		while (steps++ < 3000) {
			InterpreterState st = interp.step(0);
			if (st == USCXML_FINISHED) break;
			if (st == USCXML_INSTANTIATED || st == USCXML_INITIALIZED) continue;
			auto conf = interp.getConfiguration();
			if (conf.empty() && !entered) continue;
			entered = true;
			DOMElement* root = NULL;
			if (!conf.empty()) root = conf.front()->getOwnerDocument()->getDocumentElement();
			if (!mon.root) mon.root = root;
			std::string why;
			if (verbose) std::cerr << "[" << st << "] " << confStr(conf) << std::endl;
			if (conf.empty() || !legal(root, conf, why)) {
				std::cout << "ILLEGAL(" << engine << ") after step " << steps << " state " << st << ": " << why << " :: " << confStr(conf) << std::endl;
				rc = 1;
				break;
			}
			if (st == USCXML_IDLE) {
				if (next >= argc) break;
				std::string ev = argv[next++];
				if (verbose) std::cerr << "== event " << ev << std::endl;
				if (ev != "-") interp.receive(Event(ev));
			}
		}
		if (mon.rootExited > 0) {
			std::cout << "ROOT exited " << mon.rootExited << " times (" << engine << ")" << std::endl;
			rc = 1;
		}
		if (rc == 0) std::cout << "OK" << std::endl;
	} catch (Event e) {
		std::cout << "EXC " << e.name << std::endl;
		return 4;
	} catch (std::exception& e) {
		std::cout << "EXC " << e.what() << std::endl;
		return 4;
	}
	return rc;
}
